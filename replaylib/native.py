"""Run a snippet against the real compiled cherab of the tree under check (default /repo) in a fresh interpreter."""
import json
import os
import subprocess
import sys
import tempfile

PRELUDE = '''
import sys, types, json
tree = %r
m = types.ModuleType('cherab'); m.__path__ = [tree + '/cherab']; sys.modules['cherab'] = m
'''


def _built_from():
    """sha1 of every .pyx/.pxd the compiled modules of /repo were built from (recorded in /verif/replaylib/built_from.json when the
    binaries were last rebuilt in place; modification times are useless: `git checkout` and restores refresh them)."""
    p = os.path.join(os.path.dirname(os.path.abspath(__file__)), 'built_from.json')
    try:
        with open(p) as f:
            return json.load(f)
    except (OSError, ValueError):
        return {}


def stale_sources(tree):
    """.pyx/.pxd files that differ from what the compiled modules of /repo were built from, or that have no compiled module beside them
    (a native replay against `tree` would then not run the code under check -> a scratch build is made)."""
    import hashlib
    built = _built_from()
    stale = []
    for root, _, files in os.walk(os.path.join(tree, 'cherab')):
        for f in files:
            if not f.endswith('.pyx'):
                continue
            src = os.path.join(root, f)
            stem = f[:-4]
            sos = [x for x in files if x.startswith(stem + '.') and x.endswith('.so')]
            if not sos:
                stale.append(src)
                continue
            for c in [src] + ([src[:-4] + '.pxd'] if os.path.exists(src[:-4] + '.pxd') else []):
                rel = os.path.relpath(c, tree)
                try:
                    h = hashlib.sha1(open(c, 'rb').read()).hexdigest()
                except OSError:
                    h = None
                if built.get(rel) != h:
                    stale.append(c)
    return stale


_SCRATCH = {}


def _cleanup():
    import shutil
    for d in _SCRATCH.values():
        shutil.rmtree(d, ignore_errors=True)


def build_scratch(tree):
    """Compiled modules older than their sources: build a scratch copy of the tree outside /repo and /verif (removed at exit)
    so that the replay runs the code the obligations were generated from."""
    import atexit
    import shutil
    if tree in _SCRATCH:
        return _SCRATCH[tree]
    base = os.environ.get('TMPDIR', '/var/tmp')
    dst = tempfile.mkdtemp(prefix='verif_replay_build_', dir=base)
    if not _SCRATCH:
        atexit.register(_cleanup)
    _SCRATCH[tree] = dst
    # start from the real build outputs of /repo (same commit family) so that only stale modules are recompiled
    subprocess.run(['rsync', '-a', '--exclude', '.git', '/repo/', dst + '/'], check=False)
    if os.path.abspath(tree) != '/repo':
        subprocess.run(['rsync', '-a', '--exclude', '.git', '--exclude', '*.so', '--exclude', '*.c', tree.rstrip('/') + '/', dst + '/'],
                       check=False)
    p = subprocess.run(['/venv/bin/python', 'setup.py', 'build_ext', '-j16', '--inplace'], cwd=dst, capture_output=True, text=True)
    if p.returncode != 0:
        _SCRATCH[tree] = None
        shutil.rmtree(dst, ignore_errors=True)
        return None
    return dst


def run_native(ctx, code, timeout=300):
    tree = ctx.get('repo', '/repo')
    if stale_sources(tree) and not os.environ.get('VERIF_NO_SCRATCH_BUILD'):
        built = build_scratch(tree)
        if built:
            tree = built
    src = PRELUDE % tree + code
    fd, path = tempfile.mkstemp(suffix='.py', dir=os.environ.get('TMPDIR', '/var/tmp'))
    try:
        with os.fdopen(fd, 'w') as f:
            f.write(src)
        p = subprocess.run(['/verif/.venv/bin/python', path], capture_output=True, text=True, timeout=timeout,
                           env=dict(os.environ, PYTHONDONTWRITEBYTECODE='1'))
        lines = [l for l in p.stdout.splitlines() if l.startswith('{')]
        if not lines:
            return {'error': (p.stderr or p.stdout)[-800:]}
        out = json.loads(lines[-1])
        st = stale_sources(tree)
        if st:
            out['warning_stale_binaries'] = [os.path.relpath(s, tree) for s in st[:5]]
        return out
    except Exception as e:
        return {'error': repr(e)}
    finally:
        try:
            os.unlink(path)
        except OSError:
            pass
