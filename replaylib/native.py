"""Run a snippet against the real compiled cherab of the tree under check (default /repo) in a fresh interpreter."""
import json
import os
import subprocess
import sys
import tempfile

PRELUDE = '''
import sys, types, json
tree = %r
m = types.ModuleType('cherab'); m.__path__ = [tree + '/cherab']; sys.modules['cherab'] = m
'''


def stale_sources(tree):
    """.pyx/.pxd files newer than the compiled module beside them (a native replay would not run the edited code)."""
    stale = []
    for root, _, files in os.walk(os.path.join(tree, 'cherab')):
        for f in files:
            if f.endswith('.pyx'):
                src = os.path.join(root, f)
                stem = f[:-4]
                sos = [x for x in files if x.startswith(stem + '.') and x.endswith('.so')]
                if not sos or os.path.getmtime(os.path.join(root, sos[0])) < os.path.getmtime(src):
                    stale.append(src)
                pxd = src[:-4] + '.pxd'
                if sos and os.path.exists(pxd) and os.path.getmtime(os.path.join(root, sos[0])) < os.path.getmtime(pxd):
                    stale.append(pxd)
    return stale


def run_native(ctx, code, timeout=300):
    tree = ctx.get('repo', '/repo')
    src = PRELUDE % tree + code
    fd, path = tempfile.mkstemp(suffix='.py', dir=os.environ.get('TMPDIR', '/var/tmp'))
    try:
        with os.fdopen(fd, 'w') as f:
            f.write(src)
        p = subprocess.run(['/verif/.venv/bin/python', path], capture_output=True, text=True, timeout=timeout,
                           env=dict(os.environ, PYTHONDONTWRITEBYTECODE='1'))
        lines = [l for l in p.stdout.splitlines() if l.startswith('{')]
        if not lines:
            return {'error': (p.stderr or p.stdout)[-800:]}
        out = json.loads(lines[-1])
        st = stale_sources(tree)
        if st:
            out['warning_stale_binaries'] = [os.path.relpath(s, tree) for s in st[:5]]
        return out
    except Exception as e:
        return {'error': repr(e)}
    finally:
        try:
            os.unlink(path)
        except OSError:
            pass
