import sys, types, json
from raysect.optical import World, translate, Vector3D
from raysect.primitive import Cylinder
from cherab.core import Plasma, Beam, Species, Maxwellian, elements, Line
from cherab.core.atomic import AtomicData, BeamStoppingRate
from cherab.core.math import Constant3D, ConstantVector3D
from cherab.core.model import SingleRayAttenuator, BeamCXLine
from cherab.tools.plasmas.slab import build_slab_plasma
from scipy.constants import electron_mass, atomic_mass

class _Stop(BeamStoppingRate):
    def evaluate(self, energy, density, temperature):
        return 1e-13
class Data(AtomicData):
    def beam_stopping_rate(self, beam_ion, plasma_ion, charge):
        return _Stop()
world = World()
plasma = build_slab_plasma(peak_density=5e19, width=10, length=10, height=10, pedestal_top=2.0, parent=world); plasma.atomic_data = Data()
beam = Beam(parent=world, transform=translate(0.6, 0, -2))
beam.plasma = plasma; beam.atomic_data = Data(); beam.energy = 60000; beam.power = 1e6; beam.element = elements.deuterium
beam.sigma = 0.05; beam.divergence_x = 0.5; beam.divergence_y = 0.5; beam.length = 5.0
beam.attenuator = SingleRayAttenuator(clamp_to_zero=False)
from cherab.core.atomic import BeamCXPEC


class _CX(BeamCXPEC):
    def __init__(self):
        self.donor_metastable = 1

    def evaluate(self, *a):
        return 1e-14


class Data2(Data):
    def beam_cx_pec(self, donor_ion, receiver_ion, receiver_charge, transition):
        return [_CX()]

    def wavelength(self, ion, charge, transition):
        return 656.1


def _desc(g):
    if g is None:
        return None
    d = [type(g).__name__]
    for a in ('height', 'radius'):
        if hasattr(g, a):
            d.append(round(getattr(g, a), 9))
    for a in ('primitive_a', 'primitive_b'):
        if hasattr(g, a):
            d.append(_desc(getattr(g, a)))
    return d


def geom(b):
    return _desc(b.children[0] if b.children else None)


def attach_model():
    d = Data2()
    plasma.atomic_data = d
    beam.atomic_data = d
    beam.models = [BeamCXLine(Line(elements.deuterium, 0, (3, 2)))]
