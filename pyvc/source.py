"""Source tree access: every run re-reads the real files under the tree root (default /repo)
and extracts functions / classes by qualified name.  .py through `ast.parse`, .pyx/.pxd through
the Cython parser (front_cy).  Nothing is cached across processes."""
import ast
import glob
import hashlib
import os

from . import front_cy

RAYSECT_ROOT = '/venv/lib/python3.12/site-packages'


class ClassInfo:
    def __init__(self, name, file):
        self.name = name
        self.file = file            # defining file (relative to its root)
        self.root = None
        self.bases = []             # simple names
        self.attrs = {}             # attr -> (ctype, visibility)
        self.methods = {}           # name -> FunctionDef (with body if available)
        self.decl = {}              # name -> FunctionDef declaration from .pxd (kind / ret_ctype)
        self.properties = {}        # name -> {'get': FunctionDef, 'set': FunctionDef}
        self.class_consts = {}      # name -> ast expr (class-level simple assignments)
        self.cdef_class = False
        self.node = None

    def __repr__(self):
        return 'ClassInfo(%s @ %s)' % (self.name, self.file)


class SourceTree:
    def __init__(self, root='/repo'):
        self.root = os.path.abspath(root)
        self._modules = {}
        self._classes = None
        self.files_read = {}        # relpath -> sha1 (for evidence)

    # ---- files
    def abspath(self, rel):
        if os.path.isabs(rel):
            return rel
        return os.path.join(self.root, rel)

    def module(self, rel):
        """Parsed module (ast.Module with .imports) of file `rel` (relative to root, or absolute)."""
        path = self.abspath(rel)
        if path in self._modules:
            return self._modules[path]
        with open(path, 'rb') as f:
            data = f.read()
        self.files_read[os.path.relpath(path, self.root) if path.startswith(self.root) else path] = hashlib.sha1(data).hexdigest()
        if path.endswith('.py'):
            mod = ast.parse(data.decode('utf8'), filename=path)
            mod.imports = _py_imports(mod)
            for n in ast.walk(mod):
                if isinstance(n, ast.FunctionDef):
                    n.kind = 'def'
                    n.flags = {}
                    n.ret_ctype = None
                    n.unsupported = None
        else:
            root = self.root if path.startswith(self.root + '/') else RAYSECT_ROOT
            mod = front_cy.load_cython(path, root, pxd=path.endswith('.pxd'))
        mod.path = path
        self._modules[path] = mod
        return mod

    def find_func(self, rel, qualname):
        """FunctionDef for `qualname` ('func' or 'Class.method' or 'Class.prop.setter') in file rel."""
        mod = self.module(rel)
        parts = qualname.split('.')
        body = mod.body
        node = None
        i = 0
        while i < len(parts):
            p = parts[i]
            found = None
            # property accessors: Class.attr.setter / Class.attr.getter
            if i + 1 < len(parts) and parts[i + 1] in ('setter', 'getter') and i + 2 == len(parts):
                want = parts[i + 1]
                for n in body:
                    if isinstance(n, ast.FunctionDef):
                        kinds = [ast.unparse(d) for d in n.decorator_list]
                        if want == 'getter' and n.name == p and 'property' in kinds:
                            found = n
                        if want == 'setter' and ('%s.setter' % p) in kinds:
                            found = n
                if found is None:
                    raise KeyError('%s: no %s in %s' % (rel, qualname, rel))
                return found
            for n in body:
                if isinstance(n, (ast.FunctionDef, ast.ClassDef)) and n.name == p:
                    # for plain name prefer non-property-setter definitions last wins like Python
                    found = n
            if found is None:
                raise KeyError('%s: no %s' % (rel, qualname))
            node = found
            body = getattr(found, 'body', [])
            i += 1
        return node

    def def_consts(self, rel):
        """Cython compile-time `DEF NAME = literal` constants of a file (the parser substitutes them in the code;
        contracts may refer to them by name)."""
        import re
        path = self.abspath(rel)
        out = {}
        if not path.endswith('.py'):
            try:
                with open(path, encoding='utf8') as f:
                    for line in f:
                        m = re.match(r'^DEF\s+(\w+)\s*=\s*(.+?)\s*(#.*)?$', line)
                        if m:
                            try:
                                out[m.group(1)] = ast.literal_eval(m.group(2))
                            except Exception:
                                pass
            except OSError:
                pass
        return out

    def module_consts(self, rel):
        """Module-level simple assignments name -> ast expr (incl. cdef typed initialisers)."""
        mod = self.module(rel)
        out = {}
        for n in mod.body:
            if isinstance(n, ast.Assign) and len(n.targets) == 1 and isinstance(n.targets[0], ast.Name):
                out[n.targets[0].id] = n.value
            elif isinstance(n, ast.AnnAssign) and isinstance(n.target, ast.Name) and n.value is not None:
                out[n.target.id] = n.value
        # names updated again at module level (X *= ...) have no single defining expression: opaque symbol
        for n in mod.body:
            if isinstance(n, ast.AugAssign) and isinstance(n.target, ast.Name) and n.target.id in out:
                out[n.target.id] = ast.Call(func=ast.Name(id='__opaque__', ctx=ast.Load()), args=[], keywords=[])
        return out

    def eval_const(self, rel, name, _depth=0):
        """Concrete (Python float) value of a module-level numeric constant, obtained by interpreting the module's own
        initialiser statements in order (closed arithmetic over literals, math functions and imported constants)."""
        import math
        if _depth > 12:
            raise ValueError('constant resolution too deep')
        mod = self.module(rel)
        env = {}
        imports = getattr(mod, 'imports', {})
        defs = self.def_consts(rel)

        def lookup(nm):
            if nm in env:
                return env[nm]
            if nm in defs:
                return defs[nm]
            mc = {'M_PI': math.pi, 'pi': math.pi, 'M_SQRT2': math.sqrt(2.0), 'M_E': math.e, 'M_1_PI': 1 / math.pi,
                  'M_LN2': math.log(2.0)}
            if nm in imports:
                origin = imports[nm]
                short = origin.split('.')[-1]
                if origin.startswith('libc.math.') or origin.startswith('math.') or origin.startswith('numpy.'):
                    if short in mc:
                        return mc[short]
                    if hasattr(math, short):
                        return getattr(math, short)
                modpath = origin.rsplit('.', 1)[0]
                for root in (self.root, RAYSECT_ROOT):
                    for ext in ('.pyx', '.py', '/__init__.py'):
                        p = os.path.join(root, modpath.replace('.', '/') + ext)
                        if os.path.exists(p):
                            try:
                                return self.eval_const(p, short, _depth + 1)
                            except KeyError:
                                sub = getattr(self.module(p), 'imports', {})
                                if short in sub:
                                    sp = sub[short].rsplit('.', 1)[0]
                                    for root2 in (self.root, RAYSECT_ROOT):
                                        for ext2 in ('.pyx', '.py'):
                                            p2 = os.path.join(root2, sp.replace('.', '/') + ext2)
                                            if os.path.exists(p2):
                                                return self.eval_const(p2, short, _depth + 1)
            if nm in mc:
                return mc[nm]
            if hasattr(math, nm):
                return getattr(math, nm)
            raise KeyError(nm)

        def ev(e):
            if isinstance(e, ast.Constant) and isinstance(e.value, (int, float)):
                return e.value
            if isinstance(e, ast.Name):
                return lookup(e.id)
            if isinstance(e, ast.Attribute) and isinstance(e.value, ast.Name) and e.value.id in ('np', 'math', 'numpy'):
                return lookup(e.attr)
            if isinstance(e, ast.BinOp):
                a, b = ev(e.left), ev(e.right)
                t = type(e.op)
                if t is ast.Add:
                    return a + b
                if t is ast.Sub:
                    return a - b
                if t is ast.Mult:
                    return a * b
                if t is ast.Div:
                    return a / b
                if t is ast.Pow:
                    return a ** b
            if isinstance(e, ast.UnaryOp) and isinstance(e.op, ast.USub):
                return -ev(e.operand)
            if isinstance(e, ast.Call):
                f = ev(e.func)
                if callable(f):
                    return f(*[ev(a) for a in e.args])
            raise ValueError('not closed arithmetic: %s' % ast.dump(e)[:80])
        found = False
        for n in mod.body:
            if isinstance(n, ast.Assign) and len(n.targets) == 1 and isinstance(n.targets[0], ast.Name):
                tgt, val = n.targets[0].id, n.value
            elif isinstance(n, ast.AnnAssign) and isinstance(n.target, ast.Name) and n.value is not None:
                tgt, val = n.target.id, n.value
            elif isinstance(n, ast.AugAssign) and isinstance(n.target, ast.Name):
                if n.target.id == name:
                    env[name] = ev(ast.BinOp(left=ast.Name(id=name, ctx=ast.Load()), op=n.op, right=n.value))
                continue
            else:
                continue
            if tgt == name:
                env[name] = ev(val)
                found = True
        if not found:
            raise KeyError(name)
        return env[name]

    # ---- class index
    def classes(self):
        if self._classes is None:
            self._build_index()
        return self._classes

    def _build_index(self):
        self._classes = {}
        roots = [(self.root, 'cherab'), (RAYSECT_ROOT, 'raysect')]
        for root, pkg in roots:
            base = os.path.join(root, pkg)
            files = []
            for ext in ('pxd', 'pyx', 'py'):
                files += glob.glob(os.path.join(base, '**', '*.' + ext), recursive=True)
            # cheap text prefilter: only index files lazily by class name -> file
            for f in files:
                if '/tests/' in f or '/demos/' in f:
                    continue
                try:
                    with open(f, 'r', encoding='utf8', errors='replace') as fh:
                        txt = fh.read()
                except OSError:
                    continue
                for line in txt.splitlines():
                    s = line.strip()
                    if s.startswith('cdef class ') or s.startswith('class ') or s.startswith('cpdef class '):
                        name = s.split('class ', 1)[1]
                        for ch in '(:':
                            name = name.split(ch)[0]
                        name = name.strip()
                        if name:
                            self._classes.setdefault(name, {'files': [], 'info': None})['files'].append(f)

    def class_info(self, name):
        """Merged ClassInfo (pxd attrs + pyx/py methods) for simple class name, or None."""
        idx = self.classes()
        ent = idx.get(name)
        if ent is None:
            return None
        pref = getattr(self, 'prefer_stem', None)
        if pref is not None and any(f.rsplit('.', 1)[0] == pref for f in ent['files']):
            # the file under verification defines a class of this name: it wins over same-named classes elsewhere
            cache = ent.setdefault('by_stem', {})
            if pref not in cache:
                info = ClassInfo(name, os.path.relpath(pref, self.root))
                for f in sorted([f for f in ent['files'] if f.rsplit('.', 1)[0] == pref], key=lambda x: (not x.endswith('.pxd'), x)):
                    for n in self.module(f).body:
                        if isinstance(n, ast.ClassDef) and n.name == name:
                            self._merge_class(info, n, f)
                cache[pref] = info
            return cache[pref]
        if ent['info'] is not None:
            return ent['info']
        files = ent['files']
        # prefer tree root (cherab) over raysect when both define the name
        mine = [f for f in files if f.startswith(self.root + '/')]
        use = mine if mine else files
        # if several unrelated modules define the same name keep the pair sharing a stem with a .pxd
        stems = {}
        for f in use:
            stems.setdefault(f.rsplit('.', 1)[0], []).append(f)
        stem = sorted(stems, key=lambda s: (-len(stems[s]), s))[0]
        info = ClassInfo(name, os.path.relpath(stem, self.root) if stem.startswith(self.root) else stem)
        for f in sorted(stems[stem], key=lambda x: (not x.endswith('.pxd'), x)):
            try:
                mod = self.module(f)
            except Exception:
                continue
            for n in mod.body:
                if isinstance(n, ast.ClassDef) and n.name == name:
                    self._merge_class(info, n, f)
        ent['info'] = info
        return info

    def _merge_class(self, info, node, f):
        if not info.bases:
            try:
                imps = getattr(self.module(f), 'imports', {})
            except Exception:
                imps = {}
            bases = []
            for b in node.bases:
                nm = ast.unparse(b).split('.')[-1]
                org = imps.get(nm)
                if isinstance(org, str) and org.split('.')[-1] != nm:
                    nm = org.split('.')[-1]          # class imported under an alias (e.g. BeamCXPEC as CoreBeamCXPEC)
                bases.append(nm)
            info.bases = bases
        info.cdef_class = info.cdef_class or getattr(node, 'cdef_class', False)
        if not f.endswith('.pxd'):
            info.node = node
            info.file = os.path.relpath(f, self.root) if f.startswith(self.root) else f
        for n in node.body:
            if isinstance(n, ast.AnnAssign) and getattr(n, 'cdef', False):
                info.attrs[n.target.id] = (n.annotation.value, getattr(n, 'visibility', 'private'))
            elif isinstance(n, ast.Assign) and len(n.targets) == 1 and isinstance(n.targets[0], ast.Name):
                info.class_consts[n.targets[0].id] = n.value
            elif isinstance(n, ast.FunctionDef):
                if getattr(n, 'declaration_only', False):
                    info.decl[n.name] = n
                    continue
                decs = [ast.unparse(d) for d in n.decorator_list]
                if 'property' in decs:
                    info.properties.setdefault(n.name, {})['get'] = n
                elif any(d.endswith('.setter') for d in decs):
                    pname = [d for d in decs if d.endswith('.setter')][0][:-7]
                    info.properties.setdefault(pname, {})['set'] = n
                    n.setter_for = pname
                else:
                    info.methods[n.name] = n

    def mro(self, name):
        out = []
        seen = set()

        def rec(nm):
            if nm in seen:
                return
            seen.add(nm)
            out.append(nm)
            ci = self.class_info(nm)
            if ci is not None:
                for b in ci.bases:
                    rec(b)
        rec(name)
        return out

    def lookup_method(self, cls, meth):
        """(ClassInfo, FunctionDef) for method `meth` looked up along the MRO of class `cls`."""
        for nm in self.mro(cls):
            ci = self.class_info(nm)
            if ci is None:
                continue
            if meth in ci.methods:
                return ci, ci.methods[meth]
        return None, None

    def lookup_property(self, cls, attr):
        for nm in self.mro(cls):
            ci = self.class_info(nm)
            if ci is None:
                continue
            if attr in ci.properties:
                return ci, ci.properties[attr]
        return None, None

    def attr_ctype(self, cls, attr):
        for nm in self.mro(cls):
            ci = self.class_info(nm)
            if ci is None:
                continue
            if attr in ci.attrs:
                return ci.attrs[attr][0]
        return None

    def is_subclass(self, cls, base):
        return base in self.mro(cls)


def _py_imports(mod):
    imports = {}
    for n in mod.body:
        if isinstance(n, ast.Import):
            for a in n.names:
                imports[a.asname or a.name.split('.')[0]] = a.name if a.asname else a.name.split('.')[0]
        elif isinstance(n, ast.ImportFrom):
            for a in n.names:
                imports[a.asname or a.name] = '%s%s.%s' % ('.' * n.level, n.module or '', a.name)
    return imports
