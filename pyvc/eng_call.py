"""Calls: builtins, math functions, externals (assumed contracts), modular use of contracts, inlining."""
import ast
import builtins as _bi
import z3

from .values import (Ref, NONE, Obj, Unsupported, FuncVal, BoundMethod, ClassVal, ModuleVal, Builtin, SuperVal, Event,
                     SORTS, spec_from_ctype, sortkey, coerce, is_z3, is_real, is_int, is_bool, is_str, is_ref, is_fp,
                     to_real, to_int, to_ref, to_str, to_bool_term, num_args, real_const, concrete)
from .eng_core import State, Frame
from .values import SymDict, alloc0

R = z3.RealSort()
UF1 = {n: z3.Function('m_' + n, R, R) for n in ('sqrt', 'exp', 'log', 'log10', 'sin', 'cos', 'tan', 'erf', 'asin', 'acos',
                                          'atan', 'sinh', 'cosh', 'tanh', 'gamma', 'cbrt')}
UF2 = {n: z3.Function('m_' + n, R, R, R) for n in ('atan2', 'fmod', 'hypot', 'copysign')}


class RangeVal:
    def __init__(self, lo, hi, step=1):
        self.lo, self.hi, self.step = lo, hi, step


class ExcVal:
    def __init__(self, name, args=()):
        self.name = name
        self.args = args

    def __repr__(self):
        return 'ExcVal(%s)' % self.name


class ZipVal:
    def __init__(self, seqs):
        self.seqs = seqs


class EnumVal:
    def __init__(self, seq, start=0):
        self.seq = seq
        self.start = start


class Catching:
    def __init__(self, names, tree):
        self.names = names
        self.tree = tree

    def __contains__(self, exc):
        for n in self.names:
            if n == exc:
                return True
            a, b = getattr(_bi, exc, None), getattr(_bi, n, None)
            if isinstance(a, type) and isinstance(b, type) and issubclass(a, b):
                return True
        return False


class CallMixin:
    # ------------------------------------------------------------------ exceptions inside expressions
    def catching(self, fr):
        names = []
        for hs in fr.try_depth:
            names.extend(hs)
        c = fr.contract if fr.depth == 0 else None
        root = self.contract
        if fr.depth == 0 or True:
            names.extend(root.raises.keys())
            names.extend(root.raises_any)
        return Catching(names, self.tree)

    def register_exc(self, st, cond, excname):
        if isinstance(cond, bool):
            cond = z3.BoolVal(cond)
        g = z3.And(*st.guards, cond) if st.guards else cond
        st.pending.append((g, excname, list(st.pc) + [g], dict(st.heap), list(st.log)))
        st.pc.append(z3.Not(g))

    def flag(self, name, default=None):
        return self.contract.flags.get(name, default)

    # ------------------------------------------------------------------ call expression
    def ev_Call(self, node, st, fr):
        spec = getattr(fr, 'spec', None)
        if isinstance(node.func, ast.Name):
            nm = node.func.id
            if spec is not None:
                r = self.spec_call(nm, node, st, fr)
                if r is not NotImplemented:
                    return r
            if nm == 'super' :
                selfv = st.locals.get('self')
                return SuperVal(selfv, fr.cls)
        if isinstance(node.func, ast.Attribute):
            base = self.ev(node.func.value, st, fr)
            args, kwargs = self.eval_args(node, st, fr)
            return self.call_method(base, node.func.attr, args, kwargs, st, fr, node)
        f = self.ev(node.func, st, fr)
        args, kwargs = self.eval_args(node, st, fr)
        return self.call_value(f, args, kwargs, st, fr, node)

    def eval_args(self, node, st, fr):
        args = []
        for a in node.args:
            if isinstance(a, ast.Starred):
                v = self.ev(a.value, st, fr)
                if isinstance(v, (tuple, list)):
                    args.extend(v)
                else:
                    args.append(('*', v))
            elif isinstance(a, ast.GeneratorExp):
                args.append(self.ev_ListComp(a, st, fr))
            else:
                args.append(self.ev(a, st, fr))
        kwargs = {}
        for k in node.keywords:
            if k.arg is None:
                v = self.ev(k.value, st, fr)
                if isinstance(v, dict):
                    kwargs.update(v)
                else:
                    kwargs['**'] = v
            else:
                kwargs[k.arg] = self.ev(k.value, st, fr)
        return args, kwargs

    def call_value(self, f, args, kwargs, st, fr, node):
        if isinstance(f, Builtin):
            return self.call_builtin(f.name, args, kwargs, st, fr, node)
        if isinstance(f, FuncVal):
            return self.call_function(f, args, kwargs, st, fr, node)
        if isinstance(f, ClassVal):
            return self.instantiate(f.name, args, kwargs, st, fr, node)
        if isinstance(f, BoundMethod):
            return self.call_method(f.obj, f.name, args, kwargs, st, fr, node)
        if isinstance(f, Obj):
            # calling a function object (Function1D/2D/3D ...): __call__ / external
            return self.call_method(f, '__call__', args, kwargs, st, fr, node)
        raise Unsupported('call of %r' % (f,))

    # ------------------------------------------------------------------ methods
    def call_method(self, base, name, args, kwargs, st, fr, node):
        if isinstance(base, SuperVal):
            mro = self.tree.mro(base.obj.cls if isinstance(base.obj, Obj) and base.obj.cls else base.after_cls)
            start = mro.index(base.after_cls) + 1 if base.after_cls in mro else 0
            for nm in mro[start:]:
                ci = self.tree.class_info(nm)
                if ci is not None and name in ci.methods:
                    fv = FuncVal(ci.file, ci.name + '.' + name, ci.methods[name], cls=ci.name)
                    return self.call_function(fv, [base.obj] + list(args), kwargs, st, fr, node)
            return self.call_external(['%s.%s' % (mro[start] if start < len(mro) else '?', name), 'super.' + name],
                                      base.obj, name, args, kwargs, st, fr, node)
        if isinstance(base, Obj):
            if base.cls:
                ci, meth = self.tree.lookup_method(base.cls, name)
                if meth is not None and not getattr(meth, 'declaration_only', False):
                    ext = self.external_spec(['%s.%s' % (nm, name) for nm in self.tree.mro(base.cls)], fr)
                    if ext is not None and ext.get('override') and ext.get('result') == 'auto':
                        decl = None
                        for nm in self.tree.mro(base.cls):
                            cinfo = self.tree.class_info(nm)
                            if cinfo is not None and name in cinfo.decl:
                                decl = cinfo.decl[name]
                                break
                        ct = getattr(decl, 'ret_ctype', None) or getattr(meth, 'ret_ctype', None)
                        ext = dict(ext, result=spec_from_ctype(ct) or 'ref')
                        return self.apply_external(ext, '%s.%s' % (ci.name, name), base, args, kwargs, st, fr, node)
                    if ext is None or not ext.get('override'):
                        fv = FuncVal(ci.file, ci.name + '.' + name, meth, cls=ci.name)
                        return self.call_function(fv, [base] + list(args), kwargs, st, fr, node, dyn_cls=base.cls)
            if base.kind == 'seq' and name in ('index', 'count'):
                raise Unsupported('sequence method %s' % name)
            if base.kind == 'seq' and name == 'append' and (base.cls == 'list' or self.contract.attrs.get(getattr(node.func, 'attr', None) and
                                                                                             getattr(node.func.value, 'attr', '')) == 'seq:ref'
                                                          or base.cls in ('sequence', None)):
                n = self.arr_len(st, base)
                item = args[0]
                if isinstance(item, (tuple, list)):
                    item = self.box_for_store(item, st, 'ref')      # a Python tuple / list stored in a heap list becomes a sequence object
                self.arr_write(st, base, [n], item)
                st.heap['$len'] = z3.Store(self.field(st, '$len'), base.ref, n + 1)
                return None
            labels = []
            if base.cls:
                for nm in self.tree.mro(base.cls):
                    labels.append('%s.%s' % (nm, name))
            labels.append('.' + name)
            if self.external_spec(labels, fr) is None:
                # not a method: an attribute holding a callable object
                has_attr = base.cls is None or self.tree.attr_ctype(base.cls, name) is not None or \
                    name in self.contract.attrs or name in self.global_attrs
                if has_attr:
                    val = self.getattr_value(base, name, st, fr)
                    return self.call_value(val, args, kwargs, st, fr, node)
            return self.call_external(labels, base, name, args, kwargs, st, fr, node)
        if isinstance(base, ModuleVal):
            return self.call_builtin(name if base.name in ('numpy', 'np', 'math', 'libc.math') else base.name + '.' + name,
                                     args, kwargs, st, fr, node)
        if isinstance(base, ClassVal):
            ci, meth = self.tree.lookup_method(base.name, name)
            if meth is not None:
                fv = FuncVal(ci.file, ci.name + '.' + name, meth, cls=ci.name)
                decs = [ast.unparse(d) for d in meth.decorator_list]
                if 'classmethod' in decs:
                    return self.call_function(fv, [base] + list(args), kwargs, st, fr, node)
                return self.call_function(fv, list(args), kwargs, st, fr, node)
            return self.call_external(['%s.%s' % (base.name, name)], None, name, args, kwargs, st, fr, node)
        if isinstance(base, list):
            if name == 'append':
                base.append(args[0])     # local list literal: in-place (aliasing of local lists is by identity here)
                return None
            if name == 'extend' and isinstance(args[0], (list, tuple)):
                base.extend(args[0])
                return None
        if isinstance(base, SymDict):
            if name == 'freeze':
                def fz(d):
                    return SymDict([(k, fz(v) if isinstance(v, SymDict) else v) for k, v in d.items])
                return fz(base)
            if name == 'items':
                return [(k, v) for k, v in base.items]
        if isinstance(base, dict):
            if name == 'items':
                return [(k, v) for k, v in base.items()]
            if name == 'keys':
                return list(base.keys())
            if name == 'values':
                return list(base.values())
            if name == 'get':
                kc = concrete(args[0])
                return base.get(kc, args[1] if len(args) > 1 else None)
        if isinstance(base, str):
            if name == 'format':
                return self.format_string(base, args, kwargs)
            if name == 'lower':
                return base.lower()
            if name == 'upper':
                return base.upper()
        if is_str(base):
            if name in ('lower', 'upper', 'strip'):
                f = z3.Function('str_' + name, z3.StringSort(), z3.StringSort())
                return f(base)
            if name == 'format':
                return self.fresh('fmt', 'str')
        raise Unsupported('method %s on %r' % (name, base))

    def format_string(self, template, args, kwargs):
        """str.format for templates with plain {} / {n} placeholders and string / integer arguments: exact concatenation."""
        import re
        parts = re.split(r'(\{\d*\})', template)
        if kwargs or any('{' in p and not re.fullmatch(r'\{\d*\}', p) for p in parts):
            return self.fresh('fmt', 'str')
        out = []
        auto = 0
        for p in parts:
            if re.fullmatch(r'\{\d*\}', p):
                idx = int(p[1:-1]) if len(p) > 2 else auto
                auto += 1
                if idx >= len(args):
                    return self.fresh('fmt', 'str')
                a = args[idx]
                if isinstance(a, str) or is_str(a):
                    out.append(to_str(a))
                elif isinstance(a, int) and not isinstance(a, bool):
                    out.append(z3.StringVal(str(a)))
                elif is_int(a):
                    out.append(z3.Function('str_of_int', z3.IntSort(), z3.StringSort())(a))
                else:
                    return self.fresh('fmt', 'str')
            elif p:
                out.append(z3.StringVal(p))
        if not out:
            return ''
        if all(z3.is_string_value(x) for x in out):
            return ''.join(x.as_string() for x in out)
        return z3.Concat(*out) if len(out) > 1 else out[0]

    def call_property_get(self, base, ci, getter, attr, st, fr):
        fv = FuncVal(ci.file, '%s.%s.getter' % (ci.name, attr), getter, cls=ci.name)
        return self.call_function(fv, [base], {}, st, fr, None, dyn_cls=base.cls)

    # ------------------------------------------------------------------ repo functions
    def call_function(self, fv, args, kwargs, st, fr, node, dyn_cls=None):
        if getattr(fv.node, 'unsupported', None):
            raise Unsupported('callee %s: %s' % (fv.qualname, fv.node.unsupported))
        root = self.contract
        simple = fv.qualname.split('.')[-1]
        inline_req = fv.qualname in root.inline or simple in root.inline or '*' in root.inline
        c = None
        if not inline_req:
            c = self.registry.lookup(fv.file, fv.qualname)
            if c is not None and c is self.contract and fr.depth == 0 and False:
                c = None
        ext = self.external_spec([fv.qualname, simple], fr)
        if ext is not None and not inline_req and c is None:
            recv = args[0] if fv.cls and args else None
            return self.apply_external(ext, fv.qualname, recv, args[1:] if fv.cls else args, kwargs, st, fr, node)
        if c is not None:
            return self.apply_contract(c, fv, args, kwargs, st, fr, node)
        if fr.depth >= self.max_inline_depth:
            raise Unsupported('inline depth exceeded at %s' % fv.qualname)
        if not (inline_req or self.flag('auto_inline', True)):
            raise Unsupported('call to %s without contract' % fv.qualname)
        memo = self.wrapping_decorators(fv)
        res = self.inline_call(fv, args, kwargs, st, fr, node, dyn_cls)
        if memo:
            res = self.memoised_result(fv, res, args, kwargs, st)
        return res

    TRANSPARENT_DECORATORS = ('staticmethod', 'classmethod', 'property', 'abstractmethod', 'cython.')

    def wrapping_decorators(self, fv):
        """Decorators change what a call does; the body alone is not the callee.  Transparent ones (cython directives, staticmethod, ...) are
        ignored; memoising ones (lru_cache, cache) are modelled (see memoised_result); anything else leaves the verifiable subset."""
        memo = False
        for d in getattr(fv.node, 'decorator_list', None) or []:
            txt = ast.unparse(d)
            head = txt.split('(')[0]
            if head.startswith(self.TRANSPARENT_DECORATORS) or head.endswith(('.setter', '.getter', '.deleter')) or head.split('.')[-1] in ('staticmethod', 'classmethod', 'property'):
                continue
            if head.split('.')[-1] in ('lru_cache', 'cache', 'cached', 'memoize', 'memoized'):
                memo = True
                continue
            raise Unsupported('callee %s is wrapped by the decorator @%s, whose effect is not modelled' % (fv.qualname, txt[:60]))
        return memo

    def memoised_result(self, fv, res, args, kwargs, st):
        """@lru_cache / @cache: equal arguments give THE SAME result object on every call, shared by all callers - the result is not a freshly
        allocated object.  Model: the object is a pure function MEMO_f(args), allocated before this call (alloc0), with the length / contents the
        body computed.  Scalars are returned as they are (sharing an immutable value is unobservable)."""
        if not isinstance(res, Obj):
            if isinstance(res, (tuple, list, dict)):
                raise Unsupported('memoised callee %s returns a container' % fv.qualname)
            return res
        if res.kind != 'arr' or res.view is not None:
            raise Unsupported('memoised callee %s returns an object that is not a plain array' % fv.qualname)
        terms = []
        for v in list(args) + [kwargs[k] for k in sorted(kwargs)]:
            if isinstance(v, Obj) or v is None:
                terms.append(to_ref(v))
            elif isinstance(v, bool) or is_bool(v):
                terms.append(to_bool_term(v))
            elif isinstance(v, str) or is_str(v):
                terms.append(to_str(v))
            elif isinstance(v, (tuple, list, dict)):
                raise Unsupported('memoised callee %s called with a container argument' % fv.qualname)
            else:
                terms.append(to_real(v))
        f = z3.Function('MEMO_%s_%d' % (fv.qualname.replace('.', '_'), len(terms)), *[t.sort() for t in terms], Ref)
        m = f(*terms) if terms else z3.Const('MEMO_%s' % fv.qualname.replace('.', '_'), Ref)
        st.pc.append(alloc0(m))
        st.pc.append(m != NONE)
        for fid in (['$len'] if res.ndim == 1 else ['$n%d' % k for k in range(res.ndim)]) + [self.arr_fid(res)]:
            h = self.field(st, fid)
            st.heap[fid] = z3.Store(h, m, z3.Select(h, res.ref))
        self.assumptions.add('memoised callee %s: one shared result object per argument tuple (functools cache semantics)' % fv.qualname)
        return Obj(m, res.cls, res.kind, res.elem, res.ndim)

    def bind_params(self, fnode, args, kwargs, st, frame, cls=None):
        a = fnode.args
        params = a.posonlyargs + a.args
        env = {}
        args = list(args)
        if any(isinstance(x, tuple) and len(x) == 2 and isinstance(x[0], str) and x[0] == '*' for x in args):
            raise Unsupported('call with symbolic *args')
        npos = len(params)
        if len(args) > npos and a.vararg is None:
            raise Unsupported('too many positional arguments for %s' % fnode.name)
        for p, v in zip(params, args):
            env[p.arg] = v
        if a.vararg is not None:
            env[a.vararg.arg] = tuple(args[npos:])
        defaults = a.defaults
        first_default = npos - len(defaults)
        kw = dict(kwargs)
        for i, p in enumerate(params):
            if p.arg in env:
                continue
            if p.arg in kw:
                env[p.arg] = kw.pop(p.arg)
            elif i >= first_default:
                env[p.arg] = self.ev(defaults[i - first_default], State(), frame)
            else:
                raise Unsupported('missing argument %s for %s' % (p.arg, fnode.name))
        for p, d in zip(a.kwonlyargs, a.kw_defaults):
            if p.arg in kw:
                env[p.arg] = kw.pop(p.arg)
            elif d is not None:
                env[p.arg] = self.ev(d, State(), frame)
            else:
                raise Unsupported('missing keyword argument %s' % p.arg)
        if a.kwarg is not None:
            env[a.kwarg.arg] = kw
        elif kw:
            raise Unsupported('unexpected keyword arguments %s for %s' % (sorted(kw), fnode.name))
        # coerce to declared C types
        for p in params + a.kwonlyargs:
            ct = frame.ctypes.get(p.arg)
            if ct:
                env[p.arg] = self.coerce_ctype(env[p.arg], ct)
        return env

    def coerce_ctype(self, v, ct):
        spec = spec_from_ctype(ct)
        if spec is None:
            return v
        key = sortkey(spec)
        if key == 'real' and not isinstance(v, Obj) and v is not None:
            if is_fp(v):
                return v
            return to_real(v)
        if key == 'int' and not isinstance(v, Obj) and v is not None:
            if is_real(v):
                return z3.If(v >= 0, z3.ToInt(v), -z3.ToInt(-v))
            return to_int(v)
        if key == 'bool' and not isinstance(v, Obj) and v is not None:
            if isinstance(v, bool) or is_bool(v):
                return v
            return to_int(v) != 0 if not is_real(v) else v != 0
        if key == 'ref' and isinstance(v, Obj) and v.cls is None and spec.startswith('ref:'):
            return Obj(v.ref, spec.split(':')[1], v.kind, v.elem, v.ndim)
        if spec.startswith('arr:') and isinstance(v, Obj) and v.kind != 'arr':
            parts = spec.split(':')
            return Obj(v.ref, 'ndarray', 'arr', parts[1], int(parts[2]))
        return v

    def inline_call(self, fv, args, kwargs, st, fr, node, dyn_cls=None):
        """Execute the callee's real body in place.  Several normal exits are merged by if-then-else."""
        cls = fv.cls
        frame = Frame(fv.node, fv.file, cls, fr.contract, fr.depth + 1)
        frame.spec = None
        frame.try_depth = list(fr.try_depth)
        env = self.bind_params(fv.node, args, kwargs, st, frame, cls)
        if cls and 'self' in env and isinstance(env['self'], Obj) and env['self'].cls is None:
            env['self'] = Obj(env['self'].ref, dyn_cls or cls)
        sub = st.copy()
        sub.locals = env
        sub.pending = []
        base_len = len(st.pc)
        base_log = len(st.log)
        outs = self.exec_block(fv.node.body, sub, frame)
        normal = []
        raise_conds = []
        for kind, s, val in outs:
            if kind == 'raise':
                cond = z3.And(*s.pc[base_len:]) if len(s.pc) > base_len else z3.BoolVal(True)
                g = z3.And(*st.guards, cond) if st.guards else cond
                st.pending.append((g, val.name, list(s.pc) + list(st.guards), dict(s.heap), list(s.log)))
                raise_conds.append(g)
            elif kind in ('normal', 'return'):
                normal.append((s, val if kind == 'return' else None))
            else:
                raise Unsupported('break/continue escaping function %s' % fv.qualname)
        if not normal:
            # the callee always raises on this path
            st.pc.append(z3.BoolVal(False))
            return None
        if len(normal) == 1:
            s, val = normal[0]
            st.pc[:] = s.pc          # in place: callers may hold references to these containers
            st.ctrl[:] = s.ctrl
            st.log[:] = s.log
            h = dict(s.heap)
            st.heap.clear()
            st.heap.update(h)
            st.ghost = s.ghost
            return self.ret_coerce(fv, val)
        # merge
        conds = [z3.And(*s.pc[base_len:]) if len(s.pc) > base_len else z3.BoolVal(True) for s, _ in normal]
        logs = [s.log[base_log:] for s, _ in normal]
        if any(len(l) for l in logs):
            raise Unsupported('cannot merge paths of %s with differing call logs (use a statement-level call)' % fv.qualname)
        st.pc.append(z3.Or(*conds))
        fields = set()
        for s, _ in normal:
            fields.update(s.heap.keys())
        for fid in fields:
            cur = None
            for (s, _), c in zip(reversed(normal), reversed(conds)):
                h = s.heap.get(fid)
                if h is None:
                    h = self.field(st, fid)
                cur = h if cur is None else z3.If(c, h, cur)
            st.heap[fid] = cur
        val = None
        first = True
        for (s, v), c in zip(reversed(normal), reversed(conds)):
            if first:
                val = v
                first = False
            else:
                val = self.ite_value(c, v, val)
        return self.ret_coerce(fv, val)

    def ret_coerce(self, fv, val):
        ct = getattr(fv.node, 'ret_ctype', None)
        if ct and val is not None:
            return self.coerce_ctype(val, ct)
        return val

    # ------------------------------------------------------------------ modular use of a contract
    def apply_contract(self, c, fv, args, kwargs, st, fr, node):
        frame = Frame(fv.node, fv.file, fv.cls, c, fr.depth + 1)
        env = self.bind_params(fv.node, args, kwargs, st, frame, fv.cls)
        for p, spec in c.sorts.items():
            if p in env and spec and not isinstance(env[p], Obj) and env[p] is not None and sortkey(spec) in ('real', 'int'):
                env[p] = coerce(env[p], sortkey(spec))
        if fv.cls and 'self' in env and isinstance(env['self'], Obj) and env['self'].cls is None:
            env['self'] = Obj(env['self'].ref, fv.cls)
        self.used_contracts.add(c.label)
        n = fr.call_site.get(id(node), 0) if node is not None and hasattr(fr, 'call_site') else 0
        pre = st.copy()
        frame.spec = {'bind': env, 'old': pre, 'old_env': env}
        for i, req in enumerate(c.requires):
            term = self.spec_term(req, st, frame)
            self.emit(st, 'pre(%s#%d).%d' % (fv.qualname, n, i), term, req)
        for exc, cond in c.raises.items():
            self.register_exc(st, self.spec_term(cond, st, frame), exc)
        for fid in (c.modifies or []):
            self.havoc_field(st, fid)
        result = None
        if c.result:
            result = self.sym_for_spec('res_' + fv.qualname.split('.')[-1], c.result)
        frame.spec = {'bind': dict(env, result=result), 'old': pre, 'old_env': env}
        for ens in c.ensures:
            text = ens[1] if isinstance(ens, tuple) else ens
            if not isinstance(text, str):
                continue
            st.pc.append(self.spec_term(text, st, frame))
        params = [p.arg for p in fv.node.args.posonlyargs + fv.node.args.args]
        recv = env.get('self') if fv.cls else None
        st.log.append(Event(fv.qualname, recv, [env[p] for p in params if p != 'self' or not fv.cls], {}, result))
        return result

    def havoc_field(self, st, fid):
        self.counter += 1
        st.heap[fid] = z3.Const('Hv_%s!%d' % (fid, self.counter), self.field_sort(fid))

    # ------------------------------------------------------------------ externals
    def external_spec(self, labels, fr):
        tables = [cc.externals for cc in (fr.contract, self.contract) if cc is not None] + [self.externals]
        for tab in tables:
            for l in labels:
                if l in tab:
                    return tab[l]
        for tab in tables:
            for l in labels:
                if '.' in l and not l.startswith('.'):
                    w = l.rsplit('.', 1)[0] + '.*'
                    if w in tab:
                        return dict(tab[w], label=tab[w].get('label', l))
        return None

    def call_external(self, labels, recv, name, args, kwargs, st, fr, node):
        ext = self.external_spec(labels, fr)
        if ext is None:
            raise Unsupported('call to %s has no contract and is not a listed external' % labels[0])
        return self.apply_external(ext, labels[0], recv, args, kwargs, st, fr, node)

    def apply_external(self, ext, label, recv, args, kwargs, st, fr, node):
        kind = ext.get('kind', 'pure')
        args = [a[1] if isinstance(a, tuple) and len(a) == 2 and isinstance(a[0], str) and a[0] == '*' else a for a in args]
        self.assumptions.add('external %s: %s' % (ext.get('label', label), ext.get('doc', kind)))
        def may_raise():
            for exc in ext.get('raises', []):
                if exc in self.catching(fr):
                    b = self.fresh('raises_%s' % exc, 'bool')
                    self.register_exc(st, b, exc)
        if kind != 'logged':
            may_raise()
        if kind == 'custom':
            return ext['fn'](self, st, fr, recv, args, kwargs)
        rspec = ext.get('result', 'real')
        if kind == 'pure':
            terms = []
            sorts = []
            allargs = ([recv] if recv is not None else []) + list(args) + [kwargs[k] for k in sorted(kwargs)]
            for v in allargs:
                if isinstance(v, (tuple, list)):
                    vs = list(v)
                else:
                    vs = [v]
                for x in vs:
                    if isinstance(x, Obj) or x is None:
                        terms.append(to_ref(x))
                    elif isinstance(x, bool) or is_bool(x):
                        terms.append(to_bool_term(x))
                    elif isinstance(x, str) or is_str(x):
                        terms.append(to_str(x))
                    elif isinstance(x, (ClassVal, FuncVal, Builtin, BoundMethod, ModuleVal)):
                        continue
                    elif isinstance(x, dict):
                        raise Unsupported('dict argument to pure external %s' % label)
                    else:
                        terms.append(to_real(x))
                sorts = [t.sort() for t in terms]
            fname = ext.get('fname', 'ext_' + label.lstrip('.').replace('.', '_'))
            key = sortkey(rspec)
            f = z3.Function(fname if ext.get('exact_name') else '%s_%d' % (fname, len(terms)), *sorts, SORTS[key])
            term = f(*terms) if terms else z3.Const(fname, SORTS[key])
            res = self.wrap(term, rspec)
            if isinstance(res, Obj):
                st.pc.append(alloc0(res.ref))       # the value of a pure function is not an object allocated by the caller
            if ext.get('nonnull') and isinstance(res, Obj):
                st.pc.append(res.ref != NONE)
            shape = ext.get('shape')
            if shape and isinstance(res, Obj):
                st.pc.append(res.ref != NONE)
                for ax, n in enumerate(shape):
                    ln = self.arr_len(st, res, ax)
                    st.pc.append(ln == n if n is not None else ln >= 0)
            for fact in ext.get('facts', []):
                self.add_fact((fname, term.get_id(), id(fact)), fact_fn(fact, term, terms))
            return res
        if kind in ('logged', 'fresh'):
            res = None
            if rspec is not None and rspec != 'none':
                if rspec == 'self':
                    res = recv
                elif rspec.startswith('arg'):
                    res = args[int(rspec[3:])]
                elif ext.get('alloc'):
                    parts = rspec.split(':')
                    res = self.sym_for_spec('r_' + label.lstrip('.').split('.')[-1], rspec)
                    o = self.new_obj(st, res.cls, res.kind, res.elem, res.ndim, name='r_' + label.lstrip('.').split('.')[-1])
                    res = o
                else:
                    res = self.sym_for_spec('r_' + label.lstrip('.').split('.')[-1], rspec)
            if kind == 'logged':
                ev = Event(ext.get('label', label.lstrip('.')), recv, args, kwargs, res)
                ev.heap = dict(st.heap)
                st.log.append(ev)
                may_raise()          # the call is in the log also on the path where it raises
            eff = ext.get('effect')
            if eff is not None:
                eff(self, st, fr, recv, args, kwargs, res)
            return res
        raise Unsupported('external kind %r' % kind)

    # ------------------------------------------------------------------ object construction
    def instantiate(self, cname, args, kwargs, st, fr, node):
        if hasattr(_bi, cname) and isinstance(getattr(_bi, cname), type) and issubclass(getattr(_bi, cname), BaseException):
            return ExcVal(cname, args)
        if cname == 'RecursiveDict' and not args:
            return SymDict(auto=True)
        ext = self.external_spec([cname + '()'], fr)
        if ext is not None:
            return self.apply_external(ext, cname + '()', None, args, kwargs, st, fr, node)
        ci = self.tree.class_info(cname)
        if ci is None:
            raise Unsupported('instantiation of unknown class %s' % cname)
        if any(self.tree.class_info(b) is None and b in ('Exception', 'ValueError', 'RuntimeError') for b in ci.bases):
            return ExcVal(cname, args)
        obj = self.new_obj(st, cname, name='new_' + cname)
        for init in ('__cinit__', '__init__'):
            ci2, meth = self.tree.lookup_method(cname, init)
            if meth is not None:
                # arity / keyword check against the extracted signature (a mismatch is a TypeError at run time)
                a = meth.args
                npar = len(a.posonlyargs) + len(a.args) - 1
                nreq = npar - len(a.defaults)
                names = [p.arg for p in (a.posonlyargs + a.args)[1:]]
                given = len(args) + len([k for k in kwargs if k in names])
                required_missing = [n_ for n_ in names[:nreq][len(args):] if n_ not in kwargs]
                if (len(args) > npar and a.vararg is None) or required_missing:
                    self.emit(st, 'defined.call(%s)' % cname, False,
                              'constructor %s.%s called with %d positional / %s keyword arguments; required %s' % (ci2.name, init, len(args), sorted(kwargs), names[:nreq]))
                    self.register_exc(st, z3.BoolVal(True), 'TypeError')
                    return obj
                if ci2.file.startswith('/') or self.flag('opaque_constructors'):
                    continue
                fv = FuncVal(ci2.file, ci2.name + '.' + init, meth, cls=ci2.name)
                self.call_function(fv, [obj] + list(args), kwargs, st, fr, node, dyn_cls=cname)
        return obj

    # ------------------------------------------------------------------ builtins and math
    def math_fn(self, name, args, st, fr):
        if any(is_fp(a) for a in args):
            return self.fp_math(name, args, st, fr)
        xs = [to_real(a) for a in args]
        if name in ('fabs', 'abs', 'absolute'):
            x = xs[0]
            return z3.If(x >= 0, x, -x)
        if name == 'floor':
            return z3.ToReal(z3.ToInt(xs[0]))
        if name == 'ceil':
            return -z3.ToReal(z3.ToInt(-xs[0]))
        if name == 'trunc':
            x = xs[0]
            return z3.If(x >= 0, z3.ToReal(z3.ToInt(x)), -z3.ToReal(z3.ToInt(-x)))
        if name == 'sqrt':
            s = UF1['sqrt'](xs[0])
            self.add_fact(('sqrt', xs[0].get_id()), z3.Implies(xs[0] >= 0, z3.And(s * s == xs[0], s >= 0)))
            return s
        if name == 'exp':
            e = UF1['exp'](xs[0])
            self.add_fact(('exp', xs[0].get_id()), e > 0)
            return e
        if name in ('sin', 'cos'):
            s, c = UF1['sin'](xs[0]), UF1['cos'](xs[0])
            self.add_fact(('sincos', xs[0].get_id()), s * s + c * c == 1)
            return s if name == 'sin' else c
        if name == 'erf':
            e = UF1['erf'](xs[0])
            self.add_fact(('erf', xs[0].get_id()), z3.And(e > -1, e < 1))
            return e
        if name in UF1:
            return UF1[name](xs[0])
        if name == 'pow':
            return self.power(xs[0], xs[1], 'real', args[1], st, fr)
        if name in UF2:
            return UF2[name](xs[0], xs[1])
        if name == 'isnan' and self.flag('nan_predicate'):
            # NaN used as a SENTINEL (e.g. "not sampled yet"): an uninterpreted predicate on the stand-in reals; nothing is assumed about which
            # reals carry the mark or about arithmetic on marked values - contracts must establish `not isnan(v)` before relying on a value
            return z3.Function('IS_NAN', z3.RealSort(), z3.BoolSort())(xs[0])
        if name == 'isnan' or name == 'isinf':
            return False      # reals stand in for doubles: no NaN / Inf (stated assumption)
        if name == 'isfinite':
            return True
        raise Unsupported('math function %s' % name)

    def fp_math(self, name, args, st, fr):
        x = args[0]
        if name in ('fabs', 'abs'):
            return z3.fpAbs(x)
        if name == 'fmod':
            a, b = self.fp_pair(args[0], args[1])
            return self.fp_fmod(a, b)
        if name == 'isnan':
            return z3.fpIsNaN(x)
        if name == 'floor':
            return z3.fpRoundToIntegral(z3.RTN(), x)
        raise Unsupported('fp math function %s' % name)

    def fp_fmod(self, a, b):
        """C fmod axiomatised on Float64 (exact result: fmod is always exactly representable)."""
        self.counter += 1
        r = z3.FP('fmod!%d' % self.counter, z3.Float64())
        a_abs, b_abs, r_abs = z3.fpAbs(a), z3.fpAbs(b), z3.fpAbs(r)
        finite = z3.And(z3.Not(z3.fpIsNaN(a)), z3.Not(z3.fpIsInf(a)), z3.Not(z3.fpIsNaN(b)), z3.Not(z3.fpIsZero(b)))
        k = z3.Real('fmodk!%d' % self.counter)
        ki = z3.Int('fmodki!%d' % self.counter)
        facts = z3.Implies(finite, z3.And(
            z3.Not(z3.fpIsNaN(r)), z3.Not(z3.fpIsInf(r)),
            z3.fpLT(r_abs, b_abs),
            z3.Or(z3.fpIsZero(r), z3.fpIsNegative(r) == z3.fpIsNegative(a)),
            z3.Implies(z3.fpLT(a_abs, b_abs), r == a),
            z3.Implies(z3.fpIsInf(b), r == a)))
        self.add_fact(('fmod', self.counter), facts)
        self.assumptions.add('fmod(x,y) axioms on Float64: |r|<|y|, sign(r)=sign(x) or r=0, |x|<|y| => r=x' + ' (an over-approximation of fmod: proofs are sound, counter-models are confirmed by native replay)')
        return r

    def call_builtin(self, name, args, kwargs, st, fr, node):
        short = name.split('.')[-1]
        if short in self.contract.externals and '.' not in short and short in ('sum', 'zeros', 'ones', 'empty', 'max', 'min', 'abs', 'exp', 'sqrt', 'log10'):
            if short not in ('max', 'min', 'abs', 'exp', 'sqrt', 'log10') or (args and isinstance(args[0], Obj)):
                return self.apply_external(self.contract.externals[short], name, None, args, kwargs, st, fr, node)
        if short in ('sqrt', 'exp', 'log', 'log10', 'sin', 'cos', 'tan', 'erf', 'fabs', 'floor', 'ceil', 'atan2', 'fmod',
                     'pow', 'asin', 'acos', 'atan', 'sinh', 'cosh', 'tanh', 'hypot', 'isnan', 'isinf', 'isfinite', 'trunc',
                     'copysign', 'absolute', 'gamma', 'cbrt') and name not in ('os.path.exp',):
            if args and isinstance(args[0], Obj):
                return self.object_call(short, args, kwargs, st, fr)
            r = self.math_fn(short, args, st, fr)
            if short in ('floor', 'ceil') and not fr.is_cython and name in ('floor', 'ceil') and False:
                return z3.ToInt(r)
            return r
        if name == '__addr__':
            return args[0]          # &x handed to a C API: only the value matters here
        if name == '__cast__':
            ct, v = args
            if isinstance(v, Obj) or v is None:
                spec = spec_from_ctype(ct)
                if v is not None and spec and spec.startswith('ref:'):
                    return Obj(v.ref, spec.split(':')[1], v.kind, v.elem, v.ndim)
                return v
            return self.coerce_ctype(v, ct)
        if name == 'len':
            v = args[0]
            if isinstance(v, (tuple, list, dict, str)):
                return len(v)
            if isinstance(v, Obj) and v.kind in ('arr', 'seq'):
                n = self.arr_len(st, v, 0)
                self.add_fact(('len>=0', n.get_id()), n >= 0)
                return n
            if is_str(v):
                return z3.Length(v)
            if isinstance(v, Obj) and v.cls and self.tree.lookup_method(v.cls, '__len__')[1] is not None:
                return self.call_method(v, '__len__', [], {}, st, fr, node)
            if isinstance(v, Obj):
                n = z3.Select(self.field(st, '$len'), v.ref)
                self.add_fact(('len>=0', n.get_id()), n >= 0)
                return n
            raise Unsupported('len of %r' % (v,))
        if name == 'range':
            a = [x for x in args]
            if len(a) == 1:
                return RangeVal(0, a[0])
            if len(a) == 2:
                return RangeVal(a[0], a[1])
            return RangeVal(a[0], a[1], a[2])
        if name in ('max', 'min'):
            vals = list(args[0]) if len(args) == 1 and isinstance(args[0], (tuple, list)) else list(args)
            if len(args) == 1 and isinstance(args[0], Obj):
                return self.object_call(name, args, kwargs, st, fr)
            out = vals[0]
            for v in vals[1:]:
                if is_fp(out) or is_fp(v):
                    x, y = self.fp_pair(out, v)
                    out = z3.If(z3.fpGT(y, x) if name == 'max' else z3.fpLT(y, x), y, x)
                    continue
                if isinstance(out, (int,)) and isinstance(v, int) and not isinstance(out, bool):
                    out = max(out, v) if name == 'max' else min(out, v)
                    continue
                x, y, _ = num_args(out, v)
                out = z3.If(y > x, y, x) if name == 'max' else z3.If(y < x, y, x)
            return out
        if name == 'abs':
            v = args[0]
            if isinstance(v, (int, float)):
                return abs(v)
            if isinstance(v, Obj):
                return self.object_call('abs', args, kwargs, st, fr)
            return z3.If(v >= 0, v, -v)
        if name == 'float':
            v = args[0]
            if isinstance(v, Obj):
                return self.object_call('float', args, kwargs, st, fr)
            return to_real(v)
        if name == 'int':
            v = args[0]
            if isinstance(v, (int, bool)) or is_int(v):
                return to_int(v)
            if isinstance(v, Obj):
                return self.object_call('int', args, kwargs, st, fr, 'int')
            v = to_real(v)
            return z3.If(v >= 0, z3.ToInt(v), -z3.ToInt(-v))
        if name == 'bool':
            return self.truth(args[0], st)
        if name == 'str':
            v = args[0]
            if isinstance(v, str) or is_str(v):
                return v
            if isinstance(v, int) and not isinstance(v, bool):
                return str(v)
            if is_int(v):
                return z3.IntToStr(v) if False else z3.Function('str_of_int', z3.IntSort(), z3.StringSort())(v)
            return self.fresh('str', 'str')
        if name in ('repr', 'format'):
            return self.fresh('str', 'str')
        if name == 'print':
            return None
        if name in ('tuple', 'list'):
            if not args:
                return () if name == 'tuple' else []
            v = args[0]
            if isinstance(v, (tuple, list)):
                return tuple(v) if name == 'tuple' else list(v)
            if isinstance(v, Obj) and v.kind == 'seq':
                return Obj(v.ref, name, 'seq', v.elem, 1)     # same contents; immutability makes sharing unobservable
            if isinstance(v, (ZipVal, EnumVal, RangeVal)):
                raise Unsupported('%s(%s)' % (name, type(v).__name__))
            if isinstance(v, Obj):
                return self.object_call(name, args, kwargs, st, fr, 'seq:ref:' + name)
            raise Unsupported('%s(%r)' % (name, v))
        if name == 'zip':
            return ZipVal(list(args))
        if name == 'enumerate':
            return EnumVal(args[0], args[1] if len(args) > 1 else kwargs.get('start', 0))
        if name == 'isinstance':
            return self.isinstance_test(args[0], args[1], st, fr)
        if name == 'callable':
            v = args[0]
            if isinstance(v, (FuncVal, BoundMethod, Builtin, ClassVal)):
                return True
            if isinstance(v, Obj) and v.kind in ('arr', 'seq'):
                return False            # numpy arrays, lists and tuples are not callable
            if isinstance(v, Obj):
                return z3.Function('is_callable', Ref, z3.BoolSort())(v.ref)
            return False
        if name in ('all', 'any'):
            v = args[0]
            if isinstance(v, (tuple, list)):
                ts = [self.truth(x, st) for x in v]
                if all(isinstance(t, bool) for t in ts):
                    return all(ts) if name == 'all' else any(ts)
                ts = [z3.BoolVal(t) if isinstance(t, bool) else t for t in ts]
                return z3.And(*ts) if name == 'all' else z3.Or(*ts)
            if isinstance(v, Obj) and v.kind == 'seq' and v.elem == 'bool':
                k = z3.Int('k!all%d' % self.counter)
                self.counter += 1
                n = self.arr_len(st, v)
                body = self.arr_read(st, v, [k])
                rng = z3.And(k >= 0, k < n)
                return z3.ForAll([k], z3.Implies(rng, body)) if name == 'all' else z3.Exists([k], z3.And(rng, body))
            raise Unsupported('%s over %r' % (name, v))
        if name == 'sum':
            v = args[0]
            if isinstance(v, (tuple, list)):
                out = args[1] if len(args) > 1 else 0
                for x in v:
                    out = self.binop(ast.Add(), out, x, st, fr)
                return out
            raise Unsupported('sum over symbolic sequence')
        if name == 'hash':
            v = args[0]
            vs = list(v) if isinstance(v, (tuple, list)) else [v]
            terms = []
            for x in vs:
                if isinstance(x, Obj) or x is None:
                    terms.append(to_ref(x))
                elif isinstance(x, str) or is_str(x):
                    terms.append(to_str(x))
                elif isinstance(x, bool) or is_bool(x):
                    terms.append(to_bool_term(x))
                else:
                    terms.append(to_real(x))
            f = z3.Function('hash_%d_%s' % (len(terms), '_'.join(str(t.sort()) for t in terms)), *[t.sort() for t in terms], z3.IntSort())
            self.assumptions.add('hash of a tuple of str/int/float is a function of the tuple (congruence)')
            return f(*terms)
        if name == 'super':
            return SuperVal(st.locals.get('self'), fr.cls)
        if name == 'getattr' and isinstance(concrete(args[1]), str):
            return self.getattr_value(args[0], concrete(args[1]), st, fr)
        if name == 'id':
            return to_ref(args[0])
        if name == 'round':
            return self.math_fn('floor', [to_real(args[0]) + z3.RealVal('0.5')], st, fr)
        ext = self.external_spec([name, short], fr)
        if ext is not None:
            return self.apply_external(ext, name, None, args, kwargs, st, fr, node)
        raise Unsupported('builtin/external function %s' % name)

    def object_call(self, name, args, kwargs, st, fr, rspec=None):
        ext = self.external_spec(['obj.' + name], fr) or {'kind': 'pure', 'result': rspec or 'real'}
        if rspec:
            ext = dict(ext, result=rspec)
        return self.apply_external(ext, 'obj.' + name, None, args, kwargs, st, fr, None)

    def isinstance_test(self, v, cls, st, fr):
        classes = list(cls) if isinstance(cls, (tuple, list)) else [cls]
        results = []
        for c in classes:
            if isinstance(c, ClassVal):
                cn = c.name
            elif isinstance(c, Builtin):
                cn = c.name
            elif isinstance(c, Obj):
                # class stored in an attribute (e.g. self._OBSERVER_TYPE): opaque class object
                if isinstance(v, Obj):
                    results.append(z3.Function('isinstance_dyn', Ref, Ref, z3.BoolSort())(v.ref, c.ref))
                else:
                    results.append(False)
                continue
            else:
                raise Unsupported('isinstance against %r' % (c,))
            results.append(self.isinstance_name(v, cn, st))
        if all(isinstance(r, bool) for r in results):
            return any(results)
        return z3.Or(*[z3.BoolVal(r) if isinstance(r, bool) else r for r in results])

    def isinstance_name(self, v, cn, st):
        if isinstance(v, list):
            return cn in ('list', 'object', 'Sequence')
        if isinstance(v, tuple):
            return cn in ('tuple', 'object', 'Sequence')
        if isinstance(v, dict):
            return cn in ('dict', 'object')
        if isinstance(v, str) or is_str(v):
            return cn in ('str', 'object')
        if isinstance(v, bool) or is_bool(v):
            return cn in ('bool', 'int', 'object', 'Integral', 'Number', 'Real')
        if isinstance(v, int) or is_int(v):
            return cn in ('int', 'object', 'Integral', 'Number', 'Real', 'integer')
        if isinstance(v, float) or is_real(v) or is_fp(v):
            return cn in ('float', 'object', 'Number', 'Real', 'floating')
        if v is None:
            return cn in ('NoneType', 'object')
        if isinstance(v, Obj):
            if v.kind == 'seq':
                return cn == (v.cls if v.cls in ('list', 'tuple', 'ndarray') else 'tuple') or cn == 'object'
            if v.kind == 'arr':
                return cn in ('ndarray', 'object')
            if cn in ('list', 'tuple', 'ndarray', 'str', 'int', 'float', 'dict', 'bool') and v.cls:
                return False
            if v.cls and self.tree.class_info(v.cls) is not None:
                if self.tree.is_subclass(v.cls, cn):
                    return True
                if self.tree.class_info(cn) is not None and not self.tree.is_subclass(cn, v.cls):
                    return False
            p = z3.Function('isinstance_' + cn, Ref, z3.BoolSort())(v.ref)
            return p
        if isinstance(v, (FuncVal, BoundMethod, Builtin, ClassVal)):
            return cn in ('object',)
        raise Unsupported('isinstance of %r' % (v,))


def fact_fn(fact, term, args):
    """Instantiate an external's fact template: a callable (result_term, arg_terms) -> z3 Bool."""
    return fact(term, args)
