"""Core of the symbolic executor: state, heap, fresh symbols, obligations, feasibility."""
import ast
import z3

from .values import (Ref, NONE, alloc0, Obj, Unsupported, SORTS, spec_from_ctype, sortkey, coerce, is_z3,
                     to_real, to_int, to_ref, concrete)
from .smt import Obligation
from .values import SymDict


def _copy_symdict(d):
    return SymDict([(k, _copy_symdict(v) if isinstance(v, SymDict) else v) for k, v in d.items], d.auto)


ALLOC_T = z3.Function('alloc_t', Ref, z3.IntSort())


class State:
    __slots__ = ('pc', 'locals', 'heap', 'log', 'guards', 'pending', 'ghost', 'ctrl')

    def __init__(self):
        self.pc = []
        self.locals = {}
        self.heap = {}
        self.log = []
        self.guards = []
        self.pending = []      # exceptional exits registered during expression evaluation: (cond, excname)
        self.ghost = {}
        self.ctrl = []         # control-flow decisions taken (subset of pc)

    def copy(self):
        s = State()
        s.pc = list(self.pc)
        # mutable Python containers held in locals are copied so that sibling paths do not share them
        s.locals = {k: (list(v) if type(v) is list else (dict(v) if type(v) is dict else (_copy_symdict(v) if isinstance(v, SymDict) else v))) for k, v in self.locals.items()}
        s.heap = dict(self.heap)
        s.log = list(self.log)
        s.guards = list(self.guards)
        s.pending = list(self.pending)
        s.ghost = dict(self.ghost)
        s.ctrl = list(self.ctrl)
        return s


class Frame:
    """Static context of the function being executed (real body or inlined callee)."""
    def __init__(self, fn, file, cls, contract, depth=0):
        self.fn = fn
        self.file = file
        self.cls = cls
        self.contract = contract
        self.depth = depth
        self.flags = getattr(fn, 'flags', {}) or {}
        self.is_cython = not file.endswith('.py')
        self.ctypes = {}       # local name -> ctype string
        self.loop_ord = {}
        self.try_depth = []    # exception names caught by enclosing try blocks
        self._scan()

    def _scan(self):
        a = self.fn.args
        for arg in a.posonlyargs + a.args + a.kwonlyargs:
            ct = getattr(arg, 'ctype', None)
            if ct:
                self.ctypes[arg.arg] = ct
        n = 0
        for node in ast.walk(self.fn):
            if isinstance(node, ast.AnnAssign) and getattr(node, 'cdef', False):
                self.ctypes[node.target.id] = node.annotation.value
        # loop ordinals in source order
        loops = [x for x in ast.walk(self.fn) if isinstance(x, (ast.For, ast.While))]
        loops.sort(key=lambda x: (x.lineno, x.col_offset))
        for i, x in enumerate(loops):
            self.loop_ord[id(x)] = i
        # call-site ordinals per callee name, in source order
        self.call_site = {}
        calls = [x for x in ast.walk(self.fn) if isinstance(x, ast.Call)]
        calls.sort(key=lambda x: (x.lineno, x.col_offset))
        seen = {}
        for x in calls:
            nm = x.func.attr if isinstance(x.func, ast.Attribute) else (x.func.id if isinstance(x.func, ast.Name) else '?')
            self.call_site[id(x)] = seen.get(nm, 0)
            seen[nm] = seen.get(nm, 0) + 1


class CoreMixin:
    def init_core(self):
        self.counter = 0
        self.obligs = []
        self.facts = []          # valid facts (instantiated axioms about math functions etc.)
        self.fact_keys = set()
        self.axiom_facts = []
        self.heap0 = {}
        self.allocated = []      # refs of objects allocated during execution
        self.uses_alloc = False
        self.unsupported = []
        self.feas_cache = {}
        self._quant_cache = {}
        self.assumptions = set()
        self.solver_calls = 0
        self.consts = {}
        self.call_ord = {}
        self.unit_syms = set()
        self.inferred_attrs = {}     # untyped (pure Python) attributes: sort inferred from the first value written

    # ---- fresh symbols
    def fresh(self, base, key):
        self.counter += 1
        name = '%s!%d' % (base, self.counter)
        return z3.Const(name, SORTS[key])

    def named(self, name, key):
        return z3.Const(name, SORTS[key])

    def sym_for_spec(self, name, spec, fresh=True):
        """Symbolic value of sort spec `spec`."""
        if spec is None:
            spec = 'ref'
        parts = spec.split(':')
        head = parts[0]
        mk = (lambda k: self.fresh(name, k)) if fresh else (lambda k: self.named(name, k))
        if head in ('real', 'int', 'bool', 'str'):
            return mk(head)
        if head == 'ref':
            return Obj(mk('ref'), parts[1] if len(parts) > 1 else None)
        if head == 'arr':
            return Obj(mk('ref'), 'ndarray', 'arr', parts[1], int(parts[2]) if len(parts) > 2 else 1)
        if head == 'seq':
            return Obj(mk('ref'), parts[2] if len(parts) > 2 else 'sequence', 'seq', parts[1] if len(parts) > 1 else 'ref', 1)
        if head == 'any':
            return Obj(mk('ref'), None)
        raise Unsupported('sort spec %r' % spec)

    def wrap(self, term, spec):
        """Wrap a z3 term read from the heap according to a sort spec."""
        if spec is None:
            return Obj(term, None) if term.sort().eq(Ref) else term
        parts = spec.split(':')
        head = parts[0]
        if head in ('real', 'int', 'bool', 'str'):
            return term
        if head == 'ref':
            return Obj(term, parts[1] if len(parts) > 1 else None)
        if head == 'arr':
            if len(parts) > 3:
                # C array attribute of static length
                ln = z3.Select(self.heap0.setdefault('$len', z3.Const('H0_$len', self.field_sort('$len'))), term)
                self.add_fact(('clen', term.get_id()), z3.And(ln == int(parts[3]), term != NONE))
            return Obj(term, 'ndarray', 'arr', parts[1], int(parts[2]) if len(parts) > 2 else 1)
        if head == 'seq':
            return Obj(term, parts[2] if len(parts) > 2 else 'sequence', 'seq', parts[1] if len(parts) > 1 else 'ref', 1)
        return Obj(term, None)

    # ---- heap
    def field_sort(self, fid):
        name, key = fid.rsplit(':', 1) if ':' in fid else (fid, None)
        if fid in ('$len', '$n0', '$n1', '$n2'):
            return z3.ArraySort(Ref, z3.IntSort())
        if name == '$d1':
            return z3.ArraySort(Ref, z3.ArraySort(z3.IntSort(), SORTS[key]))
        if name == '$d2':
            return z3.ArraySort(Ref, z3.ArraySort(z3.IntSort(), z3.IntSort(), SORTS[key]))
        if name == '$d3':
            return z3.ArraySort(Ref, z3.ArraySort(z3.IntSort(), z3.IntSort(), z3.IntSort(), SORTS[key]))
        return z3.ArraySort(Ref, SORTS[key])

    def field(self, st, fid):
        if fid not in st.heap:
            if fid not in self.heap0:
                self.heap0[fid] = z3.Const('H0_' + fid, self.field_sort(fid))
            st.heap[fid] = self.heap0[fid]
        return st.heap[fid]

    def attr_spec(self, frame, obj, attr):
        """Sort spec for attribute `attr` of object value `obj`."""
        c = frame.contract if frame is not None else None
        root = self.contract
        for cc in (c, root):
            if cc is not None and attr in cc.attrs:
                return cc.attrs[attr]
        if isinstance(obj, Obj) and obj.cls:
            ct = self.tree.attr_ctype(obj.cls, attr)
            if ct is not None:
                return spec_from_ctype(ct)
        if attr in self.global_attrs:
            return self.global_attrs[attr]
        if attr in self.inferred_attrs:
            return self.inferred_attrs[attr]
        return None

    def read_attr(self, st, obj, attr, spec):
        fid = '%s:%s' % (attr, sortkey(spec))
        term = z3.Select(self.field(st, fid), to_ref(obj))
        return self.wrap(term, spec)

    def write_attr(self, st, obj, attr, spec, val):
        key = sortkey(spec)
        fid = '%s:%s' % (attr, key)
        st.heap[fid] = z3.Store(self.field(st, fid), to_ref(obj), coerce(val, key))

    def arr_len(self, st, obj, axis=0):
        if obj.view is not None:
            base, how, _ = obj.view
            return self.arr_len(st, base, 0 if how == 'col' else 1)
        if obj.ndim == 1:
            return z3.Select(self.field(st, '$len'), obj.ref)
        return z3.Select(self.field(st, '$n%d' % axis), obj.ref)

    def arr_fid(self, obj):
        return '$d%d:%s' % (obj.ndim, obj.elem)

    def arr_read(self, st, obj, idx):
        if obj.view is not None:
            base, how, fixed = obj.view
            return self.arr_read(st, base, [idx[0], fixed] if how == 'col' else [fixed, idx[0]])
        data = z3.Select(self.field(st, self.arr_fid(obj)), obj.ref)
        idx = [to_int(i) for i in idx]
        term = z3.Select(data, *idx)
        if obj.elem == 'ref':
            return Obj(term, None)
        return term

    def arr_write(self, st, obj, idx, val):
        if obj.view is not None:
            base, how, fixed = obj.view
            return self.arr_write(st, base, [idx[0], fixed] if how == 'col' else [fixed, idx[0]], val)
        fid = self.arr_fid(obj)
        f = self.field(st, fid)
        data = z3.Select(f, obj.ref)
        idx = [to_int(i) for i in idx]
        st.heap[fid] = z3.Store(f, obj.ref, z3.Store(data, *idx, coerce(val, obj.elem)))

    def new_obj(self, st, cls=None, kind=None, elem=None, ndim=1, name='new'):
        r = self.fresh(name, 'ref')
        self.uses_alloc = True
        st.pc.append(z3.Not(alloc0(r)))
        st.pc.append(r != NONE)
        for other in self.allocated:
            st.pc.append(r != other)
        self.allocated.append(r)
        # allocation time stamp (ghost): lets a loop invariant say that the objects collected so far are OLDER than anything allocated later
        now = st.ghost.get('$now', z3.IntVal(0))
        st.pc.append(ALLOC_T(r) == now)
        st.ghost['$now'] = now + 1
        return Obj(r, cls, kind, elem, ndim)

    def alloc_axioms(self):
        """Well-formed entry heap: everything the entry heap stores is allocated at entry."""
        ax = [alloc0(NONE)]
        r = z3.Const('r!q', Ref)
        ax.append(z3.ForAll([r], z3.Implies(alloc0(r), ALLOC_T(r) < 0)))
        i = z3.Int('i!q')
        j = z3.Int('j!q')
        for fid, h in self.heap0.items():
            if not fid.endswith(':ref'):
                continue
            if fid.startswith('$d1'):
                ax.append(z3.ForAll([r, i], alloc0(h[r][i])))
            elif fid.startswith('$d2'):
                ax.append(z3.ForAll([r, i, j], alloc0(z3.Select(h[r], i, j))))
            elif fid.startswith('$d'):
                continue
            else:
                ax.append(z3.ForAll([r], alloc0(h[r])))
        return ax

    # ---- facts and obligations
    def add_fact(self, key, fact):
        if key in self.fact_keys:
            return
        self.fact_keys.add(key)
        self.facts.append(fact)
        if isinstance(key, tuple) and key and key[0] == 'axiom':
            self.axiom_facts.append(fact)

    def hyps(self, st):
        return list(st.pc) + list(st.guards)

    def emit(self, st, kind, goal, detail=''):
        """Record a proof obligation `pc ∧ guards ⇒ goal` under the current function."""
        if isinstance(goal, bool):
            if goal:
                return
            goal = z3.BoolVal(False)
        name = '%s/%s/%s' % (self.contract.prop, self.contract.label, kind)
        o = Obligation(name, self.hyps(st), goal, meta={'detail': detail})
        if self.contract.flags.get('replay_decides'):
            o.meta['replay_decides'] = True
        self.obligs.append(o)
        return o

    def has_quantifier(self, t):
        key = t.get_id()
        c = self._quant_cache.get(key)
        if c is not None:
            return c
        found = False
        stack = [t]
        seen = set()
        while stack:
            x = stack.pop()
            i = x.get_id()
            if i in seen:
                continue
            seen.add(i)
            if z3.is_quantifier(x):
                found = True
                break
            stack.extend(x.children())
        self._quant_cache[key] = found
        return found

    def feasible(self, st, extra=None):
        """Cheap path-feasibility test (quantifier-free part of the path condition, products opaque);
        only a definite 'unsat' prunes a path."""
        conds = list(st.pc) + list(st.guards)
        if extra is not None:
            conds.append(extra)
        s = z3.Solver()
        s.set('timeout', self.feas_timeout_ms)
        s.set('smt.arith.nl', False)
        for c in conds:
            if not self.has_quantifier(c):
                s.add(c)
        for f in self.facts:
            if not self.has_quantifier(f):
                s.add(f)
        self.solver_calls += 1
        r = s.check()
        return r != z3.unsat

    def decide(self, st, cond):
        """Try to decide a boolean z3 condition under the path condition: True / False / None."""
        c = concrete(cond)
        if isinstance(c, bool):
            return c
        return None
