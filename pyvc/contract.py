"""Sidecar contracts on the real functions of /repo, keyed by (file, qualified name)."""


class Contract:
    def __init__(self, file, qualname, prop, **kw):
        self.file = file
        self.qualname = qualname
        self.prop = prop
        self.name = kw.pop('name', None)            # optional variant label (several contracts per function)
        self.sorts = kw.pop('sorts', {})            # parameter / local name -> sort spec
        self.attrs = kw.pop('attrs', {})            # attribute name -> sort spec (heap typing)
        self.self_cls = kw.pop('self_cls', None)    # static class of `self` (default: enclosing class)
        self.requires = kw.pop('requires', [])
        self.ensures = kw.pop('ensures', [])        # str | (name, str) | (name, callable(P))
        self.raises = kw.pop('raises', {})          # ExcName -> condition on the entry state ("iff")
        self.raises_any = kw.pop('raises_any', [])  # exception classes that may be raised without a stated condition
        self.modifies = kw.pop('modifies', None)    # list of heap field names the function may write (None: unchecked)
        self.loops = kw.pop('loops', {})            # ordinal -> dict(invariant=[...], index='k', unroll=bool)
        self.inline = kw.pop('inline', [])          # callee names executed by inlining their real body
        self.ghost = kw.pop('ghost', {})            # 'u(k)' -> expression macro
        self.consts = kw.pop('consts', {})          # name -> sort spec for named symbolic constants
        self.axioms = kw.pop('axioms', [])          # spec-level facts assumed (listed in evidence)
        self.externals = kw.pop('externals', {})    # call label -> spec overriding the global externals table
        self.result = kw.pop('result', None)        # sort spec of the result (for modular use)
        self.flags = kw.pop('flags', {})            # engine options: index_raises, unroll_limit, ...
        self.replay = kw.pop('replay', None)        # 'module:function' building a native replay from a model
        self.trusted = kw.pop('trusted', False)     # assumed contract (external); never verified, listed
        self.note = kw.pop('note', '')
        self.known = kw.pop('known', {})
        if kw:
            raise TypeError('unknown contract keys %s' % sorted(kw))

    @property
    def key(self):
        return (self.file, self.qualname)

    @property
    def label(self):
        mod = self.file.rsplit('.', 1)[0].replace('/', '.')
        lab = '%s.%s' % (mod, self.qualname)
        if self.name:
            lab += '[%s]' % self.name
        return lab


class Registry:
    def __init__(self):
        self.contracts = []
        self.by_key = {}
        self.by_method = {}     # method simple name -> [contracts]

    def add(self, c):
        self.contracts.append(c)
        self.by_key.setdefault(c.key, []).append(c)
        self.by_method.setdefault(c.qualname.split('.')[-1], []).append(c)
        return c

    def contract(self, file, qualname, prop, **kw):
        return self.add(Contract(file, qualname, prop, **kw))

    def lookup(self, file, qualname):
        cs = self.by_key.get((file, qualname))
        if not cs:
            return None
        # modular use: the unnamed (general) contract, else the first
        for c in cs:
            if c.name is None:
                return c
        return None

    def for_prop(self, prop):
        return [c for c in self.contracts if c.prop == prop and not c.trusted]
