"""Value and sort layer of the symbolic executor."""
import z3

Ref = z3.DeclareSort('Ref')
NONE = z3.Const('None', Ref)
alloc0 = z3.Function('alloc0', Ref, z3.BoolSort())


class Unsupported(Exception):
    """Construct outside the supported subset: the function is undecided, never a violation."""


class Obj:
    """Reference to a heap object.  kind None = plain object, 'arr' = numeric array / memoryview,
    'seq' = Python sequence (tuple/list object) with symbolic length."""
    __slots__ = ('ref', 'cls', 'kind', 'elem', 'ndim', 'view')

    def __init__(self, ref, cls=None, kind=None, elem=None, ndim=1, view=None):
        self.ref = ref
        self.cls = cls
        self.kind = kind
        self.elem = elem
        self.ndim = ndim
        self.view = view        # (base Obj, 'col'|'row', fixed index term): a 1-d view of a 2-d array

    def __repr__(self):
        return 'Obj(%s:%s%s)' % (self.ref, self.cls, '' if not self.kind else ' %s:%s:%d' % (self.kind, self.elem, self.ndim))


class SymDict:
    """Dict value with symbolic keys: an association list (used for small literals such as {species: {charge: rate}})."""
    def __init__(self, items=None, auto=False):
        self.items = list(items or [])       # [(key value, value)]
        self.auto = auto                     # RecursiveDict semantics: missing keys create nested dicts

    def __repr__(self):
        return 'SymDict(%r)' % (self.items,)


class FuncVal:
    def __init__(self, file, qualname, node, cls=None):
        self.file = file
        self.qualname = qualname
        self.node = node
        self.cls = cls


class BoundMethod:
    def __init__(self, obj, name):
        self.obj = obj
        self.name = name


class ClassVal:
    def __init__(self, name):
        self.name = name

    def __repr__(self):
        return 'ClassVal(%s)' % self.name


class ModuleVal:
    def __init__(self, name):
        self.name = name


class Builtin:
    def __init__(self, name):
        self.name = name

    def __repr__(self):
        return 'Builtin(%s)' % self.name


class SuperVal:
    def __init__(self, obj, after_cls):
        self.obj = obj
        self.after_cls = after_cls


class Event:
    """A logged call: the observable of call-argument obligations."""
    def __init__(self, label, recv, args, kwargs, result, pc_len=0):
        self.label = label
        self.recv = recv
        self.args = tuple(args)
        self.kwargs = dict(kwargs)
        self.result = result
        self.heap = None      # heap snapshot at the time of the call (for coherence obligations)
        self.loop = []        # enclosing invariant loops: (index term, lo, hi, loop key)
        self.cond = []        # path conditions (inside the loop body) under which the call happens

    def in_loop(self, info, cond):
        e = Event(self.label, self.recv, self.args, self.kwargs, self.result)
        e.heap = self.heap
        e.loop = [info] + list(self.loop)
        e.cond = list(cond) + list(self.cond)
        return e

    def __repr__(self):
        return 'Event(%s recv=%s args=%s kw=%s)' % (self.label, self.recv, self.args, self.kwargs)


SORTS = {'real': z3.RealSort(), 'int': z3.IntSort(), 'bool': z3.BoolSort(), 'str': z3.StringSort(), 'ref': Ref}

C_REAL = {'double', 'float', 'long double', 'np.float64_t', 'float64_t'}
C_INT = {'int', 'long', 'short', 'char', 'Py_ssize_t', 'size_t', 'unsigned int', 'unsigned long', 'long long',
         'np.int32_t', 'np.int64_t', 'int32_t', 'int64_t', 'np.npy_intp', 'npy_intp', 'uint8_t', 'np.uint8_t',
         'unsigned char', 'ssize_t', 'intp_t', 'np.intp_t'}
C_BOOL = {'bint'}
C_STR = {'str', 'unicode'}
C_OBJ = {'object', 'list', 'tuple', 'dict', 'set', 'type', None}


def spec_from_ctype(ct):
    """Sort spec string for a declared C type."""
    if ct is None:
        return None
    import re as _re
    m = _re.match(r'^([\w. ]+)\[(\d+)\]$', ct)
    if m:
        base = m.group(1)
        el = 'real' if base in C_REAL else ('int' if base in C_INT or base in C_BOOL else 'ref')
        return 'arr:%s:1:%s' % (el, m.group(2))
    if '[' in ct and ct.endswith(']') and ':' in ct:
        base = ct.split('[')[0]
        nd = ct.count(':')
        el = 'real' if base in C_REAL else ('int' if base in C_INT or base in C_BOOL else 'ref')
        return 'arr:%s:%d' % (el, nd)
    if ct in C_REAL:
        return 'real'
    if ct in C_INT:
        return 'int'
    if ct in C_BOOL:
        return 'bool'
    if ct in C_STR:
        return 'str'
    if ct in ('object',):
        return None
    if ct in ('list', 'tuple'):
        return 'seq:ref'
    if ct in ('dict', 'set', 'type'):
        return 'ref'
    if ct in ('np.ndarray', 'ndarray'):
        return None
    if ct.endswith('*') or ct.endswith('[]'):
        return 'ref'
    return 'ref:' + ct.split('.')[-1]


def sortkey(spec):
    """Heap/SMT sort key ('real','int','bool','str','ref') of a sort spec."""
    if spec is None:
        return 'ref'
    head = spec.split(':')[0]
    if head in ('real', 'int', 'bool', 'str'):
        return head
    return 'ref'


def is_z3(v):
    return isinstance(v, z3.ExprRef)


def is_real(v):
    return is_z3(v) and z3.is_real(v)


def is_int(v):
    return is_z3(v) and z3.is_int(v)


def is_bool(v):
    return is_z3(v) and z3.is_bool(v)


def is_str(v):
    return is_z3(v) and z3.is_string(v)


def is_ref(v):
    return is_z3(v) and v.sort().eq(Ref)


def is_fp(v):
    return is_z3(v) and z3.is_fp(v)


def real_const(x):
    """Exact decimal value of a Python float literal as written (reals stand in for doubles)."""
    if isinstance(x, bool):
        return z3.RealVal(1 if x else 0)
    if isinstance(x, int):
        return z3.RealVal(x)
    r = repr(float(x))
    if r in ('inf', '-inf', 'nan'):
        raise Unsupported('non-finite float literal')
    return z3.RealVal(r)


def to_real(v):
    if isinstance(v, bool):
        return z3.RealVal(1 if v else 0)
    if isinstance(v, (int, float)):
        return real_const(v)
    if is_real(v):
        return v
    if is_int(v):
        return z3.ToReal(v)
    if is_bool(v):
        return z3.If(v, z3.RealVal(1), z3.RealVal(0))
    raise Unsupported('cannot convert %r to real' % (v,))


def to_int(v):
    if isinstance(v, bool):
        return z3.IntVal(1 if v else 0)
    if isinstance(v, int):
        return z3.IntVal(v)
    if is_int(v):
        return v
    if is_bool(v):
        return z3.If(v, z3.IntVal(1), z3.IntVal(0))
    if isinstance(v, float) and v == int(v):
        return z3.IntVal(int(v))
    raise Unsupported('cannot convert %r to int' % (v,))


def to_bool_term(v):
    if isinstance(v, bool):
        return z3.BoolVal(v)
    if is_bool(v):
        return v
    raise Unsupported('cannot convert %r to bool term' % (v,))


def to_ref(v):
    if v is None:
        return NONE
    if isinstance(v, Obj):
        return v.ref
    if is_ref(v):
        return v
    raise Unsupported('cannot convert %r to ref' % (v,))


def to_str(v):
    if isinstance(v, str):
        return z3.StringVal(v)
    if is_str(v):
        return v
    raise Unsupported('cannot convert %r to str' % (v,))


def coerce(v, key):
    return {'real': to_real, 'int': to_int, 'bool': to_bool_term, 'ref': to_ref, 'str': to_str}[key](v)


def num_args(a, b):
    """Coerce two numeric operands to a common z3 sort (Int if both integral, else Real)."""
    def integral(x):
        return isinstance(x, (bool, int)) or is_int(x)
    if integral(a) and integral(b):
        return to_int(a), to_int(b), 'int'
    return to_real(a), to_real(b), 'real'


def simp(v):
    return z3.simplify(v) if is_z3(v) else v


def concrete(v):
    """Python value of a z3 numeral/bool/string literal (after simplify) or None."""
    if not is_z3(v):
        return v
    s = z3.simplify(v)
    if z3.is_int_value(s):
        return s.as_long()
    if z3.is_true(s):
        return True
    if z3.is_false(s):
        return False
    if z3.is_rational_value(s):
        return s.numerator_as_long() / s.denominator_as_long() if s.denominator_as_long() != 1 else float(s.numerator_as_long())
    if z3.is_string_value(s):
        return s.as_string()
    return None
