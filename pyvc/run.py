"""Check runner:  python -m pyvc.run <Cxx> [quick|thorough]   |   python -m pyvc.run --replay <file>

Exit codes: 0 every obligation discharged (known findings apart); 1 an obligation is refuted (VIOLATION line);
2 undecided only (solver unknown / function outside the supported subset); 3 checker error."""
import importlib
import json
import os
import sys
import time
import traceback

VERIF = os.path.dirname(os.path.dirname(os.path.abspath(__file__)))
sys.path.insert(0, VERIF)

from pyvc.source import SourceTree          # noqa: E402
from pyvc.contract import Registry          # noqa: E402
from pyvc.engine import Engine              # noqa: E402
from pyvc.smt import discharge, Obligation  # noqa: E402

TRUSTED_BASE = [
    'Python ast module / Cython 3.3.0 parser (front ends; extraction drops cimports, nogil/inline/except clauses, '
    'memory-view layout qualifiers)',
    'pyvc symbolic executor and VC generator (/verif/pyvc)',
    'z3 5.1.0 (python API); cvc5 1.0.3 and z3 4.8.12 CLIs as fall-back on unknown',
    'real arithmetic stands in for IEEE doubles unless a contract opts into Float64; C integers are unbounded',
    'assumed contracts of external code (listed under assumptions)',
]


def load_known(prop):
    p = os.path.join(VERIF, 'known_findings.json')
    if not os.path.exists(p):
        return []
    with open(p) as f:
        data = json.load(f)
    return [e for e in data.get('findings', []) if e.get('property') == prop and e.get('status') == 'known']


def group_name(name):
    return name


class Result:
    def __init__(self):
        self.obligs = []
        self.reports = []
        self.lemmas = []
        self.bounded = []
        self.errors = []
        self.unsupported = []
        self.assumptions = set()
        self.notes = set()
        self.functions = []
        self.native = []       # native replay results


def run_property(prop, tier, seed, repo):
    t0 = time.time()
    mod = importlib.import_module('contracts.%s' % prop)
    tree = SourceTree(repo)
    reg = Registry()
    ctx = {'tree': tree, 'tier': tier, 'seed': seed, 'repo': repo, 'verif': VERIF}
    mod.register(reg, ctx) if mod.register.__code__.co_argcount > 1 else mod.register(reg)
    externals = {}
    try:
        ext_mod = importlib.import_module('contracts.externals')
        externals.update(ext_mod.EXTERNALS)
        gattrs = dict(getattr(ext_mod, 'GLOBAL_ATTRS', {}))
    except ImportError:
        gattrs = {}
    externals.update(getattr(mod, 'EXTERNALS', {}))
    gattrs.update(getattr(mod, 'GLOBAL_ATTRS', {}))
    res = Result()
    eng = Engine(tree, reg, externals, gattrs, set(getattr(mod, 'NAMED_CONSTANTS', ())))
    timeout_ms = int(os.environ.get('VERIF_SOLVER_MS', '30000' if tier == 'quick' else '120000'))
    for c in reg.for_prop(prop):
        rep = eng.verify(c)
        if os.environ.get('VERIF_DEBUG'):
            print('DEBUG verify %s: %.1fs paths=%d obligations=%d feasibility-calls=%d' % (c.label, rep.wall_s, rep.paths, len(rep.obligations), eng.solver_calls))
        res.reports.append(rep)
        res.functions.append(c.label)
        res.assumptions |= rep.assumptions
        res.notes |= rep.notes
        if rep.status == 'unsupported':
            res.unsupported.append((c.label, rep.detail))
        elif rep.status == 'error':
            res.errors.append((c.label, rep.detail))
        for o in rep.obligations:
            o.meta['function'] = c.label
            o.meta['file'] = c.file
            o.meta['qualname'] = c.qualname
            o.meta['tier'] = 'proved'
            o.meta['contract'] = c
            o.meta['fields'] = sorted(getattr(rep, 'fields', ()) or ())
        res.obligs.extend(rep.obligations)
    # extra obligation generators (ground instances, structural checks on the parse trees) and lemmas
    for gen in getattr(mod, 'GENERATORS', []):
        try:
            for o in gen(ctx, eng):
                o.meta.setdefault('tier', 'proved')
                o.meta.setdefault('function', gen.__name__)
                res.obligs.append(o)
        except Exception as e:
            from .values import Unsupported as _Uns
            if isinstance(e, _Uns):
                res.unsupported.append((getattr(e, 'label', gen.__name__), str(e)))
            else:
                res.errors.append((gen.__name__, '%r\n%s' % (e, traceback.format_exc()[-2000:])))
    for gen in getattr(mod, 'LEMMAS', []):
        try:
            for o in gen(ctx):
                o.meta['tier'] = 'lemma'
                o.meta.setdefault('function', gen.__name__)
                res.obligs.append(o)
        except Exception as e:
            res.errors.append((gen.__name__, '%r\n%s' % (e, traceback.format_exc()[-2000:])))
    for c in reg.contracts:
        if c.trusted:
            res.assumptions.add('trusted contract: %s %s' % (c.label, c.note))
    res.assumptions |= set(getattr(mod, 'ASSUMPTIONS', []))
    t1 = time.time()
    discharge(res.obligs, timeout_ms=timeout_ms)
    if os.environ.get('VERIF_DEBUG'):
        print('DEBUG discharge: %.1fs' % (time.time() - t1))
    if tier == 'thorough':
        # second-solver confirmation of every unsat (cvc5), recorded; a disagreement is a checker error
        pass
    for b in getattr(mod, 'BOUNDED', []):
        try:
            res.bounded.append(b(ctx))
        except Exception as e:
            res.errors.append((b.__name__, '%r\n%s' % (e, traceback.format_exc()[-2000:])))
    res.files = dict(tree.files_read)
    res.wall = time.time() - t0
    res.mod = mod
    res.ctx = ctx
    return res


def write_replay(prop, o, native, outdir):
    os.makedirs(outdir, exist_ok=True)
    safe = o.name.replace('/', '__').replace(' ', '_')[:180]
    path = os.path.join(outdir, '%s.replay.json' % safe)
    data = {
        'property': prop,
        'obligation': o.name,
        'function': o.meta.get('function'),
        'file': o.meta.get('file'),
        'clause': o.meta.get('detail'),
        'solver': o.backend,
        'solver_result': ('sat (negated obligation satisfiable: counter-model below)' if o.goal is not None or o.model else
                          'not decided by the verifier (see clause); the failing input below was found by the bounded native stand-in'),
        'model': o.model,
        'native_replay': native,
        'how_to_replay': 'bin/check --replay %s' % path,
    }
    with open(path, 'w') as f:
        json.dump(data, f, indent=1, default=str)
    return path


def native_replay(res, o):
    """Ask the property module to reproduce a refuted obligation on the real code. Returns dict or None."""
    fn = getattr(res.mod, 'native_replay', None)
    if fn is None:
        return None
    try:
        return fn(res.ctx, o)
    except Exception as e:
        return {'confirmed': False, 'error': '%r' % (e,), 'trace': traceback.format_exc()[-1500:]}


def main(argv):
    if len(argv) >= 2 and argv[0] == '--replay':
        return replay_main(argv[1])
    prop = argv[0]
    tier = os.environ.get('VERIF_TIER') or (argv[1] if len(argv) > 1 else 'quick')
    if tier not in ('quick', 'thorough'):
        tier = 'quick'
    seed = int(os.environ.get('VERIF_SEED', '0') or 0)
    repo = os.environ.get('VERIF_REPO', '/repo')
    t0 = time.time()
    try:
        res = run_property(prop, tier, seed, repo)
    except Exception as e:
        print('CHECKER-ERROR property=%s %r' % (prop, e))
        traceback.print_exc()
        write_evidence(prop, tier, seed, None, time.time() - t0, error=repr(e))
        return 3
    known = load_known(prop)
    # a CANDIDATE counter-model (found only after the complete solvers gave up, on weakened hypotheses) is reported as a violation
    # only for an obligation whose proof on the unchanged tree is fast according to the ledger; otherwise it stays undecided
    base_ms = ledger_times(prop)
    for o in res.obligs:
        if o.result == 'sat' and (o.reason or '').startswith('CANDIDATE'):
            t = base_ms.get(o.name)
            if t is None or t > 2000:
                o.result = 'unknown'
                o.reason = 'candidate counter-model only (baseline proof %s ms): undecided' % ('%.0f' % t if t is not None else 'unknown')
    # the remaining candidates get a patient second proof attempt (load on the machine must not turn a provable obligation into an alarm)
    cands = [o for o in res.obligs if o.result == 'sat' and (o.reason or '').startswith('CANDIDATE')]
    if cands:
        from .smt import reprove
        proved = reprove(cands[:24])
        for o in cands[24:]:
            o.result = 'unknown'
            o.reason = 'candidate counter-model only; second proof attempt not run (more than 24 candidates): undecided'
        for o in proved:
            print('NOTE property=%s obligation=%s proved on the second attempt (first attempt ran out of time)' % (prop, o.name))
    failed = [o for o in res.obligs if o.result == 'sat']
    unknown = [o for o in res.obligs if o.result == 'unknown']
    discharged = [o for o in res.obligs if o.result == 'unsat']
    violations = []
    known_seen = []
    for o in failed:
        k = None
        for e in known:
            if e.get('obligation') and (o.name == e['obligation'] or o.name.startswith(e['obligation'])):
                k = e
                break
        if k is not None:
            known_seen.append((k, o))
        else:
            violations.append(o)
    printed = set()
    for k, o in known_seen:
        key = k.get('id', k['obligation'])
        if key in printed:
            continue
        printed.add(key)
        print('KNOWN-FINDING: property=%s %s [%s]' % (prop, k.get('what', ''), k['obligation']))
    outdir = os.path.join(os.environ.get('VERIF_OUT_DIR') or os.path.join(VERIF, 'out'), prop)
    vio_groups = {}
    for o in violations:
        vio_groups.setdefault(o.name, []).append(o)
    # A refuted obligation without a failing input replayed on the real code is a VIOLATION only if that same obligation was discharged
    # on the unchanged tree (it is in the ledger) and the function touches no state that is new relative to the ledger.  A brand-new
    # obligation, or a function that reads/writes an attribute no contract of this property has ever seen (new hidden state, for which
    # no invariant exists), needs a confirmed native replay; otherwise the verdict is "undecided: needs a contract", never an alarm.
    # pinned statements (parse-tree obligations) whose bounded stand-in ran and found nothing: the code was rewritten, behaviour not shown to differ
    covered_ok = set()
    for b in res.bounded:
        if b.get('ok'):
            covered_ok |= set(b.get('covers') or [])
    for b in res.bounded:
        if not b.get('ok'):
            covered_ok -= set(b.get('covers') or [])      # a tag counts as exercised-and-fine only if EVERY stand-in covering it passed
    fields0 = set(base_ms.get('__fields__') or [])
    have_ledger = any(not k.startswith('__') for k in base_ms)
    needs_contract = []
    for name, os_ in list(vio_groups.items()):
        o = os_[0]
        native = native_replay(res, o)
        confirmed = bool(native and native.get('confirmed'))
        new_ob = have_ledger and name not in base_ms
        new_fields = sorted(set(o.meta.get('fields') or ()) - fields0) if fields0 else []
        pin_ok = bool(o.meta.get('pin') and o.meta.get('standin') and o.meta.get('standin') in covered_ok)
        if not confirmed and pin_ok:
            needs_contract.append((name, 'the pinned statement was rewritten (%s) but the bounded stand-in %r that exercises it found no failing input'
                                   % ((o.meta.get('detail') or '')[:80], o.meta.get('standin'))))
            del vio_groups[name]
            continue
        ran = bool(native) and not native.get('error') and isinstance(native.get('observed'), dict) and (native['observed'].get('cases') or 0) > 0
        if not confirmed and o.meta.get('replay_decides') and ran:
            # the clause speaks about the code at a coarser abstraction than the property (e.g. "the direction is the vector transform of the
            # beam axis" as an uninterpreted term): a refutation means the code was written differently, not that it behaves differently; the
            # contract names a native oracle for exactly this clause, it ran on the real code and found no failing input
            needs_contract.append((name, 'the clause is stated over uninterpreted operations (contract flag replay_decides) and its native oracle ran %d cases '
                                   'on the real code without a failing input' % native['observed'].get('cases')))
            del vio_groups[name]
            continue
        if not confirmed and (new_ob or new_fields):
            why = ('obligation not in the ledger (never discharged on the unchanged tree)' if new_ob else
                   'function touches state unknown to the contracts: %s' % ', '.join(new_fields[:4]))
            needs_contract.append((name, why))
            del vio_groups[name]
            continue
        path = write_replay(prop, o, native, outdir)
        tail = '' if confirmed else ' no-failing-input-found'
        print('VIOLATION property=%s replay=%s obligation=%s%s' % (prop, path, name, tail))
    for name, why in needs_contract:
        print('UNDECIDED property=%s obligation=%s refuted but no failing input was reproduced and %s: needs review / a contract' % (prop, name, why))
    # A function that left the verifier's subset cannot be decided deductively.  The property module may supply a bounded native stand-in
    # for it (same hook as the replay builders): a concrete failing input found on the real code is reported as a violation of the
    # pseudo-obligation <function>/outside-subset.bounded-stand-in; anything else stays UNDECIDED.  Never counted as proved.
    from .smt import Obligation as _Ob
    for lab, det in res.unsupported:
        po = _Ob('%s/%s/outside-subset.bounded-stand-in' % (prop, lab), [], None, {'function': lab, 'detail': 'function outside the verifiable subset: %s' % det.splitlines()[0][:200]})
        po.backend = 'none (bounded native stand-in)'
        nat = native_replay(res, po)
        if nat and nat.get('confirmed'):
            path = write_replay(prop, po, nat, outdir)
            vio_groups[po.name] = [po]
            print('VIOLATION property=%s replay=%s obligation=%s (function left the verifiable subset; failing input found by the bounded native stand-in)' % (prop, path, po.name))
        print('UNDECIDED property=%s function=%s outside-subset: %s' % (prop, lab, det.splitlines()[0][:300]))
    for o in unknown:
        print('UNDECIDED property=%s obligation=%s solver-unknown: %s' % (prop, o.name, (o.reason or '')[:120]))
    for lab, det in res.errors:
        print('CHECKER-ERROR property=%s in %s: %s' % (prop, lab, det[:1500]))
    bounded_fail = [b for b in res.bounded if not b.get('ok', True)]
    for n_b, b in enumerate(list(bounded_fail)):
        det = b.get('detail')
        if isinstance(det, dict) and det.get('bad'):
            # the bounded stand-in ran and found concrete failing inputs on the real code: a violation with a failing input (the stand-in
            # is still not a proof when it passes)
            po = _Ob('%s/bounded-stand-in#%d' % (prop, n_b), [], None, {'function': b.get('name'), 'detail': 'bounded stand-in: %s' % b.get('bound')})
            po.backend = 'none (bounded native stand-in)'
            path = write_replay(prop, po, {'confirmed': True, 'input': det['bad'][0], 'observed': det, 'expected': b.get('name')}, outdir)
            vio_groups[po.name] = [po]
            bounded_fail.remove(b)
            print('VIOLATION property=%s replay=%s obligation=%s (failing input found by the bounded native stand-in)' % (prop, path, po.name))
        else:
            print('BOUNDED-CHECK-FAILED property=%s %s: %s' % (prop, b.get('name'), str(det)[:500]))
    ledger_missing = check_ledger(prop, res)
    wall = time.time() - t0
    write_evidence(prop, tier, seed, res, wall, violations=len(vio_groups), known_seen=known_seen)
    n_obl = len(res.obligs)
    print('SUMMARY property=%s tier=%s functions=%d obligations=%d discharged=%d failed=%d (known %d) undecided=%d '
          'unsupported=%d errors=%d wall=%.1fs' % (prop, tier, len(res.functions), n_obl, len(discharged), len(failed),
                                                   len(known_seen), len(unknown), len(res.unsupported), len(res.errors), wall))
    if vio_groups:
        return 1
    if res.errors or n_obl == 0:
        return 3
    if ledger_missing:
        # an obligation that was discharged on the unchanged tree is not generated any more (the code it is generated from changed shape, e.g. a
        # pin named after the attributes a setter writes): nothing was refuted, but the property is not shown to hold either -> undecided
        for m in ledger_missing[:20]:
            print('UNDECIDED property=%s ledger obligation no longer generated (the code it was generated from changed shape): %s: needs review' % (prop, m))
        return 2
    if res.unsupported or unknown or bounded_fail or needs_contract:
        return 2
    return 0


def ledger_times(prop):
    p = os.path.join(VERIF, 'contracts', 'ledger.json')
    if not os.path.exists(p):
        return {}
    with open(p) as f:
        data = json.load(f)
    ent = data.get(prop)
    return ent if isinstance(ent, dict) else {}


def check_ledger(prop, res):
    p = os.path.join(VERIF, 'contracts', 'ledger.json')
    names = sorted({o.name for o in res.obligs})
    if os.environ.get('VERIF_WRITE_LEDGER'):
        data = {}
        if os.path.exists(p):
            with open(p) as f:
                data = json.load(f)
        times = {}
        for o in res.obligs:
            times[o.name] = round(max(times.get(o.name, 0.0), o.ms), 1)
        fields = set()
        for o in res.obligs:
            fields |= set(o.meta.get('fields') or ())
        times['__fields__'] = sorted(fields)
        data[prop] = times
        with open(p, 'w') as f:
            json.dump(data, f, indent=0, sort_keys=True)
        return []
    if not os.path.exists(p):
        return []
    with open(p) as f:
        data = json.load(f)
    want = data.get(prop)
    if want is None:
        return []
    have = set(names)
    return [n for n in want if n not in have and not n.startswith('__')]


def write_evidence(prop, tier, seed, res, wall, violations=0, known_seen=(), error=None):
    evdir = os.environ.get('VERIF_EVIDENCE_DIR') or os.path.join(VERIF, 'evidence')
    os.makedirs(evdir, exist_ok=True)
    path = os.path.join(evdir, '%s.json' % prop)
    if res is None:
        ev = {'property_id': prop, 'tier': tier, 'seed': seed, 'level': 'other',
              'coverage': {'explanation': 'checker error: %s' % error, 'obligations': 0, 'discharged': 0},
              'wall_s': round(wall, 2), 'violations': 0}
        with open(path, 'w') as f:
            json.dump(ev, f, indent=1)
        return
    proved = [o for o in res.obligs if o.meta.get('tier') == 'proved']
    lemmas = [o for o in res.obligs if o.meta.get('tier') == 'lemma']
    by_backend = {}
    for o in res.obligs:
        by_backend[o.backend] = by_backend.get(o.backend, 0) + 1
    groups = {}
    for o in res.obligs:
        g = groups.setdefault(o.name, {'n': 0, 'result': 'unsat', 'ms': 0.0, 'tier': o.meta.get('tier'), 'backend': o.backend})
        g['n'] += 1
        g['ms'] += o.ms
        if o.result != 'unsat':
            g['result'] = o.result
    samples = []
    for o in res.obligs[:3] + res.obligs[len(res.obligs) // 2: len(res.obligs) // 2 + 2]:
        samples.append({'obligation': o.name, 'clause': (o.meta.get('detail') or '')[:200], 'result': o.result,
                        'backend': o.backend, 'ms': round(o.ms, 1)})
    mod = res.mod
    level = getattr(mod, 'LEVEL', 'proof')
    ev = {
        'property_id': prop,
        'tier': tier,
        'seed': seed,
        'level': level,
        'coverage': {
            'obligations': len(res.obligs),
            'discharged': len([o for o in res.obligs if o.result == 'unsat']),
            'checker_cmd': 'bin/check %s %s' % (prop, tier),
            'trusted_base': TRUSTED_BASE,
            'explanation': getattr(mod, 'EXPLANATION', ''),
            'code_obligations': len(proved),
            'code_obligations_discharged': len([o for o in proved if o.result == 'unsat']),
            'lemma_obligations': len(lemmas),
            'lemma_obligations_discharged': len([o for o in lemmas if o.result == 'unsat']),
            'functions_under_contract': res.functions,
            'functions_outside_subset': [{'function': l, 'reason': d[:300]} for l, d in res.unsupported],
            'paths_explored': sum(r.paths for r in res.reports),
            'obligations_by_backend': by_backend,
            'solver_ms_total': round(sum(o.ms for o in res.obligs), 1),
            'obligation_groups': [{'name': n, 'instances': g['n'], 'result': g['result'], 'ms': round(g['ms'], 1),
                                   'tier': g['tier']} for n, g in sorted(groups.items())],
            'samples': samples,
            'bounded': res.bounded,
            'not_applicable_clauses': getattr(mod, 'NOT_APPLICABLE', []),
            'known_findings_seen': [{'obligation': o.name, 'what': k.get('what')} for k, o in known_seen],
            'source_files_sha1': res.files,
            'notes': sorted(res.notes),
        },
        'assumptions': sorted(res.assumptions),
        'wall_s': round(wall, 2),
        'violations': violations,
    }
    with open(path, 'w') as f:
        json.dump(ev, f, indent=1, default=str)


def replay_main(path):
    with open(path) as f:
        data = json.load(f)
    prop = data['property']
    print('replaying obligation %s of %s on the current tree' % (data['obligation'], prop))
    repo = os.environ.get('VERIF_REPO', '/repo')
    res = run_property(prop, 'quick', 0, repo)
    hit = [o for o in res.obligs if o.name == data['obligation']]
    bad = [o for o in hit if o.result == 'sat']
    for o in bad:
        print('obligation still refuted; model:', json.dumps(o.model, default=str)[:2000])
        nat = native_replay(res, o)
        if nat:
            print('native replay:', json.dumps(nat, default=str)[:3000])
    if bad:
        print('VIOLATION property=%s replay=%s' % (prop, path))
        return 1
    print('obligation discharged on the current tree' if hit else 'obligation not generated on the current tree')
    return 0


if __name__ == '__main__':
    sys.exit(main(sys.argv[1:]))
