"""Engine: verify one function of the real source against its sidecar contract."""
import ast
import time
import traceback
import z3

from .values import (Ref, NONE, Obj, Unsupported, spec_from_ctype, sortkey, is_z3, concrete, alloc0, to_ref)
from .eng_core import CoreMixin, State, Frame
from .eng_expr import ExprMixin
from .eng_call import CallMixin, ExcVal
from .eng_stmt import StmtMixin
from .eng_spec import SpecMixin, parse_expr
from .smt import Obligation


class PathView:
    """What a callable ensures-clause sees of one terminating path."""
    def __init__(self, eng, st, entry, result, frame, kind, exc):
        self.eng, self.st, self.entry, self.result, self.frame, self.kind, self.exc = eng, st, entry, result, frame, kind, exc

    def term(self, text, **bind):
        f = self.eng.spec_frame(self.frame, self.st, self.entry, dict(self.entry.locals, result=self.result, **bind))
        return self.eng.spec_term(text, self.st, f)

    def value(self, text, **bind):
        f = self.eng.spec_frame(self.frame, self.st, self.entry, dict(self.entry.locals, result=self.result, **bind))
        return self.eng.spec_value(text, self.st, f)

    def calls(self, label):
        return [e for e in self.st.log if e.label == label or e.label.endswith('.' + label)]


class FunctionReport:
    def __init__(self, contract):
        self.contract = contract
        self.obligations = []
        self.paths = 0
        self.status = 'ok'          # ok | unsupported | error
        self.detail = ''
        self.assumptions = set()
        self.notes = set()
        self.used_contracts = set()
        self.wall_s = 0.0


class Engine(CoreMixin, ExprMixin, CallMixin, StmtMixin, SpecMixin):
    def __init__(self, tree, registry, externals=None, global_attrs=None, named_constants=None):
        self.tree = tree
        self.registry = registry
        self.externals = externals or {}
        self.global_attrs = global_attrs or {}
        self.named_constants = named_constants or set()
        self.max_inline_depth = 8
        self.max_paths = 400
        self.feas_timeout_ms = 1000

    def make_frame_for_file(self, file):
        dummy = ast.parse('def _m(): pass').body[0]
        dummy.flags = {}
        fr = Frame(dummy, file, None, self.contract)
        fr.spec = None
        return fr

    def verify(self, contract):
        rep = FunctionReport(contract)
        t0 = time.time()
        self.contract = contract
        self.tree.prefer_stem = self.tree.abspath(contract.file).rsplit('.', 1)[0]
        self.init_core()
        self.notes = set()
        self.used_contracts = set()
        self.max_paths = contract.flags.get('max_paths', 400)
        try:
            try:
                self._verify(contract, rep)
            finally:
                rep.fields = set(getattr(self, 'heap0', {}) or {})
        except Unsupported as e:
            rep.status = 'unsupported'
            rep.detail = str(e)
            import os
            if os.environ.get('VERIF_DEBUG'):
                print('DEBUG unsupported in %s: %s' % (contract.label, e))
                traceback.print_exc()
        except KeyError as e:
            rep.status = 'unsupported'
            rep.detail = 'contract anchor not found: %s' % (e,)
        except z3.Z3Exception as e:
            rep.status = 'error'
            rep.detail = 'z3: %s\n%s' % (e, traceback.format_exc()[-1500:])
        except Exception as e:
            rep.status = 'error'
            rep.detail = '%r\n%s' % (e, traceback.format_exc()[-2500:])
        # finalise obligations: add valid facts / axioms to every hypothesis set
        extra = list(self.facts)
        if self.uses_alloc:
            extra += self.alloc_axioms()
        for o in self.obligs:
            if o.expect_sat:
                # vacuity covers: the preconditions together with the contract's assumed axioms (instantiated library facts are
                # valid and cannot make them contradictory)
                o.hyps = o.hyps + list(self.axiom_facts)
            else:
                o.hyps = o.hyps + extra
        rep.obligations = self.obligs
        rep.assumptions = set(self.assumptions)
        for a in contract.axioms:
            rep.assumptions.add('axiom (%s): %s' % (contract.label, a))
        rep.notes = set(self.notes)
        rep.used_contracts = set(self.used_contracts)
        rep.wall_s = time.time() - t0
        return rep

    def _verify(self, c, rep):
        fn = self.tree.find_func(c.file, c.qualname)
        if getattr(fn, 'unsupported', None):
            raise Unsupported(fn.unsupported)
        parts = c.qualname.split('.')
        cls = c.self_cls
        if cls is None and len(parts) > 1:
            cls = parts[0]
        fr = Frame(fn, c.file, parts[0] if len(parts) > 1 else None, c, 0)
        fr.spec = None
        st = State()
        a = fn.args
        params = a.posonlyargs + a.args + a.kwonlyargs
        for i, p in enumerate(params):
            spec = c.sorts.get(p.arg)
            if spec is None:
                ct = getattr(p, 'ctype', None)
                spec = spec_from_ctype(ct) if ct else None
            if p.arg == 'self' and spec is None:
                spec = 'ref:%s' % cls
            if spec == 'py:none':
                st.locals[p.arg] = None
                continue
            if isinstance(spec, str) and spec.startswith('py:builtin:'):
                from .values import Builtin
                st.locals[p.arg] = Builtin(spec.split(':')[2])
                continue
            if isinstance(spec, (tuple, list)) or (isinstance(spec, str) and spec.startswith('py:')):
                st.locals[p.arg] = self.python_param(p.arg, spec)
                continue
            nonnull = bool(spec) and spec.endswith('!')
            if nonnull:
                spec = spec[:-1]
            v = self.sym_for_spec(p.arg, spec, fresh=False)
            st.locals[p.arg] = v
            if isinstance(v, Obj):
                st.pc.append(alloc0(v.ref))
                if getattr(p, 'not_none', False) or p.arg == 'self' or nonnull:
                    st.pc.append(v.ref != NONE)
        if a.vararg is not None:
            st.locals[a.vararg.arg] = c.sorts.get(a.vararg.arg, ())
            if not isinstance(st.locals[a.vararg.arg], tuple):
                raise Unsupported('*args needs a concrete tuple in the contract')
        if a.kwarg is not None:
            st.locals[a.kwarg.arg] = {}
        # mode fp64: double parameters become Float64
        if c.flags.get('mode') == 'fp64':
            for p in params:
                if spec_from_ctype(getattr(p, 'ctype', None) or '') == 'real' or c.sorts.get(p.arg) == 'real':
                    st.locals[p.arg] = z3.FP(p.arg, z3.Float64())
        if 'loop_body' in c.flags or 'stmts_from' in c.flags or c.flags.get('stmts_after_loop'):
            for nm, spec in c.sorts.items():
                if nm not in st.locals:
                    if isinstance(spec, (tuple, list)):
                        st.locals[nm] = self.python_param(nm, spec)
                    else:
                        v = self.sym_for_spec(nm, spec.rstrip('!'), fresh=False)
                        st.locals[nm] = v
                        if isinstance(v, Obj):
                            st.pc.append(alloc0(v.ref))
                        if isinstance(v, Obj) and spec.endswith('!'):
                            st.pc.append(v.ref != NONE)
        for nm, spec in (c.flags.get('locals') or {}).items():
            # locals that are not yet assigned when a loop invariant mentions them: arbitrary (uninitialised) values
            st.locals[nm] = self.sym_for_spec(nm, spec, fresh=False)
        entry = st.copy()
        sframe = self.spec_frame(fr, st, entry)
        for ax in c.axioms:
            self.add_fact(('axiom', ax), self.spec_term(ax, st, sframe))
        for req in c.requires:
            st.pc.append(self.spec_term(req, st, sframe))
        entry = st.copy()
        # vacuity guard: the precondition must be satisfiable
        cov = Obligation('%s/%s/cover.requires' % (c.prop, c.label), self.hyps(st), None, expect_sat=True)
        self.obligs.append(cov)
        body = fn.body
        if 'loop_body' in c.flags:
            # verify one arbitrary iteration of the loop with the given ordinal: the body is extracted mechanically, free
            # names are symbolic values of the sorts declared in the contract (what is dropped: the statements around the loop)
            target = [x for x in ast.walk(fn) if isinstance(x, (ast.For, ast.While)) and fr.loop_ord.get(id(x)) == c.flags['loop_body']]
            if not target:
                raise KeyError('loop %r of %s' % (c.flags['loop_body'], c.qualname))
            body = target[0].body
            self.notes.add('loop %r of %s verified as an arbitrary iteration (statements around the loop are outside this contract)'
                           % (c.flags['loop_body'], c.qualname))
        if 'stmts_from' in c.flags:
            # verify the tail of the function starting at the first top-level statement with the given text (extracted mechanically)
            idxs = [i for i, s_ in enumerate(fn.body) if ast.unparse(s_) == c.flags['stmts_from']]
            if not idxs:
                raise KeyError('statement %r of %s' % (c.flags['stmts_from'], c.qualname))
            body = fn.body[idxs[0]:]
            self.notes.add('%s verified from statement %r on (the statements before it are outside this contract)' % (c.qualname, c.flags['stmts_from']))
        if c.flags.get('stmts_before_loop'):
            # verify the head of the function up to (not including) its first top-level loop (extracted mechanically)
            k = next((i for i, s_ in enumerate(body) if isinstance(s_, (ast.For, ast.While))), len(body))
            body = body[:k]
            self.notes.add('%s verified up to its first top-level loop (the loop and the statements after it are outside this contract)' % c.qualname)
        if c.flags.get('stmts_after_loop'):
            # verify the tail of the function that follows its first top-level loop (extracted mechanically)
            k = next((i for i, s_ in enumerate(body) if isinstance(s_, (ast.For, ast.While))), None)
            if k is None:
                raise KeyError('no top-level loop in %s' % c.qualname)
            body = body[k + 1:]
            self.notes.add('%s verified from the statement after its first top-level loop on (the statements up to and including that loop '
                           'are outside this contract)' % c.qualname)
        outs = self.exec_block(body, st, fr)
        if 'loop_body' in c.flags:
            outs = [('normal' if k == 'continue' else k, s_, v_) for k, s_, v_ in outs]
        rep.paths = len(outs)
        npath = 0
        for kind, s, val in outs:
            if kind in ('break', 'continue'):
                raise Unsupported('break/continue outside loop')
            npath += 1
            result = val if kind == 'return' else None
            ct = getattr(fn, 'ret_ctype', None)
            if kind != 'raise' and ct and result is not None:
                result = self.coerce_ctype(result, ct)
            if kind == 'raise':
                self.check_raise(c, s, entry, fr, val)
            else:
                self.check_post(c, s, entry, fr, result)
            self.check_frame(c, s, entry, fr, kind)
        if npath == 0:
            self.obligs.append(Obligation('%s/%s/cover.paths' % (c.prop, c.label), [z3.BoolVal(False)], None, expect_sat=True))

    def python_param(self, name, spec):
        """Concrete-shape Python container parameter: ('tuple', [spec...]) / ('list', [...])."""
        if isinstance(spec, (tuple, list)):
            kind, elems = spec
            if kind == 'dict':
                return {}
            vals = [self.sym_for_spec('%s_%d' % (name, i), e, fresh=False) for i, e in enumerate(elems)]
            return tuple(vals) if kind == 'tuple' else list(vals)
        raise Unsupported('python param spec %r' % (spec,))

    def clause_items(self, clauses):
        for i, ens in enumerate(clauses):
            if isinstance(ens, tuple):
                yield ens[0], ens[1]
            else:
                yield str(i), ens

    def check_post(self, c, s, entry, fr, result):
        f = self.spec_frame(fr, s, entry, dict(entry.locals, result=result))
        for name, clause in self.clause_items(c.ensures):
            if callable(clause):
                P = PathView(self, s, entry, result, fr, 'return', None)
                try:
                    r = clause(P)
                except Unsupported as e:
                    # the observed values do not have the shape the clause talks about (e.g. an object where a number is expected)
                    r = [(name + '.shape', z3.BoolVal(False))]
                    self.notes.add('clause %s of %s could not be evaluated on one path: %s' % (name, c.label, e))
                items = r if isinstance(r, list) else [(name, r)]
                for nm, term in items:
                    if term is None:
                        continue
                    self.emit(s, 'post.%s' % nm, term, getattr(clause, '__doc__', '') or '')
                continue
            self.emit(s, 'post.%s' % name, self.spec_term(clause, s, f), clause)
        for exc, cond in c.raises.items():
            t = self.spec_term(cond, entry.copy(), self.spec_frame(fr, entry, entry))
            self.emit(s, 'noraise.%s' % exc, z3.Not(t), 'normal return only when not (%s)' % cond)

    def check_raise(self, c, s, entry, fr, exc):
        name = exc.name
        if name in c.raises:
            t = self.spec_term(c.raises[name], entry.copy(), self.spec_frame(fr, entry, entry))
            self.emit(s, 'raises.%s' % name, t, 'raise %s only when (%s)' % (name, c.raises[name]))
            for nm, clause in self.clause_items(c.flags.get('raises_ensures', {}).get(name, [])):
                f = self.spec_frame(fr, s, entry, dict(entry.locals, result=None))
                self.emit(s, 'raises.%s.post.%s' % (name, nm), self.spec_term(clause, s, f), clause)
        elif name in c.raises_any:
            cond = (c.flags.get('raise_requires') or {}).get(name)
            if cond:
                t = self.spec_term(cond, entry.copy(), self.spec_frame(fr, entry, entry))
                self.emit(s, 'raises.%s.only_when' % name, t, '%s may escape only when (%s)' % (name, cond))
            return
        else:
            self.emit(s, 'raises.unexpected.%s' % name, False, 'no %s may escape' % name)

    def check_frame(self, c, s, entry, fr, kind):
        if c.modifies is None:
            return
        allowed = set(c.modifies)
        for fid, h in s.heap.items():
            if fid in allowed or fid.rsplit(':', 1)[0] in allowed:
                continue
            h0 = entry.heap.get(fid, self.heap0.get(fid))
            if h0 is None or h is h0 or h.eq(h0):
                continue
            # writes to objects allocated by this function are not observable
            r = z3.Const('r!fr', Ref)
            self.emit(s, 'frame.%s' % fid, z3.ForAll([r], z3.Implies(alloc0(r), h[r] == h0[r])),
                      'field %s of pre-existing objects unchanged' % fid)
