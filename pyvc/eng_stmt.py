"""Statements, loops (inductive invariants), try/except, and the contract (spec) language."""
import ast
import z3

from .values import (Ref, NONE, Obj, Unsupported, FuncVal, BoundMethod, ClassVal, ModuleVal, Builtin, SuperVal, Event,
                     SORTS, spec_from_ctype, sortkey, coerce, is_z3, is_real, is_int, is_bool, is_str, is_ref, is_fp,
                     to_real, to_int, to_ref, to_str, to_bool_term, num_args, real_const, concrete)
from .eng_core import State, Frame
from .values import SymDict
from .eng_call import RangeVal, ExcVal, ZipVal, EnumVal


class StmtMixin:
    # ------------------------------------------------------------------ blocks
    def exec_block(self, stmts, st, fr):
        outs = [('normal', st, None)]
        for stmt in stmts:
            new = []
            for kind, s, v in outs:
                if kind != 'normal':
                    new.append((kind, s, v))
                else:
                    new.extend(self.exec_stmt(stmt, s, fr))
            outs = new
            self.path_budget(outs)
        return outs

    def path_budget(self, outs):
        if len(outs) > self.max_paths:
            raise Unsupported('path explosion (> %d paths)' % self.max_paths)

    def flush(self, st):
        """Turn exceptional exits registered during expression evaluation into raise outcomes."""
        outs = []
        for (cond, exc, pc, heap, log) in st.pending:
            s = st.copy()
            s.pc = pc
            s.heap = heap
            s.log = log
            s.pending = []
            s.guards = []
            if self.feasible(s):
                outs.append(('raise', s, ExcVal(exc)))
        st.pending = []
        return outs

    def exec_stmt(self, node, st, fr):
        m = getattr(self, 'x_' + type(node).__name__, None)
        if m is None:
            raise Unsupported('statement %s (line %s)' % (type(node).__name__, getattr(node, 'lineno', '?')))
        return m(node, st, fr)

    def branch(self, st, cond):
        """Split a state on a (possibly symbolic) truth value: [(state, taken?)]."""
        if isinstance(cond, bool):
            return [(st, cond)]
        out = []
        a = st.copy()
        a.pc.append(cond)
        a.ctrl.append(cond)
        if self.feasible(a):
            out.append((a, True))
        b = st
        b.pc.append(z3.Not(cond))
        b.ctrl.append(z3.Not(cond))
        if self.feasible(b):
            out.append((b, False))
        return out

    # ------------------------------------------------------------------ simple statements
    def x_Pass(self, node, st, fr):
        return [('normal', st, None)]

    def x_Global(self, node, st, fr):
        return [('normal', st, None)]

    def x_Expr(self, node, st, fr):
        if isinstance(node.value, ast.Constant):
            return [('normal', st, None)]
        if isinstance(node.value, ast.Call):
            return self.call_stmt(node.value, st, fr, lambda s, v: None)
        self.ev(node.value, st, fr)
        return self.flush(st) + [('normal', st, None)]

    def x_Return(self, node, st, fr):
        if node.value is None:
            return [('return', st, None)]
        if isinstance(node.value, ast.Call):
            outs = self.call_stmt(node.value, st, fr, lambda s, v: s.locals.__setitem__('$ret', v))
            res = []
            for k, s, v in outs:
                if k == 'normal':
                    res.append(('return', s, s.locals.pop('$ret', None)))
                else:
                    res.append((k, s, v))
            return res
        v = self.ev(node.value, st, fr)
        return self.flush(st) + [('return', st, v)]

    def x_Raise(self, node, st, fr):
        if node.exc is None:
            exc = st.locals.get('$exc')
            if exc is None:
                raise Unsupported('bare raise outside handler')
            return [('raise', st, exc)]
        # do not evaluate message arguments (string formatting): only the class matters
        e = node.exc
        if isinstance(e, ast.Call):
            cname = ast.unparse(e.func).split('.')[-1]
        else:
            cname = ast.unparse(e).split('.')[-1]
        if cname in st.locals and isinstance(st.locals[cname], ExcVal):
            return [('raise', st, st.locals[cname])]
        return [('raise', st, ExcVal(cname))]

    def x_Assert(self, node, st, fr):
        t = self.truth(self.ev(node.test, st, fr), st)
        outs = self.flush(st)
        for s, taken in self.branch(st, t):
            outs.append(('normal', s, None) if taken else ('raise', s, ExcVal('AssertionError')))
        return outs

    def x_Delete(self, node, st, fr):
        raise Unsupported('del statement')

    def x_AnnAssign(self, node, st, fr):
        if node.value is None:
            import re as _re
            ct = node.annotation.value if isinstance(node.annotation, ast.Constant) else None
            m = _re.match(r'^([\w. ]+)\[(\d+)\]$', ct or '')
            if m and isinstance(node.target, ast.Name):
                # local C array: a fixed-size list of (uninitialised, i.e. arbitrary) values
                key = sortkey(spec_from_ctype(m.group(1)))
                st.locals[node.target.id] = [self.fresh('%s_%d' % (node.target.id, i), key) for i in range(int(m.group(2)))]
            return [('normal', st, None)]
        fake = ast.Assign(targets=[node.target], value=node.value)
        ast.copy_location(fake, node)
        return self.x_Assign(fake, st, fr)

    def x_Assign(self, node, st, fr):
        if isinstance(node.value, ast.Call) and len(node.targets) == 1:
            tgt = node.targets[0]
            return self.call_stmt(node.value, st, fr, lambda s, v: self.assign(tgt, v, s, fr))
        v = self.ev(node.value, st, fr)
        if len(node.targets) == 1 and isinstance(node.targets[0], ast.Attribute) and getattr(fr, 'spec', None) is None:
            # obj.prop = v where prop has a setter in the repo that will be inlined: keep every exit path of the setter as its own path
            tgt = node.targets[0]
            base = self.ev(tgt.value, st, fr)
            if isinstance(base, Obj) and base.cls:
                ci, prop = self.tree.lookup_property(base.cls, tgt.attr)
                if prop is not None and 'set' in prop and self.tree.attr_ctype(base.cls, tgt.attr) is None:
                    fv = FuncVal(ci.file, '%s.%s.setter' % (ci.name, tgt.attr), prop['set'], cls=ci.name)
                    if self.will_inline(fv, fr):
                        self.wrapping_decorators(fv)
                        return self.inline_paths(fv, [base, v], {}, base.cls, st, fr, lambda s_, v_: None)
        outs = self.flush(st)
        for t in node.targets:
            self.assign(t, v, st, fr)
        outs += self.flush(st)
        outs.append(('normal', st, None))
        return outs

    def x_AugAssign(self, node, st, fr):
        load = ast.copy_location(type(node.target)(**{k: getattr(node.target, k) for k in node.target._fields}), node.target)
        load.ctx = ast.Load()
        cur = self.ev(load, st, fr)
        rhs = self.ev(node.value, st, fr)
        v = self.binop(node.op, cur, rhs, st, fr, node)
        outs = self.flush(st)
        self.assign(node.target, v, st, fr)
        outs += self.flush(st)
        outs.append(('normal', st, None))
        return outs

    def call_stmt(self, call, st, fr, sink):
        """Statement-level call: when the callee is inlined, every exit path is kept as its own path (no merging)."""
        target = self.resolve_inline_target(call, st, fr)
        if target is None:
            v = self.ev(call, st, fr)
            outs = self.flush(st)
            sink(st, v)
            outs += self.flush(st)
            outs.append(('normal', st, None))
            return outs
        fv, args, kwargs, dyn_cls = target
        if self.wrapping_decorators(fv):
            # memoised callee: shared result object (see eng_call.memoised_result)
            sink0 = sink
            sink = lambda s_, v_: sink0(s_, self.memoised_result(fv, v_, args, kwargs, s_))
        return self.inline_paths(fv, args, kwargs, dyn_cls, st, fr, sink)

    def inline_paths(self, fv, args, kwargs, dyn_cls, st, fr, sink):
        pre = self.flush(st)
        frame = Frame(fv.node, fv.file, fv.cls, fr.contract, fr.depth + 1)
        frame.spec = None
        frame.try_depth = list(fr.try_depth)
        if fr.depth + 1 > self.max_inline_depth:
            raise Unsupported('inline depth exceeded at %s' % fv.qualname)
        env = self.bind_params(fv.node, args, kwargs, st, frame, fv.cls)
        if fv.cls and 'self' in env and isinstance(env['self'], Obj) and env['self'].cls is None:
            env['self'] = Obj(env['self'].ref, dyn_cls or fv.cls)
        caller_locals = st.locals
        sub = st
        sub.locals = env
        outs = list(pre)
        for kind, s, val in self.exec_block(fv.node.body, sub, frame):
            if kind == 'raise':
                s.locals = dict(caller_locals)
                outs.append(('raise', s, val))
                continue
            if kind not in ('normal', 'return'):
                raise Unsupported('break/continue escaping function %s' % fv.qualname)
            s.locals = dict(caller_locals)
            sink(s, self.ret_coerce(fv, val if kind == 'return' else None))
            outs += self.flush(s)
            outs.append(('normal', s, None))
        return outs

    def resolve_inline_target(self, call, st, fr):
        """If `call` is a direct call of a repo function that will be inlined, return (FuncVal, args, kwargs, dyn_cls)."""
        if getattr(fr, 'spec', None) is not None:
            return None
        try:
            snap_pc, snap_pend = len(st.pc), len(st.pending)
            if isinstance(call.func, ast.Attribute):
                if isinstance(call.func.value, ast.Call) and ast.unparse(call.func.value) == 'super()':
                    base = SuperVal(st.locals.get('self'), fr.cls)
                else:
                    probe = call.func.value
                    if not isinstance(probe, (ast.Name, ast.Attribute)):
                        return None
                    # evaluating a property getter could have effects; only plain names / attributes of self
                    if isinstance(probe, ast.Attribute) and not isinstance(probe.value, ast.Name):
                        return None
                    base = self.ev(probe, st, fr)
                name = call.func.attr
                fv = None
                dyn = None
                if isinstance(base, SuperVal):
                    cls0 = base.obj.cls if isinstance(base.obj, Obj) and base.obj.cls else base.after_cls
                    mro = self.tree.mro(cls0)
                    start = mro.index(base.after_cls) + 1 if base.after_cls in mro else 0
                    for nm in mro[start:]:
                        ci = self.tree.class_info(nm)
                        if ci is not None and name in ci.methods:
                            fv = FuncVal(ci.file, ci.name + '.' + name, ci.methods[name], cls=ci.name)
                            break
                    recv = base.obj
                    dyn = cls0
                elif isinstance(base, Obj) and base.cls:
                    ext0 = self.external_spec(['%s.%s' % (nm_, name) for nm_ in self.tree.mro(base.cls)], fr)
                    if ext0 is not None and ext0.get('override'):
                        return None
                    ci, meth = self.tree.lookup_method(base.cls, name)
                    if meth is not None and not getattr(meth, 'declaration_only', False):
                        fv = FuncVal(ci.file, ci.name + '.' + name, meth, cls=ci.name)
                    recv = base
                    dyn = base.cls
                if fv is None:
                    return None
                if not self.will_inline(fv, fr):
                    return None
                args, kwargs = self.eval_args(call, st, fr)
                return fv, [recv] + list(args), kwargs, dyn
            if isinstance(call.func, ast.Name):
                if call.func.id in st.locals:
                    return None
                try:
                    f = self.lookup_name(call.func.id, st, fr)
                except Unsupported:
                    return None
                if isinstance(f, FuncVal) and self.will_inline(f, fr):
                    args, kwargs = self.eval_args(call, st, fr)
                    return f, list(args), kwargs, None
            return None
        except Unsupported:
            raise

    def will_inline(self, fv, fr):
        root = self.contract
        simple = fv.qualname.split('.')[-1]
        if getattr(fv.node, 'unsupported', None):
            return False
        if fv.qualname in root.inline or simple in root.inline or '*' in root.inline:
            return True
        if self.registry.lookup(fv.file, fv.qualname) is not None:
            return False
        if self.external_spec([fv.qualname, simple] + (['%s.%s' % (fv.cls, simple)] if fv.cls else []), fr) is not None:
            return False
        return bool(self.flag('auto_inline', True))

    # ------------------------------------------------------------------ assignment
    def assign(self, target, v, st, fr):
        if isinstance(target, ast.Name):
            ct = fr.ctypes.get(target.id)
            if ct and v is not None:
                v = self.coerce_ctype(v, ct)
            elif isinstance(v, Obj) and v.kind is None and fr.depth == 0:
                # untyped Python local: the contract may declare what kind of object it holds (e.g. an array)
                sp = self.contract.sorts.get(target.id)
                if isinstance(sp, str) and (sp.startswith('arr:') or sp.startswith('seq:') or sp.startswith('ref:')):
                    w = self.wrap(v.ref, sp.rstrip('!'))
                    v = w
            st.locals[target.id] = v
            return
        if isinstance(target, (ast.Tuple, ast.List)):
            if isinstance(v, (tuple, list)):
                if len(v) != len(target.elts):
                    raise Unsupported('unpacking length mismatch')
                for t, x in zip(target.elts, v):
                    self.assign(t, x, st, fr)
                return
            if isinstance(v, Obj) and v.kind in ('seq', 'arr') and v.ndim == 1:
                for k, t in enumerate(target.elts):
                    self.assign(t, self.arr_read(st, v, [k]), st, fr)
                return
            if isinstance(v, Obj) and v.kind is None:
                # an opaque object unpacked as a tuple: its items are the entries of the sequence view of the object
                seq = Obj(v.ref, 'tuple', 'seq', 'ref', 1)
                for k, t in enumerate(target.elts):
                    self.assign(t, self.arr_read(st, seq, [k]), st, fr)
                return
            raise Unsupported('unpacking of %r' % (v,))
        if isinstance(target, ast.Attribute):
            base = self.ev(target.value, st, fr)
            if not isinstance(base, Obj):
                raise Unsupported('attribute store on %r' % (base,))
            if base.cls:
                ci, prop = self.tree.lookup_property(base.cls, target.attr)
                if prop is not None and 'set' in prop and self.tree.attr_ctype(base.cls, target.attr) is None:
                    fv = FuncVal(ci.file, '%s.%s.setter' % (ci.name, target.attr), prop['set'], cls=ci.name)
                    self.call_function(fv, [base, v], {}, st, fr, None, dyn_cls=base.cls)
                    return
            ext = self.external_spec(['setattr.' + target.attr], fr)
            if ext is not None:
                self.apply_external(ext, 'setattr.' + target.attr, base, [v], {}, st, fr, None)
                return
            spec = self.attr_spec(fr, base, target.attr)
            if spec is None and v is not None and not isinstance(v, (Obj, tuple, list, dict)):
                # untyped Python attribute: its heap sort follows the value stored
                if isinstance(v, bool) or is_bool(v):
                    spec = 'bool'
                elif isinstance(v, int) or is_int(v):
                    spec = 'int'
                elif isinstance(v, str) or is_str(v):
                    spec = 'str'
                elif is_z3(v) and is_real(v):
                    spec = 'real'
                if spec is not None:
                    self.inferred_attrs[target.attr] = spec
            ct = self.tree.attr_ctype(base.cls, target.attr) if base.cls else None
            if ct and v is not None:
                v = self.coerce_ctype(v, ct)
            v = self.box_for_store(v, st, spec)
            self.write_attr(st, base, target.attr, spec, v)
            return
        if isinstance(target, ast.Subscript):
            base = self.ev(target.value, st, fr)
            if isinstance(target.slice, ast.Slice) and isinstance(target.value, ast.Name) and isinstance(v, (list, tuple)) \
                    and not isinstance(base, Obj) and target.slice.lower is None and target.slice.upper is None and target.slice.step is None:
                # c_array[:] = [a, b, ...] on a C array LOCAL (e.g. npy_intp dims[2]): the local becomes that tuple of values
                self.assign(target.value, tuple(v), st, fr)
                return
            if isinstance(target.slice, ast.Slice):
                # a[lo:hi] = b on a 1-D array: element-wise copy (the new contents are a lambda over the old ones: no quantifier needed)
                sl = target.slice
                if isinstance(base, Obj) and base.kind == 'arr' and base.view is None and sl.lower is None and sl.upper is None and sl.step is None \
                        and not (base.ndim == 1 and isinstance(v, Obj) and v.kind in ('arr', 'seq') and v.ndim == 1):
                    # a[:] = <value that is not a modelled 1-D sequence> (e.g. a reversed or multi-dimensional view): every element of `a` is
                    # overwritten; the new contents are not modelled - an arbitrary (fresh) contents value, same object, same shape
                    fid = self.arr_fid(base)
                    f = self.field(st, fid)
                    self.counter += 1
                    st.heap[fid] = z3.Store(f, base.ref, z3.Const('contents!%d' % self.counter, f.range()))
                    self.notes.add('whole-array assignment %s[:] = ... : new contents treated as arbitrary' % ast.unparse(target.value))
                    return
                if not (isinstance(base, Obj) and base.kind in ('arr', 'seq') and base.ndim == 1 and base.view is None and sl.step is None
                        and isinstance(v, Obj) and v.kind in ('arr', 'seq') and v.ndim == 1):
                    raise Unsupported('slice assignment')
                n = self.arr_len(st, base)
                lo = to_int(self.ev(sl.lower, st, fr)) if sl.lower is not None else z3.IntVal(0)
                hi = to_int(self.ev(sl.upper, st, fr)) if sl.upper is not None else n
                what = ast.unparse(target.value)
                # numpy semantics for 0 <= lo <= hi <= n and len(b) == hi - lo (anything else: clipping / broadcasting, not modelled)
                self.emit(st, 'defined.slice.%s' % what, z3.And(lo >= 0, lo <= hi, hi <= n, self.arr_len(st, v) == hi - lo),
                          'slice within the array and source of the same length')
                fid = self.arr_fid(base)
                f = self.field(st, fid)
                old = z3.Select(f, base.ref)
                src = z3.Select(self.field(st, self.arr_fid(v)), v.ref)
                self.counter += 1
                kk = z3.Int('k!sl%d' % self.counter)
                srcv = z3.Select(src, kk - lo)
                if v.elem != base.elem:
                    srcv = coerce(srcv, base.elem)
                new = z3.Lambda([kk], z3.If(z3.And(kk >= lo, kk < hi), srcv, z3.Select(old, kk)))
                st.heap[fid] = z3.Store(f, base.ref, new)
                return
            if isinstance(target.slice, ast.Tuple) and len(target.slice.elts) == 2 and isinstance(base, Obj) and base.kind == 'arr' and base.ndim == 2 \
                    and base.view is None and not isinstance(target.slice.elts[0], ast.Slice) and isinstance(target.slice.elts[1], ast.Slice) \
                    and not (target.slice.elts[1].lower or target.slice.elts[1].upper or target.slice.elts[1].step) \
                    and isinstance(v, Obj) and v.kind == 'arr' and v.ndim == 1 and v.view is None:
                # a[r, :] = b on a 2-D array with a 1-D source: row r becomes a copy of b (b of the row length), every other row is kept
                r_ = to_int(self.ev(target.slice.elts[0], st, fr))
                what = ast.unparse(target.value)
                if not self.flag('skip_bounds') or what not in self.flag('skip_bounds'):
                    self.emit(st, 'bounds.%s' % what, z3.And(r_ >= 0, r_ < self.arr_len(st, base, 0)), 'row index within the array')
                self.emit(st, 'defined.slice.%s' % what, self.arr_len(st, v) == self.arr_len(st, base, 1), 'source as long as a row')
                fid = self.arr_fid(base)
                f = self.field(st, fid)
                old = z3.Select(f, base.ref)
                src = z3.Select(self.field(st, self.arr_fid(v)), v.ref)
                self.counter += 1
                rr, cc = z3.Int('r!sl%d' % self.counter), z3.Int('c!sl%d' % self.counter)
                srcv = z3.Select(src, cc)
                if v.elem != base.elem:
                    srcv = coerce(srcv, base.elem)
                st.heap[fid] = z3.Store(f, base.ref, z3.Lambda([rr, cc], z3.If(rr == r_, srcv, z3.Select(old, rr, cc))))
                return
            if isinstance(target.slice, ast.Tuple) and any(isinstance(e, ast.Slice) for e in target.slice.elts):
                # a[:, k] = v on an opaque array object: handed to the declared __setitem__ external with ':' for a full slice
                ext = isinstance(base, Obj) and self.external_spec((['%s.__setitem__' % base.cls] if base.cls else []) + ['.__setitem__'], fr)
                if not ext or any(isinstance(e, ast.Slice) and (e.lower or e.upper or e.step) for e in target.slice.elts):
                    raise Unsupported('slice assignment')
                idxs = [':' if isinstance(e, ast.Slice) else self.ev(e, st, fr) for e in target.slice.elts]
                self.apply_external(ext, '.__setitem__', base, idxs + [v], {}, st, fr, None)
                return
            idx = self.ev(target.slice, st, fr)
            if isinstance(base, Obj) and base.kind in ('arr', 'seq'):
                idxs = list(idx) if isinstance(idx, tuple) else [idx]
                if len(idxs) != base.ndim:
                    raise Unsupported('partial index store')
                what = ast.unparse(target.value)
                norm = [self.normalise_index(st, base, i, self.arr_len(st, base, ax), fr,
                                             what + ('' if base.ndim == 1 else '@%d' % ax)) for ax, i in enumerate(idxs)]
                self.arr_write(st, base, norm, v)
                return
            if isinstance(base, list) and isinstance(concrete(idx), int):
                base[concrete(idx)] = v
                return
            if isinstance(base, list) and base and is_z3(idx) and idx.sort().kind() in (z3.Z3_INT_SORT, z3.Z3_REAL_SORT) \
                    and all(is_z3(b) or isinstance(b, (int, float)) for b in base) and (is_z3(v) or isinstance(v, (int, float))):
                # store at a symbolic position of a fixed-length local sequence (e.g. `cdef double p[3]`): the position must be in range
                # (C arrays: 0 <= i < n, no wrap-around; Python lists wrap negative positions), every slot becomes a case split on the position
                from .values import to_int as _ti, to_real as _tr
                i = _ti(idx); n = len(base)
                what = ast.unparse(target.value)
                if fr.is_cython:
                    self.emit(st, 'bounds.%s' % what, z3.And(i >= 0, i < n), 'position inside the fixed-size C array')
                else:
                    self.emit(st, 'defined.index.%s' % what, z3.And(i >= -n, i < n), 'index in range')
                    if self.feasible(st, i < 0):
                        i = z3.If(i < 0, i + n, i)
                real = any((is_z3(b) and b.sort().kind() == z3.Z3_REAL_SORT) or isinstance(b, float) for b in list(base) + [v])
                cv = (lambda t: _tr(t)) if real else (lambda t: _ti(t))
                for k in range(n):
                    base[k] = z3.If(i == k, cv(v), cv(base[k]))
                return
            if isinstance(base, SymDict):
                for n_, (k, _) in enumerate(base.items):
                    if (isinstance(k, Obj) and isinstance(idx, Obj) and k.ref.eq(idx.ref)) or (is_z3(k) and is_z3(idx) and k.eq(idx)) \
                            or (not is_z3(k) and not isinstance(k, Obj) and k == idx):
                        base.items[n_] = (k, v)
                        return
                base.items.append((idx, v))
                return
            if isinstance(base, dict):
                kc = concrete(idx) if not isinstance(idx, tuple) else tuple(concrete(x) for x in idx)
                if kc is None:
                    raise Unsupported('dict store with symbolic key')
                base[kc] = v
                return
            if isinstance(base, Obj):
                ext = self.external_spec((['%s.__setitem__' % base.cls] if base.cls else []) + ['.__setitem__'], fr)
                if ext is not None:
                    idxs = list(idx) if isinstance(idx, tuple) else [idx]
                    self.apply_external(ext, '.__setitem__', base, idxs + [v], {}, st, fr, None)
                    return
            raise Unsupported('subscript store on %r' % (base,))
        raise Unsupported('assignment target %s' % type(target).__name__)

    def box_for_store(self, v, st, spec):
        """Python containers stored into the heap become sequence objects."""
        if isinstance(v, (tuple, list)) and sortkey(spec) == 'ref':
            elem = 'ref'
            if spec and spec.startswith('seq:'):
                elem = spec.split(':')[1]
            elif v and all(not isinstance(x, Obj) and x is not None for x in v):
                elem = 'real'
            o = self.new_obj(st, 'tuple' if isinstance(v, tuple) else 'list', 'seq', elem, 1, name='box')
            st.heap['$len'] = z3.Store(self.field(st, '$len'), o.ref, z3.IntVal(len(v)))
            for k, x in enumerate(v):
                self.arr_write(st, o, [k], x)
            return o
        if isinstance(v, (dict, SymDict)) and sortkey(spec) == 'ref' and not (v.items if isinstance(v, SymDict) else v):
            # an empty dict literal stored in the heap: a fresh mapping object (its later contents are only known through logged stores)
            return self.new_obj(st, 'dict', name='dict')
        return v

    # ------------------------------------------------------------------ control flow
    def x_If(self, node, st, fr):
        t = self.truth(self.ev(node.test, st, fr), st)
        outs = self.flush(st)
        for s, taken in self.branch(st, t):
            outs.extend(self.exec_block(node.body if taken else node.orelse, s, fr))
        return outs

    def x_Break(self, node, st, fr):
        return [('break', st, None)]

    def x_Continue(self, node, st, fr):
        return [('continue', st, None)]

    def x_With(self, node, st, fr):
        # `with cython.boundscheck(False):` and friends: a directive block
        if len(node.items) == 1 and node.items[0].optional_vars is None:
            txt = ast.unparse(node.items[0].context_expr)
            for k in ('boundscheck', 'wraparound', 'cdivision', 'initializedcheck', 'nonecheck'):
                if txt.startswith('cython.%s(' % k):
                    saved = dict(fr.flags)
                    fr.flags = dict(fr.flags, **{k: txt.endswith('(True)')})
                    try:
                        return self.exec_block(node.body, st, fr)
                    finally:
                        fr.flags = saved
        raise Unsupported('with statement')

    def x_FunctionDef(self, node, st, fr):
        node.kind = getattr(node, 'kind', 'def')
        node.flags = getattr(node, 'flags', {})
        st.locals[node.name] = FuncVal(fr.file, node.name, node)
        return [('normal', st, None)]

    def x_Try(self, node, st, fr):
        caught = []
        for h in node.handlers:
            if h.type is None:
                caught.append('BaseException')
            elif isinstance(h.type, ast.Tuple):
                caught.extend(ast.unparse(e).split('.')[-1] for e in h.type.elts)
            else:
                caught.append(ast.unparse(h.type).split('.')[-1])
        fr.try_depth.append(caught)
        try:
            body_outs = self.exec_block(node.body, st, fr)
        finally:
            fr.try_depth.pop()
        outs = []
        from .eng_call import Catching
        for kind, s, v in body_outs:
            if kind == 'raise':
                handled = False
                for h in node.handlers:
                    names = ['BaseException'] if h.type is None else (
                        [ast.unparse(e).split('.')[-1] for e in h.type.elts] if isinstance(h.type, ast.Tuple)
                        else [ast.unparse(h.type).split('.')[-1]])
                    if v.name in Catching(names, self.tree):
                        if h.name:
                            s.locals[h.name] = v
                        s.locals['$exc'] = v
                        outs.extend(self.exec_block(h.body, s, fr))
                        handled = True
                        break
                if not handled:
                    outs.append((kind, s, v))
            elif kind == 'normal' and node.orelse:
                outs.extend(self.exec_block(node.orelse, s, fr))
            else:
                outs.append((kind, s, v))
        if node.finalbody:
            final = []
            for kind, s, v in outs:
                for k2, s2, v2 in self.exec_block(node.finalbody, s, fr):
                    final.append((kind, s2, v) if k2 == 'normal' else (k2, s2, v2))
            outs = final
        return outs

    # ------------------------------------------------------------------ loops
    def loop_spec(self, node, fr):
        if fr.depth != 0 and not self.flag('callee_loops'):
            c = fr.contract
        ordn = fr.loop_ord.get(id(node))
        key = ordn if fr.depth == 0 else '%s#%d' % (fr.fn.name, ordn)
        spec = self.contract.loops.get(key)
        return key, spec

    def x_While(self, node, st, fr):
        key, spec = self.loop_spec(node, fr)
        if spec is None:
            raise Unsupported('while loop %s without invariant' % key)
        return self.invariant_loop(node, st, fr, key, spec, None, None)

    def x_For(self, node, st, fr):
        it = self.ev(node.iter, st, fr)
        pre = self.flush(st)
        key, spec = self.loop_spec(node, fr)
        # concrete iteration: unroll
        items = None
        if isinstance(it, (tuple, list)):
            items = list(it)
        elif isinstance(it, RangeVal):
            lo, hi, stp = concrete(it.lo), concrete(it.hi), concrete(it.step)
            if all(isinstance(x, int) for x in (lo, hi, stp)) and (spec is None or spec.get('unroll')):
                if len(range(lo, hi, stp)) <= self.flag('unroll_limit', 64):
                    items = list(range(lo, hi, stp))
            elif stp == 1 and spec is None and self.flag('unroll_symbolic_range'):
                # range(e + a, e + b) with a symbolic start but a CONCRETE trip count (b - a): unrolled exactly, items e + a, e + a + 1, ...
                try:
                    n_ = z3.simplify(to_int(it.hi) - to_int(it.lo))
                except Exception:
                    n_ = None
                if n_ is not None and z3.is_int_value(n_) and 0 <= n_.as_long() <= self.flag('unroll_limit', 64):
                    items = [z3.simplify(to_int(it.lo) + k_) for k_ in range(n_.as_long())]
        elif isinstance(it, ZipVal) and all(isinstance(s, (tuple, list)) for s in it.seqs):
            items = list(zip(*it.seqs))
        elif isinstance(it, EnumVal) and isinstance(it.seq, (tuple, list)) and isinstance(concrete(it.start), int):
            items = list(enumerate(it.seq, concrete(it.start)))
        if items is not None:
            return pre + self.unrolled_loop(node, items, st, fr)
        if spec is None:
            spec = {'invariant': []}
            self.notes.add('loop %s of %s executed with the trivial invariant (havoc only)' % (key, fr.fn.name))
        return pre + self.invariant_loop(node, st, fr, key, spec, it, node.target)

    def unrolled_loop(self, node, items, st, fr):
        done = []
        cur = [st]
        for item in items:
            nxt = []
            for s in cur:
                self.assign(node.target, item, s, fr)
                for kind, s2, v in self.exec_block(node.body, s, fr):
                    if kind in ('normal', 'continue'):
                        nxt.append(s2)
                    elif kind == 'break':
                        done.append(('normal', s2, None))
                    else:
                        done.append((kind, s2, v))
            cur = nxt
            self.path_budget(cur)
        for s in cur:
            if node.orelse:
                done.extend(self.exec_block(node.orelse, s, fr))
            else:
                done.append(('normal', s, None))
        return done

    def modified_in(self, stmts, st, fr):
        """Syntactic over-approximation of what a loop body may write: local names, and heap targets."""
        names = set()
        heap_targets = []      # ('attr', base_expr, attr) | ('index', base_expr) | ('call', node)
        for stmt in stmts:
            for n in ast.walk(stmt):
                tgts = []
                if isinstance(n, ast.Assign):
                    tgts = n.targets
                elif isinstance(n, (ast.AugAssign, ast.AnnAssign)):
                    tgts = [n.target]
                elif isinstance(n, ast.For):
                    tgts = [n.target]
                elif isinstance(n, ast.Call):
                    heap_targets.append(('call', n))
                for t in tgts:
                    for x in ast.walk(t):
                        if isinstance(x, ast.Name) and isinstance(x.ctx, ast.Store):
                            names.add(x.id)
                    stack = [t]
                    while stack:
                        x = stack.pop()
                        if isinstance(x, (ast.Tuple, ast.List)):
                            stack.extend(x.elts)
                        elif isinstance(x, ast.Attribute):
                            heap_targets.append(('attr', x.value, x.attr))
                        elif isinstance(x, ast.Subscript):
                            heap_targets.append(('index', x.value))
        return names, heap_targets

    def lists_to_heap(self, node, st, fr):
        """Local Python lists that the loop body appends to become heap sequence objects (so that the loop invariant can talk
        about their length and elements); the element sort comes from the contract (`sorts={'name': 'seq:real'}`)."""
        for n in ast.walk(node):
            if isinstance(n, ast.Call) and isinstance(n.func, ast.Attribute) and n.func.attr == 'append' and isinstance(n.func.value, ast.Name):
                nm = n.func.value.id
                v = st.locals.get(nm)
                if isinstance(v, list):
                    sp = self.contract.sorts.get(nm, 'seq:ref')
                    elem = sp.split(':')[1] if sp.startswith('seq:') else 'ref'
                    o = self.new_obj(st, 'list', 'seq', elem, 1, name='lst_' + nm)
                    st.heap['$len'] = z3.Store(self.field(st, '$len'), o.ref, z3.IntVal(len(v)))
                    for k, x in enumerate(v):
                        self.arr_write(st, o, [k], x)
                    st.locals[nm] = o

    def havoc_loop_state(self, node, st, fr, spec):
        names, targets = self.modified_in(node.body, st, fr)
        if '$now' in st.ghost or self.uses_alloc:
            from .eng_core import ALLOC_T
            now0 = st.ghost.get('$now', z3.IntVal(0))
            now = self.fresh('hv_now', 'int')
            st.pc.append(now >= now0)
            st.ghost['$now'] = now
        # method calls that mutate sequence objects held in locals (append)
        for n in ast.walk(node):
            if isinstance(n, ast.Call) and isinstance(n.func, ast.Attribute) and n.func.attr == 'append' and isinstance(n.func.value, ast.Name):
                v = st.locals.get(n.func.value.id)
                if isinstance(v, Obj) and v.kind == 'seq':
                    fid = self.arr_fid(v)
                    self.counter += 1
                    st.heap[fid] = z3.Store(self.field(st, fid), v.ref, z3.Const('hv_data!%d' % self.counter, self.field_sort(fid).range()))
                    st.heap['$len'] = z3.Store(self.field(st, '$len'), v.ref, self.fresh('hv_len', 'int'))
        # ... and in attributes (self._data.append(x)): the receiver expression is evaluated in the pre-loop state
        for n in ast.walk(node):
            if isinstance(n, ast.Call) and isinstance(n.func, ast.Attribute) and n.func.attr == 'append' and isinstance(n.func.value, ast.Attribute):
                try:
                    v = self.ev(n.func.value, st.copy(), fr)
                except Unsupported:
                    v = None
                if isinstance(v, Obj) and v.kind == 'seq':
                    fid = self.arr_fid(v)
                    self.counter += 1
                    st.heap[fid] = z3.Store(self.field(st, fid), v.ref, z3.Const('hv_data!%d' % self.counter, self.field_sort(fid).range()))
                    st.heap['$len'] = z3.Store(self.field(st, '$len'), v.ref, self.fresh('hv_len', 'int'))
        snapshot = st.copy()
        for kind, *rest in targets:
            if kind == 'attr':
                base_e, attr = rest
                dep = {x.id for x in ast.walk(base_e) if isinstance(x, ast.Name)} & names
                base = None
                if not dep:
                    try:
                        tmp = snapshot.copy()
                        base = self.ev(base_e, tmp, fr)
                    except Unsupported:
                        base = None
                if isinstance(base, Obj):
                    aspec = self.attr_spec(fr, base, attr)
                    fid = '%s:%s' % (attr, sortkey(aspec))
                    st.heap[fid] = z3.Store(self.field(st, fid), base.ref, self.fresh('hv_' + attr, sortkey(aspec)))
                else:
                    for fid in list(st.heap) + list(self.heap0):
                        if fid.rsplit(':', 1)[0] == attr:
                            self.havoc_field(st, fid)
                    for k in ('real', 'int', 'ref', 'bool', 'str'):
                        fid = '%s:%s' % (attr, k)
                        if fid not in st.heap and fid not in self.heap0:
                            continue
            elif kind == 'index':
                base_e = rest[0]
                dep = {x.id for x in ast.walk(base_e) if isinstance(x, ast.Name)} & names
                base = None
                if not dep:
                    try:
                        tmp = snapshot.copy()
                        base = self.ev(base_e, tmp, fr)
                    except Unsupported:
                        base = None
                if isinstance(base, Obj) and base.kind in ('arr', 'seq'):
                    fid = self.arr_fid(base)
                    self.counter += 1
                    fresh_arr = z3.Const('hv_data!%d' % self.counter, self.field_sort(fid).range())
                    st.heap[fid] = z3.Store(self.field(st, fid), base.ref, fresh_arr)
                elif isinstance(base, (list, dict)):
                    raise Unsupported('loop writes into a local container')
                else:
                    for fid in list(st.heap):
                        if fid.startswith('$d'):
                            self.havoc_field(st, fid)
            elif kind == 'call':
                pass
        for fid in spec.get('modifies', []):
            self.havoc_field(st, fid)
        for nm in names:
            if nm in st.locals or nm in fr.ctypes:
                old = st.locals.get(nm)
                st.locals[nm] = self.havoc_like(nm, old, fr)
        return names

    def havoc_like(self, nm, old, fr):
        ct = fr.ctypes.get(nm)
        spec = spec_from_ctype(ct) if ct else None
        if spec is None:
            cs = self.contract.sorts.get(nm)
            if cs:
                spec = cs
        if spec is not None:
            return self.sym_for_spec('hv_' + nm, spec)
        if isinstance(old, Obj):
            return Obj(self.fresh('hv_' + nm, 'ref'), old.cls, old.kind, old.elem, old.ndim)
        if isinstance(old, bool) or is_bool(old):
            return self.fresh('hv_' + nm, 'bool')
        if isinstance(old, int) or is_int(old):
            return self.fresh('hv_' + nm, 'int')
        if is_z3(old) and is_real(old):
            return self.fresh('hv_' + nm, 'real')
        if is_str(old) or isinstance(old, str):
            return self.fresh('hv_' + nm, 'str')
        if old is None:
            return Obj(self.fresh('hv_' + nm, 'ref'), None)
        raise Unsupported('cannot havoc loop-carried local %s = %r (give it a sort in the contract)' % (nm, old))

    def invariant_loop(self, node, st, fr, key, spec, it, target):
        """Inductive-invariant treatment of `for target in it` / `while test` (no unrolling, any number of iterations)."""
        idx = spec.get('index', '_k%s' % key)
        invs = spec.get('invariant', [])
        is_for = it is not None
        # iteration domain
        if is_for:
            if isinstance(it, RangeVal):
                stp = concrete(it.step)
                if stp != 1:
                    raise Unsupported('range step %r in invariant loop' % (stp,))
                lo, hi = to_int(it.lo), to_int(it.hi)
                elem = lambda s, k: k
                direct = isinstance(target, ast.Name)
            else:
                lo = z3.IntVal(0)
                hi, elem = self.iter_domain(it, st, fr)
                direct = False
        outs = []
        self.lists_to_heap(node, st, fr)
        entry = st.copy()
        sframe = self.spec_frame(fr, st, entry)
        # 1. invariant holds on entry
        if is_for:
            k0 = lo
            if direct and isinstance(it, RangeVal):
                st.locals[target.id] = k0
            st.locals[idx] = k0
        for i, inv in enumerate(invs):
            self.emit(st, 'loop%s.init.%d' % (key, i), self.spec_term(inv, st, sframe), inv)
        # 2. arbitrary iteration
        body_st = st.copy()
        self.havoc_loop_state(node, body_st, fr, spec)
        after = body_st.copy()         # state after the loop shares the havoced symbols
        if is_for:
            k = self.fresh('k_' + str(key), 'int')
            body_st.locals[idx] = k
            if direct and isinstance(it, RangeVal):
                body_st.locals[target.id] = k
            body_st.pc.append(z3.And(k >= lo, k < hi))
        bframe = self.spec_frame(fr, body_st, entry)
        for inv in invs:
            body_st.pc.append(self.spec_term(inv, body_st, bframe))
        if is_for:
            if not (direct and isinstance(it, RangeVal)):
                self.assign(target, elem(body_st, k), body_st, fr)
            conds = [(body_st, True)]
        else:
            t = self.truth(self.ev(node.test, body_st, fr), body_st)
            outs += self.flush(body_st)
            exit_st = body_st.copy()
            conds = self.branch(body_st, t)
        if not self.feasible(body_st):
            conds = []
        loop_events = []
        for s, taken in conds:
            if not taken:
                continue
            log0 = len(s.log)
            pc0 = len(s.ctrl)
            for kind, s2, v in self.exec_block(node.body, s, fr):
                if len(s2.log) > log0:
                    info = (k if is_for else None, lo if is_for else None, hi if is_for else None, key)
                    for ev in s2.log[log0:]:
                        loop_events.append(ev.in_loop(info, s2.ctrl[pc0:]))
                if kind in ('normal', 'continue'):
                    if is_for:
                        s2.locals[idx] = k + 1
                        if direct and isinstance(it, RangeVal):
                            s2.locals[target.id] = k + 1
                    f2 = self.spec_frame(fr, s2, entry)
                    for i, inv in enumerate(invs):
                        self.emit(s2, 'loop%s.preserve.%d' % (key, i), self.spec_term(inv, s2, f2), inv)
                    if not is_for and spec.get('variant'):
                        pass
                elif kind == 'break':
                    outs.append(('normal', s2, None))
                else:
                    outs.append((kind, s2, v))
        # 3. after the loop: invariant at the exit index / negated test
        if is_for:
            kend = z3.If(hi > lo, hi, lo)
            after.locals[idx] = kend
            if direct and isinstance(it, RangeVal):
                after.locals[target.id] = kend
            aframe = self.spec_frame(fr, after, entry)
            for inv in invs:
                after.pc.append(self.spec_term(inv, after, aframe))
            if direct and isinstance(it, RangeVal):
                # Python leaves the last value in the loop variable; code after the loop must not rely on it
                after.locals[target.id] = self.fresh('after_' + target.id, 'int')
            elif isinstance(target, ast.Name) and target.id in after.locals:
                after.locals[target.id] = self.havoc_like(target.id, after.locals[target.id], fr)
        else:
            aframe = self.spec_frame(fr, after, entry)
            for inv in invs:
                after.pc.append(self.spec_term(inv, after, aframe))
            t = self.truth(self.ev(node.test, after, fr), after)
            after.pc.append(z3.Not(t) if not isinstance(t, bool) else z3.BoolVal(not t))
        after.log = list(after.log) + loop_events
        if self.feasible(after):
            if node.orelse:
                outs.extend(self.exec_block(node.orelse, after, fr))
            else:
                outs.append(('normal', after, None))
        return outs

    def iter_domain(self, it, st, fr):
        """(length term, element function) of a symbolic iterable."""
        if isinstance(it, Obj) and it.kind in ('seq', 'arr') and it.ndim == 1:
            n = self.arr_len(st, it)
            self.add_fact(('len>=0', n.get_id()), n >= 0)
            return n, (lambda s, k: self.arr_read(s, it, [k]))
        if isinstance(it, ZipVal):
            doms = [self.iter_domain(x, st, fr) if not isinstance(x, (tuple, list)) else
                    (z3.IntVal(len(x)), (lambda seq: (lambda s, k: self.index_value(list(seq), k, s, fr)))(x)) for x in it.seqs]
            n = doms[0][0]
            for d in doms[1:]:
                n = z3.If(d[0] < n, d[0], n)
            return n, (lambda s, k: tuple(d[1](s, k) for d in doms))
        if isinstance(it, EnumVal):
            n, el = self.iter_domain(it.seq, st, fr)
            start = to_int(it.start)
            return n, (lambda s, k: (k + start, el(s, k)))
        if isinstance(it, Obj):
            # opaque iterable object: treated as a sequence of refs
            seq = Obj(it.ref, it.cls, 'seq', 'ref', 1)
            return self.iter_domain(seq, st, fr)
        raise Unsupported('iteration over %r' % (it,))

    def ev_ListComp(self, node, st, fr):
        if len(node.generators) != 1:
            raise Unsupported('nested comprehension')
        g = node.generators[0]
        it = self.ev(g.iter, st, fr)
        if isinstance(it, (tuple, list)) or isinstance(it, RangeVal) and isinstance(concrete(it.lo), int) and isinstance(concrete(it.hi), int):
            items = list(it) if isinstance(it, (tuple, list)) else list(range(concrete(it.lo), concrete(it.hi), concrete(it.step)))
            out = []
            saved = dict(st.locals)
            for item in items:
                self.assign(g.target, item, st, fr)
                ok = True
                for cond in g.ifs:
                    t = self.truth(self.ev(cond, st, fr), st)
                    if not isinstance(t, bool):
                        raise Unsupported('symbolic filter in comprehension over concrete sequence')
                    ok = ok and t
                if ok:
                    out.append(self.ev(node.elt, st, fr))
            st.locals = saved
            return out
        if g.ifs:
            return self.filter_comprehension(node, g, it, st, fr)
        n, el = self.iter_domain(it, st, fr)
        # map: new sequence r with len n and r[k] = elt(seq[k]) for all k (pure element expression required)
        k = z3.Int('k!lc%d' % self.counter)
        self.counter += 1
        saved = dict(st.locals)
        npc = len(st.pc)
        nlog = len(st.log)
        heap_before = dict(st.heap)
        self.assign(g.target, el(st, k), st, fr)
        st.guards.append(z3.And(k >= 0, k < n))
        try:
            v = self.ev(node.elt, st, fr)
        finally:
            st.guards.pop()
        st.locals = saved
        if len(st.log) != nlog or any(st.heap.get(f) is not heap_before[f] for f in heap_before):
            raise Unsupported('comprehension element with side effects')
        extra = st.pc[npc:]
        del st.pc[npc:]
        if isinstance(v, Obj) or v is None:
            elem = 'ref'
        elif isinstance(v, bool) or is_bool(v):
            elem = 'bool'
        elif isinstance(v, int) or is_int(v):
            elem = 'int'
        elif isinstance(v, str) or is_str(v):
            elem = 'str'
        else:
            elem = 'real'
        res = self.new_obj(st, 'list', 'seq', elem, 1, name='lc')
        st.heap['$len'] = z3.Store(self.field(st, '$len'), res.ref, n)
        arr = z3.Const('lcdata!%d' % self.counter, z3.ArraySort(z3.IntSort(), SORTS[elem]))
        self.counter += 1
        body = arr[k] == coerce(v, elem)
        if extra:
            body = z3.And(body, *extra)
        st.pc.append(z3.ForAll([k], z3.Implies(z3.And(k >= 0, k < n), body)))
        fid = '$d1:%s' % elem
        st.heap[fid] = z3.Store(self.field(st, fid), res.ref, arr)
        return res

    ev_GeneratorExp = ev_ListComp

    def filter_comprehension(self, node, g, it, st, fr):
        """[x for x in seq if cond(x)] over a symbolic sequence: a fresh list r characterised completely by an order-preserving bijection
        between its positions and the positions of seq that satisfy the (pure) condition:
            idx: [0, len r) -> [0, n) strictly increasing, cond(idx(j)), r[j] = seq[idx(j)];  cond(k) => idx(rank(k)) = k, 0 <= rank(k) < len r."""
        if not (isinstance(node.elt, ast.Name) and isinstance(g.target, ast.Name) and node.elt.id == g.target.id):
            raise Unsupported('filtered comprehension with a mapped element over a symbolic sequence')
        n, el = self.iter_domain(it, st, fr)
        self.counter += 1
        tag = self.counter
        k = z3.Int('k!fc%d' % tag)
        saved = dict(st.locals)
        npc, nlog, heap_before = len(st.pc), len(st.log), dict(st.heap)

        def cond_at(idx_term):
            self.assign(g.target, el(st, idx_term), st, fr)
            st.guards.append(z3.And(idx_term >= 0, idx_term < n))
            try:
                c = z3.BoolVal(True)
                for cnd in g.ifs:
                    t = self.truth(self.ev(cnd, st, fr), st)
                    c = z3.And(c, t if not isinstance(t, bool) else z3.BoolVal(t))
            finally:
                st.guards.pop()
            return c
        ck = cond_at(k)
        st.locals = saved
        if len(st.log) != nlog or any(st.heap.get(f) is not heap_before[f] for f in heap_before) or len(st.pc) != npc:
            raise Unsupported('comprehension condition with side effects')
        v0 = el(st, k)
        elem = 'ref' if isinstance(v0, Obj) or v0 is None else ('int' if is_int(v0) else 'real')
        res = self.new_obj(st, 'list', 'seq', elem, 1, name='flt')
        m = z3.Int('fltlen!%d' % tag)
        st.heap['$len'] = z3.Store(self.field(st, '$len'), res.ref, m)
        arr = z3.Const('fltdata!%d' % tag, z3.ArraySort(z3.IntSort(), SORTS[elem]))
        fid = '$d1:%s' % elem
        st.heap[fid] = z3.Store(self.field(st, fid), res.ref, arr)
        idx = z3.Function('fltidx!%d' % tag, z3.IntSort(), z3.IntSort())
        rank = z3.Function('fltrank!%d' % tag, z3.IntSort(), z3.IntSort())
        j, j2 = z3.Int('j!fc%d' % tag), z3.Int('j2!fc%d' % tag)
        cj = z3.substitute(ck, (k, idx(j)))
        src = coerce(v0, elem) if not isinstance(v0, Obj) else v0.ref
        srcj = z3.substitute(src, (k, idx(j)))
        st.pc.append(z3.And(m >= 0, m <= n))
        st.pc.append(z3.ForAll([j], z3.Implies(z3.And(j >= 0, j < m),
                                               z3.And(idx(j) >= 0, idx(j) < n, cj, rank(idx(j)) == j, arr[j] == srcj)), patterns=[idx(j)]))
        body_j = z3.Implies(z3.And(j >= 0, j < m), z3.And(idx(j) >= 0, idx(j) < n, cj, rank(idx(j)) == j, arr[j] == srcj))
        for inst in (z3.IntVal(0), m - 1):
            # ground instances at the first and last position (give the solver the terms idx(0), idx(len-1) to work with)
            st.pc.append(z3.substitute(body_j, (j, inst)))
        st.pc.append(z3.ForAll([k], z3.Implies(z3.And(k >= 0, k < n, ck), z3.And(rank(k) >= 0, rank(k) < m, idx(rank(k)) == k)),
                               patterns=[rank(k)] + ([src] if z3.is_app(src) and not z3.is_const(src) else [])))
        st.pc.append(z3.ForAll([j, j2], z3.Implies(z3.And(j >= 0, j < j2, j2 < m), idx(j) < idx(j2)), patterns=[z3.MultiPattern(idx(j), idx(j2))]))
        return res
