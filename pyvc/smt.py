"""Solver dispatch.  Obligations are exported as SMT-LIB2 text and discharged in a process
pool (z3 5.1 python API first; on `unknown` cvc5 1.0.3 CLI, then z3 4.8.12 CLI).
Verdicts: 'unsat' (discharged) | 'sat' (failed, with model) | 'unknown' (undecided)."""
import multiprocessing
import os
import re
import subprocess
import tempfile
import time

import z3


class Obligation:
    __slots__ = ('name', 'hyps', 'goal', 'meta', 'smt2', 'result', 'backend', 'ms', 'model', 'reason', 'expect_sat')

    def __init__(self, name, hyps, goal, meta=None, expect_sat=False):
        self.name = name
        self.hyps = list(hyps)
        self.goal = goal
        self.meta = meta or {}
        self.smt2 = None
        self.result = None
        self.backend = None
        self.ms = 0.0
        self.model = None
        self.reason = None
        self.expect_sat = expect_sat    # cover obligations: hyps must be satisfiable

    def to_smt2(self):
        s = z3.Solver()
        for h in self.hyps:
            s.add(h)
        if not self.expect_sat:
            s.add(z3.Not(self.goal))
        elif self.goal is not None:
            s.add(self.goal)
        self.smt2 = s.to_smt2()
        return self.smt2


def _fp_to_float(txt):
    """'1.25*(2**-3)' / '-1.5' -> float (exact: Float64 numerals are dyadic rationals)."""
    from fractions import Fraction
    from decimal import Decimal
    txt = txt.strip()
    if '*(2**' in txt:
        mant, ex = txt.split('*(2**')
        return float(Fraction(Decimal(mant)) * Fraction(2) ** int(ex.rstrip(')')))
    return float(Fraction(Decimal(txt)))


def _model_dict(m):
    out = {}
    for d in m.decls():
        try:
            if d.arity() == 0:
                v = m[d]
                if z3.is_fp_value(v):
                    if v.isNaN():
                        out[d.name()] = 'nan'
                    elif v.isInf():
                        out[d.name()] = '-inf' if v.isNegative() else 'inf'
                    elif v.isZero():
                        out[d.name()] = '-0.0' if v.isNegative() else '0.0'
                    else:
                        out[d.name()] = repr(_fp_to_float(str(v)))
                else:
                    out[d.name()] = str(v)
            else:
                out[d.name()] = str(m[d])[:400]
        except Exception:
            pass
    return out


def _solve_z3(smt2, timeout_ms):
    s = z3.Solver()
    s.set('timeout', timeout_ms)
    s.from_string(smt2)
    t0 = time.time()
    # algebraic pre-pass: polynomial normal form of the negated goal (last assertion); decides identities such as
    # (1-L)*c + L*c == c that the nonlinear solver may time out on
    try:
        asserts = s.assertions()
        if len(asserts):
            last = z3.simplify(asserts[len(asserts) - 1], som=True, arith_lhs=True)
            if z3.is_false(last):
                return 'unsat', None, (time.time() - t0) * 1000, 'simplifier(som)'
    except z3.Z3Exception:
        pass
    # stage A: nonlinear products treated as opaque terms (sound for unsat), short budget
    try:
        sa = z3.SolverFor('QF_UFLRA') if False else z3.Solver()
        sa.set('timeout', min(5000, timeout_ms))
        sa.set('smt.arith.nl', False)
        sa.from_string(smt2)
        ra = sa.check()
        if ra == z3.unsat:
            return 'unsat', None, (time.time() - t0) * 1000, 'linear abstraction'
    except z3.Z3Exception:
        pass
    r = s.check()
    ms = (time.time() - t0) * 1000
    if r == z3.sat:
        return 'sat', _model_dict(s.model()), ms, ''
    if r == z3.unsat:
        return 'unsat', None, ms, ''
    return 'unknown', None, ms, s.reason_unknown()


def _solve_cli(cmd, smt2, timeout_s, want_model=True):
    txt = smt2
    if '(set-logic' not in txt:
        txt = '(set-logic ALL)\n' + txt
    if want_model and '(get-model)' not in txt:
        txt = txt + '\n(get-model)\n'
    fd, path = tempfile.mkstemp(suffix='.smt2', dir=os.environ.get('TMPDIR', '/var/tmp'))
    try:
        with os.fdopen(fd, 'w') as f:
            f.write(txt)
        t0 = time.time()
        try:
            p = subprocess.run(cmd + [path], capture_output=True, text=True, timeout=timeout_s)
            out = p.stdout.strip()
        except subprocess.TimeoutExpired:
            return 'unknown', None, timeout_s * 1000.0, 'timeout'
        ms = (time.time() - t0) * 1000
        first = out.splitlines()[0].strip() if out else ''
        if first == 'unsat':
            return 'unsat', None, ms, ''
        if first == 'sat':
            return 'sat', {'raw': out[:4000]}, ms, ''
        return 'unknown', None, ms, (out or p.stderr)[:200]
    finally:
        try:
            os.unlink(path)
        except OSError:
            pass


_OBLIGS = []
_FOUND = None      # shared flag: a refutation has been found in this run (later unknowns skip the expensive fall-back chain)


def _has_quant(t, seen=None):
    stack = [t]
    seen = set()
    while stack:
        x = stack.pop()
        i = x.get_id()
        if i in seen:
            continue
        seen.add(i)
        if z3.is_quantifier(x):
            return True
        stack.extend(x.children())
    return False


def _assertions(o):
    out = list(o.hyps)
    if o.expect_sat:
        # vacuity cover: satisfiability of the quantifier-free part (definitional axioms of ghost sums are
        # conservative extensions and do not affect satisfiability)
        out = [h for h in out if not _has_quant(h)]
    if not o.expect_sat:
        out.append(z3.Not(o.goal))
    elif o.goal is not None:
        out.append(o.goal)
    return out


def _ground_int_terms(asserts, limit=10):
    out = {}
    seen = set()
    stack = list(asserts)
    while stack:
        x = stack.pop()
        i = x.get_id()
        if i in seen:
            continue
        seen.add(i)
        if z3.is_quantifier(x):
            continue
        if z3.is_app(x):
            k = x.decl().kind()
            uf = k == z3.Z3_OP_UNINTERPRETED and x.num_args() > 0
            sel = k in (z3.Z3_OP_SELECT, z3.Z3_OP_STORE)
            for j, c in enumerate(x.children()):
                if (uf or (sel and j >= 1)) and z3.is_int(c) and not z3.is_int_value(c):
                    out[c.get_id()] = c
                stack.append(c)
    terms = list(out.values())
    terms.sort(key=lambda t: len(str(t)) if len(terms) < 50 else 0)
    return terms[:limit]


def _skolemize_neg_goal(neg, ctx):
    """Not(ForAll xs. P)  ->  Not(P[xs := fresh constants]);   other shapes are returned unchanged."""
    if z3.is_not(neg):
        q = neg.arg(0)
        if z3.is_quantifier(q) and q.is_forall():
            consts = [z3.Const('sk!%d_%s' % (i, q.var_name(i)), q.var_sort(i)) for i in range(q.num_vars())]
            body = z3.substitute_vars(q.body(), *reversed(consts))
            return z3.Not(body), consts
    return neg, []


def _ground_terms(asserts, sort, limit=12):
    out = {}
    seen = set()
    stack = list(asserts)
    while stack:
        x = stack.pop()
        i = x.get_id()
        if i in seen:
            continue
        seen.add(i)
        if z3.is_quantifier(x):
            continue
        if z3.is_app(x):
            k = x.decl().kind()
            uf = k == z3.Z3_OP_UNINTERPRETED and x.num_args() > 0
            sel = k in (z3.Z3_OP_SELECT, z3.Z3_OP_STORE)
            for j, c in enumerate(x.children()):
                if (uf or sel) and c.sort().eq(sort) and not z3.is_int_value(c) and not z3.is_quantifier(c):
                    if not (sel and j == 0):
                        out[c.get_id()] = c
                stack.append(c)
            if k == z3.Z3_OP_UNINTERPRETED and x.num_args() == 0 and x.sort().eq(sort):
                out[x.get_id()] = x
    terms = sorted(out.values(), key=lambda t: t.get_id())
    return terms[:limit]


def _instantiated_sat(asserts, timeout_ms, linear=False, instantiate=True):
    """Counter-model search when the solver cannot decide the quantified query: the negated goal is skolemised, every
    universally quantified hypothesis is replaced by its instances at the ground terms (of the bound variables' sorts)
    occurring in the obligation.  The hypotheses are thereby weakened: a model found here is a *candidate* counterexample
    (reported as such), not a proof of violation."""
    try:
        import itertools
        neg, sk = _skolemize_neg_goal(asserts[-1], None)
        if _has_quant(neg):
            return 'unknown', None
        hyps = list(asserts[:-1])
        ground = [a for a in hyps if not _has_quant(a)] + [neg]
        extra = []
        cache = {}
        for a in hyps:
            if not instantiate or not (z3.is_quantifier(a) and a.is_forall()):
                continue
            nv = a.num_vars()
            if nv > 2:
                continue
            pools = []
            for i in range(nv):
                srt = a.var_sort(i)
                key = str(srt)
                if key not in cache:
                    cache[key] = _ground_terms(ground, srt) + ([z3.IntVal(0, srt.ctx)] if srt.kind() == z3.Z3_INT_SORT else [])
                pools.append(cache[key])
            count = 0
            for combo in itertools.product(*pools):
                inst = z3.substitute_vars(a.body(), *reversed(combo))
                if not _has_quant(inst):
                    extra.append(inst)
                count += 1
                if count > 150:
                    break
        s = z3.Solver(ctx=asserts[-1].ctx)
        s.set('timeout', timeout_ms)
        if linear:
            s.set('smt.arith.nl', False)
        s.add(*ground)
        s.add(*extra)
        r = s.check()
        if r == z3.sat:
            return 'sat', _model_dict(s.model())
    except z3.Z3Exception:
        pass
    return 'unknown', None


def solve_forked(args):
    """Worker entry point for fork-inherited obligations: no serialisation unless a CLI fall-back is needed."""
    idx, timeout_ms, use_fallback = args[:3]
    # scale > 1: a second, patient attempt at PROVING an obligation for which only a candidate counter-model was found (no candidate stages)
    scale = args[3] if len(args) > 3 else 1
    o = _OBLIGS[idx]
    try:
        t0 = time.time()
        # a fresh z3 context per obligation: the verdict does not depend on which queries this worker solved before
        zc = z3.Context()
        asserts = [a.translate(zc) for a in _assertions(o)]
        if not asserts:
            return str(idx), 'sat' if o.expect_sat else 'unknown', 'z3-5.1.0(api)', 0.0, None, 'no hypotheses'
        try:
            last = z3.simplify(asserts[-1], som=True, arith_lhs=True)
            if z3.is_false(last):
                return str(idx), 'unsat', 'z3-5.1.0(api)', (time.time() - t0) * 1000, None, 'simplifier(som)'
        except z3.Z3Exception:
            pass
        if not o.expect_sat:
            # stage 0: quantifier-free hypotheses only, products opaque (sound for unsat: fewer and weaker hypotheses)
            qf = [a for a in asserts if not _has_quant(a)]
            if len(qf) < len(asserts) and not _has_quant(asserts[-1]):
                s0 = z3.Solver(ctx=zc)
                s0.set('timeout', min(4000 * scale, timeout_ms))
                s0.set('smt.arith.nl', False)
                s0.add(*qf)
                if s0.check() == z3.unsat:
                    return str(idx), 'unsat', 'z3-5.1.0(api)', (time.time() - t0) * 1000, None, 'quantifier-free linear abstraction'
                s0 = z3.Solver(ctx=zc)
                s0.set('timeout', min(4000 * scale, timeout_ms))
                s0.add(*qf)
                if s0.check() == z3.unsat:
                    return str(idx), 'unsat', 'z3-5.1.0(api)', (time.time() - t0) * 1000, None, 'quantifier-free hypotheses'
        sa = z3.Solver(ctx=zc)
        sa.set('timeout', timeout_ms if o.expect_sat else min(10000 * scale, timeout_ms))
        sa.set('smt.arith.nl', False)
        sa.add(*asserts)
        ra = sa.check()
        if ra == z3.unsat:
            return str(idx), 'unsat', 'z3-5.1.0(api)', (time.time() - t0) * 1000, None, 'linear abstraction'
        if o.expect_sat:
            # vacuity guard: a full model if one is found quickly, else satisfiability with products abstracted
            s = z3.Solver(ctx=zc)
            s.set('timeout', min(10000, timeout_ms))
            s.add(*asserts)
            r = s.check()
            ms = (time.time() - t0) * 1000
            if r == z3.sat:
                return str(idx), 'sat', 'z3-5.1.0(api)', ms, None, ''
            if r == z3.unsat:
                return str(idx), 'unsat', 'z3-5.1.0(api)', ms, None, ''
            if ra == z3.sat:
                return str(idx), 'sat', 'z3-5.1.0(api)', ms, None, 'satisfiable with nonlinear products abstracted'
            return str(idx), 'unknown', 'z3-5.1.0(api)', ms, None, s.reason_unknown()
        reason = ''
        # main query; on `unknown` retried with other random seeds (quantifier instantiation is order sensitive)
        for attempt, seed in enumerate((0, 7, 23)):
            s = z3.Solver(ctx=zc)
            s.set('timeout', timeout_ms if attempt == 0 else max(5000, timeout_ms // 3))
            if seed:
                s.set('random_seed', seed)
                s.set('smt.random_seed', seed)
            s.add(*asserts)
            r = s.check()
            ms = (time.time() - t0) * 1000
            if r == z3.unsat:
                return str(idx), 'unsat', 'z3-5.1.0(api)', ms, None, '' if not attempt else 'seed %d' % seed
            if r == z3.sat:
                if _FOUND is not None:
                    _FOUND.value = 1
                return str(idx), 'sat', 'z3-5.1.0(api)', ms, _model_dict(s.model()), ''
            reason = s.reason_unknown()
            if o.expect_sat or scale > 1:
                break
            if _FOUND is not None and _FOUND.value:
                return str(idx), 'unknown', 'z3-5.1.0(api)', ms, None, reason + ' (fall-back chain skipped: a violation was already found)'
        if use_fallback and scale == 1:
            name, r2, backend, ms2, model, reason2 = solve_text((str(idx), o.to_smt2(), min(timeout_ms, 10000), True, True))
            if r2 in ('sat', 'unsat'):
                return str(idx), r2, backend, (time.time() - t0) * 1000, model, reason2
            reason = '%s | %s' % (reason, reason2)
        if not o.expect_sat and scale == 1:
            r3, model3 = _instantiated_sat(asserts, min(timeout_ms, 15000))
            if r3 == 'sat':
                if _FOUND is not None:
                    _FOUND.value = 1
                return (str(idx), 'sat', 'z3-5.1.0(api)', (time.time() - t0) * 1000, model3,
                        'CANDIDATE counter-model: quantified hypotheses instantiated at the ground terms of the obligation')
            r3, model3 = _instantiated_sat(asserts, min(timeout_ms, 10000), linear=True)
            if r3 == 'sat':
                if _FOUND is not None:
                    _FOUND.value = 1
                return (str(idx), 'sat', 'z3-5.1.0(api)', (time.time() - t0) * 1000, model3,
                        'CANDIDATE counter-model: quantified hypotheses instantiated, nonlinear products treated as opaque terms')
            r3, model3 = _instantiated_sat(asserts, min(timeout_ms, 10000), linear=True, instantiate=False)
            if r3 == 'sat':
                if _FOUND is not None:
                    _FOUND.value = 1
                return (str(idx), 'sat', 'z3-5.1.0(api)', (time.time() - t0) * 1000, model3,
                        'CANDIDATE counter-model: quantifier-free hypotheses only, nonlinear products treated as opaque terms')
        return str(idx), 'unknown', 'z3-5.1.0(api)', (time.time() - t0) * 1000, None, reason
    except Exception as e:
        return str(idx), 'unknown', 'error', 0.0, None, 'solver error: %r' % (e,)


def solve_text(args):
    """Worker entry point: (name, smt2, timeout_ms, strings?) -> (name, result, backend, ms, model, reason)."""
    name, smt2, timeout_ms, use_fallback = args[:4]
    skip_api = len(args) > 4 and args[4]
    try:
        if skip_api:
            r, model, ms, reason = 'unknown', None, 0.0, 'api: unknown'
        else:
            r, model, ms, reason = _solve_z3(smt2, timeout_ms)
        backend = 'z3-5.1.0(api)'
        if r == 'unknown' and use_fallback:
            t = max(5, timeout_ms // 1000)
            logic_free = smt2
            r2, m2, ms2, reason2 = _solve_cli(['/usr/bin/cvc5', '--lang', 'smt2', '--produce-models', '--strings-exp',
                                               '--tlimit=%d' % (t * 1000)], logic_free, t + 5)
            ms += ms2
            if r2 != 'unknown':
                r, model, backend, reason = r2, m2, 'cvc5-1.0.3(cli)', reason2
            else:
                r3, m3, ms3, reason3 = _solve_cli(['/usr/bin/z3', '-T:%d' % t], logic_free, t + 5)
                ms += ms3
                if r3 != 'unknown':
                    r, model, backend, reason = r3, m3, 'z3-4.8.12(cli)', reason3
                else:
                    reason = '%s | cvc5: %s | z3-4.8: %s' % (reason, reason2, reason3)
        return name, r, backend, ms, model, reason
    except Exception as e:  # solver crash: undecided, never a violation
        return name, 'unknown', 'error', 0.0, None, 'solver error: %r' % (e,)


def discharge(obligs, timeout_ms=30000, procs=None, fallback=True):
    """Solve all obligations (in a pool when there are many)."""
    global _OBLIGS, _FOUND
    _OBLIGS = obligs
    _FOUND = multiprocessing.get_context('fork').Value('i', 0)
    tasks = [(i, timeout_ms, fallback) for i in range(len(obligs))]
    procs = procs or min(16, max(1, len(tasks)))
    if len(tasks) <= 2 or procs == 1:
        results = [solve_forked(t) for t in tasks]
    else:
        ctx = multiprocessing.get_context('fork')
        with ctx.Pool(procs) as pool:
            results = pool.map(solve_forked, tasks, chunksize=2)
    for (idx, r, backend, ms, model, reason) in results:
        o = obligs[int(idx)]
        o.backend = backend
        o.ms = ms
        o.reason = reason
        o.model = model
        if o.expect_sat:
            # cover: sat is good ('unsat' result slot means discharged)
            o.result = {'sat': 'unsat', 'unsat': 'sat', 'unknown': 'unknown'}[r]
            if r == 'unsat':
                o.model = {'cover': 'hypotheses are contradictory (vacuous)'}
        else:
            o.result = r
    return obligs


def reprove(obligs, timeout_ms=60000, scale=8):
    """Patient second attempt at proving obligations for which only a CANDIDATE counter-model exists (found after the complete solvers
    ran out of time, e.g. on a heavily loaded machine): every proof stage gets `scale` times its normal budget, no candidate stages.
    Returns the obligations that were proved after all (their verdict is changed to unsat)."""
    global _OBLIGS, _FOUND
    if not obligs:
        return []
    _OBLIGS = obligs
    _FOUND = None
    tasks = [(i, timeout_ms, True, scale) for i in range(len(obligs))]
    ctx = multiprocessing.get_context('fork')
    if len(tasks) == 1:
        results = [solve_forked(tasks[0])]
    else:
        with ctx.Pool(min(8, len(tasks))) as pool:
            results = pool.map(solve_forked, tasks, chunksize=1)
    proved = []
    for (idx, r, backend, ms, model, reason) in results:
        o = obligs[int(idx)]
        if r == 'unsat':
            o.result, o.backend, o.reason, o.model = 'unsat', backend, ((reason or '') + ' (proved on the patient second attempt)').strip(), None
            o.ms += ms
            proved.append(o)
        elif r == 'sat':
            o.reason = (reason or 'exact counter-model on the second attempt')
            o.model = model or o.model
    return proved
