"""Expression evaluation (executable code and contract clauses share it)."""
import ast
import builtins as _bi
import z3

from .values import SymDict
from .values import (Ref, NONE, Obj, Unsupported, FuncVal, BoundMethod, ClassVal, ModuleVal, Builtin, SuperVal, Event,
                     SORTS, spec_from_ctype, sortkey, coerce, is_z3, is_real, is_int, is_bool, is_str, is_ref, is_fp,
                     to_real, to_int, to_ref, to_str, to_bool_term, num_args, real_const, concrete)

MATH_CONSTS = {'M_PI': 'pi', 'pi': 'pi', 'M_SQRT2': 'sqrt2', 'M_1_PI': 'inv_pi', 'M_LN2': 'ln2', 'M_E': 'e_const',
               'M_PI_2': 'pi_2', 'M_SQRT1_2': 'sqrt1_2', 'INFINITY': 'inf'}

PI = z3.Real('pi')
SQRT2 = z3.Real('sqrt2')


class ExprMixin:
    # ------------------------------------------------------------------ entry
    def ev(self, node, st, fr):
        m = getattr(self, 'ev_' + type(node).__name__, None)
        if m is None:
            raise Unsupported('expression %s (line %s)' % (type(node).__name__, getattr(node, 'lineno', '?')))
        return m(node, st, fr)

    # ------------------------------------------------------------------ leaves
    def ev_Constant(self, node, st, fr):
        v = node.value
        if isinstance(v, (bool, int, str)) or v is None:
            return v
        if isinstance(v, float):
            return real_const(v)
        if v is Ellipsis:
            return Ellipsis
        raise Unsupported('constant %r' % (v,))

    def ev_Name(self, node, st, fr):
        return self.lookup_name(node.id, st, fr)

    def math_const(self, cname):
        if cname == 'pi':
            self.add_fact('pi', z3.And(PI > z3.RealVal('3.14159265358979'), PI < z3.RealVal('3.14159265358980')))
            return PI
        if cname == 'sqrt2':
            self.add_fact('sqrt2', z3.And(SQRT2 * SQRT2 == 2, SQRT2 > 0))
            return SQRT2
        if cname == 'inv_pi':
            return 1 / self.math_const('pi')
        if cname == 'pi_2':
            return self.math_const('pi') / 2
        if cname == 'sqrt1_2':
            return 1 / self.math_const('sqrt2')
        c = z3.Real('K_' + cname)
        return c

    def lookup_name(self, name, st, fr):
        spec = getattr(fr, 'spec', None)
        if spec is not None:
            if name in spec.get('bind', {}):
                return spec['bind'][name]
        if name in st.locals:
            return st.locals[name]
        if name == 'True':
            return True
        if name == 'False':
            return False
        if name == 'None':
            return None
        # contract-declared named constants
        for cc in (fr.contract, self.contract):
            if cc is not None and name in cc.consts:
                return self.sym_for_spec('K_' + name, cc.consts[name], fresh=False)
        # module level
        mod = self.tree.module(fr.file)
        imp = getattr(mod, 'imports', {})
        if name in imp and name != '*':
            origin = imp[name]
            if origin.startswith('libc.math.') or origin.startswith('math.') or origin.startswith('numpy.') and origin.split('.')[-1] in ('pi',):
                short = origin.split('.')[-1]
                if short in MATH_CONSTS:
                    return self.math_const(MATH_CONSTS[short])
                return Builtin(short)
            if origin in ('numpy', 'math', 'np', 'scipy', 'os', 'json', 'cython', 'os.path'):
                return ModuleVal(origin)
            short = origin.split('.')[-1]
            # imported function/class/constant from another repo module
            r = self.resolve_import(origin, name, fr)
            if r is not None:
                return r
            import os as _os
            mp = origin.lstrip('.')
            for root in (self.tree.root, '/venv/lib/python3.12/site-packages'):
                if _os.path.isdir(_os.path.join(root, mp.replace('.', '/'))) or _os.path.exists(_os.path.join(root, mp.replace('.', '/') + '.py')):
                    return ModuleVal(origin)          # an imported module / package used as a namespace
            return self.unknown_name(name, origin, st, fr)
        # defined in this module?
        for n in mod.body:
            if isinstance(n, ast.FunctionDef) and n.name == name:
                return FuncVal(fr.file, name, n)
            if isinstance(n, ast.ClassDef) and n.name == name:
                return ClassVal(name)
        consts = self.tree.module_consts(fr.file)
        if name in consts:
            return self.module_const(fr.file, name, consts[name], st, fr)
        # companion .pxd of a .pyx shares its namespace (inline functions, constants)
        if fr.file.endswith('.pyx'):
            import os
            pxd = fr.file[:-4] + '.pxd'
            if os.path.exists(self.tree.abspath(pxd)):
                pmod = self.tree.module(pxd)
                for n in pmod.body:
                    if isinstance(n, ast.FunctionDef) and n.name == name and not getattr(n, 'declaration_only', False):
                        return FuncVal(pxd, name, n)
                pim = getattr(pmod, 'imports', {})
                if name in pim and name != '*':
                    r = self.resolve_import(pim[name], name, self.make_frame_for_file(pxd))
                    if r is not None:
                        return r
                    return self.unknown_name(name, pim[name], st, fr)
        if name in MATH_CONSTS:
            return self.math_const(MATH_CONSTS[name])
        defs = self.tree.def_consts(fr.file)
        if name in defs:
            v = defs[name]
            return real_const(v) if isinstance(v, float) else v
        if name == 'super':
            return Builtin('super')
        if hasattr(_bi, name):
            obj = getattr(_bi, name)
            if isinstance(obj, type) and issubclass(obj, BaseException):
                return ClassVal(name)
            return Builtin(name)
        if name in ('__cast__', '__addr__'):
            return Builtin(name)
        if self.tree.class_info(name) is not None:
            return ClassVal(name)
        if getattr(fr, 'spec', None) is not None:
            # contract text does not depend on what the module under verification happens to import: mathematical functions
            # and declared externals are always available to a clause
            from .eng_call import UF1, UF2
            if name in UF1 or name in UF2 or self.external_spec([name], fr) is not None:
                return Builtin(name)
        raise Unsupported('unresolved name %r in %s' % (name, fr.file))

    def unknown_name(self, name, origin, st, fr):
        short = origin.split('.')[-1]
        if self.tree.class_info(short) is not None:
            return ClassVal(short)
        if short[:1].isupper() and not short.isupper():
            return ClassVal(short)
        if short.isupper() or short in self.named_constants:
            return z3.Real('K_' + short)
        return Builtin(short)

    def module_const(self, file, name, expr, st, fr):
        """Module-level constant: a named symbol `K_<name>`; its defining equation is recorded as a fact when the
        initialiser is closed arithmetic the evaluator understands."""
        key = ('modconst', file, name)
        if key in self.consts:
            return self.consts[key]
        if isinstance(expr, ast.Constant) and isinstance(expr.value, (int, str, bool)) or \
                (isinstance(expr, ast.Constant) and expr.value is None):
            self.consts[key] = expr.value
            return expr.value
        if isinstance(expr, ast.Call) and isinstance(expr.func, ast.Name) and expr.func.id == '__opaque__':
            c = z3.Real('K_' + name)
            self.consts[key] = c
            return c
        if isinstance(expr, (ast.Tuple, ast.List, ast.Dict, ast.Lambda)) or \
                (isinstance(expr, ast.Call) and not self.closed_numeric(expr)):
            if isinstance(expr, (ast.Tuple, ast.List)) and all(isinstance(e, ast.Constant) for e in expr.elts):
                v = tuple(self.ev_Constant(e, st, fr) for e in expr.elts)
                self.consts[key] = v
                return v
            raise Unsupported('module-level value %s is not a closed constant' % name)
        c = z3.Real('K_' + name)
        self.consts[key] = c
        try:
            f2 = self.make_frame_for_file(file)
            from .eng_core import State
            v = self.ev(expr, st if st is not None else State(), f2)
            if is_int(v) or isinstance(v, int):
                self.consts[key] = v
                return v
            self.add_fact(key, c == to_real(v))
        except Unsupported:
            pass
        return c

    def closed_numeric(self, expr):
        for n in ast.walk(expr):
            if isinstance(n, ast.Call):
                f = n.func
                nm = f.id if isinstance(f, ast.Name) else (f.attr if isinstance(f, ast.Attribute) else None)
                if nm not in ('sqrt', 'exp', 'log', 'log10', 'sin', 'cos', 'pow', 'float', 'int', 'hyp2f1'):
                    return False
        return True

    def resolve_import(self, origin, name, fr, _seen=None):
        _seen = _seen if _seen is not None else set()
        if origin in _seen or len(_seen) > 40:
            return None
        _seen.add(origin)
        """Resolve `from a.b cimport name` to a FuncVal / ClassVal / constant in the source trees."""
        short = origin.split('.')[-1]
        modpath = origin.rsplit('.', 1)[0]
        if modpath.startswith('.'):
            # relative import: resolve against the package of fr.file
            pkg = fr.file.rsplit('/', 1)[0].split('/')
            dots = len(modpath) - len(modpath.lstrip('.'))
            base = pkg[:len(pkg) - (dots - 1)] if dots > 1 else pkg
            rest = modpath.lstrip('.')
            modpath = '.'.join(base + ([rest] if rest else []))
        import os
        for root in (self.tree.root, '/venv/lib/python3.12/site-packages'):
            for ext in ('.pyx', '.py', '/__init__.py', '/__init__.pxd', '.pxd'):
                p = os.path.join(root, modpath.replace('.', '/') + ext)
                if os.path.exists(p):
                    try:
                        mod = self.tree.module(p)
                    except Exception:
                        continue
                    rel = os.path.relpath(p, self.tree.root) if p.startswith(self.tree.root + '/') else p
                    for n in mod.body:
                        if isinstance(n, ast.FunctionDef) and n.name == short and not getattr(n, 'declaration_only', False):
                            return FuncVal(rel, short, n)
                        if isinstance(n, ast.ClassDef) and n.name == short:
                            return ClassVal(short)
                    consts = self.tree.module_consts(p)
                    if short in consts:
                        return self.module_const(rel, short, consts[short], None, fr)
                    sub = getattr(mod, 'imports', {})
                    for star in sub.get('*', []):
                        r = self.resolve_import(star + '.' + short, short, self.make_frame_for_file(rel), _seen)
                        if r is not None and not (isinstance(r, ClassVal) and self.tree.class_info(short) is None):
                            return r
                    if short in sub and sub[short] != origin:
                        f2 = self.make_frame_for_file(rel)
                        r = self.resolve_import(sub[short], short, f2, _seen)
                        if r is not None:
                            return r
        if self.tree.class_info(short) is not None:
            return ClassVal(short)
        return None

    # ------------------------------------------------------------------ containers
    def ev_Tuple(self, node, st, fr):
        out = []
        for e in node.elts:
            if isinstance(e, ast.Starred):
                v = self.ev(e.value, st, fr)
                if not isinstance(v, (tuple, list)):
                    raise Unsupported('starred of symbolic sequence')
                out.extend(v)
            else:
                out.append(self.ev(e, st, fr))
        return tuple(out)

    def ev_List(self, node, st, fr):
        return list(self.ev_Tuple(node, st, fr))

    def ev_Dict(self, node, st, fr):
        d = {}
        for k, v in zip(node.keys, node.values):
            if k is None:
                sub = self.ev(v, st, fr)
                if not isinstance(sub, dict):
                    raise Unsupported('** of symbolic dict')
                d.update(sub)
                continue
            kk = self.ev(k, st, fr)
            kc = concrete(kk) if not isinstance(kk, (Obj, tuple)) else None
            if kc is None and kk is not None:
                # symbolic key: association list
                items = [(key, val) for key, val in d.items()]
                sd = SymDict(items)
                rest_k = node.keys[node.keys.index(k):]
                rest_v = node.values[node.keys.index(k):]
                for k2, v2 in zip(rest_k, rest_v):
                    sd.items.append((self.ev(k2, st, fr), self.ev(v2, st, fr)))
                return sd
            d[kc] = self.ev(v, st, fr)
        return d

    def ev_JoinedStr(self, node, st, fr):
        return self.fresh('fstr', 'str')

    def ev_Starred(self, node, st, fr):
        raise Unsupported('starred expression')

    def ev_Lambda(self, node, st, fr):
        raise Unsupported('lambda')

    # ------------------------------------------------------------------ attribute / subscript
    def ev_Attribute(self, node, st, fr):
        base = self.ev(node.value, st, fr)
        return self.getattr_value(base, node.attr, st, fr, node)

    def getattr_value(self, base, attr, st, fr, node=None):
        if isinstance(base, Obj):
            spec_mode = getattr(fr, 'spec', None) is not None
            if base.kind == 'arr' and attr == 'shape':
                return tuple(self.arr_len(st, base, k) for k in range(base.ndim))
            if base.kind == 'arr' and attr == 'size' and base.ndim == 1:
                return self.arr_len(st, base)
            if base.kind == 'arr' and attr == 'ndim':
                return base.ndim
            if base.cls and not spec_mode:
                ci, meth = self.tree.lookup_method(base.cls, attr)
                if meth is not None:
                    return BoundMethod(base, attr)
                ci, prop = self.tree.lookup_property(base.cls, attr)
                if prop is not None and 'get' in prop and self.tree.attr_ctype(base.cls, attr) is None:
                    return self.call_property_get(base, ci, prop['get'], attr, st, fr)
                if ci is None and attr in getattr(self.tree.class_info(base.cls) or object(), 'class_consts', {}):
                    pass
            if base.cls:
                # class-level constants
                for nm in self.tree.mro(base.cls):
                    ci = self.tree.class_info(nm)
                    if ci is not None and attr in ci.class_consts:
                        f2 = self.make_frame_for_file(ci.file)
                        return self.ev(ci.class_consts[attr], st, f2)
            spec = self.attr_spec(fr, base, attr)
            self.definedness_attr(base, attr, st, fr)
            return self.read_attr(st, base, attr, spec)
        if isinstance(base, ModuleVal):
            full = base.name + '.' + attr
            if attr in MATH_CONSTS:
                return self.math_const(MATH_CONSTS[attr])
            if attr in ('linalg', 'path', 'optimize', 'random'):
                return ModuleVal(full)
            if attr == 'nan':
                return Obj(z3.Const('NaN_marker', Ref), '$nan')      # only ever a placeholder: any use as a number is unsupported
            return Builtin(attr if base.name in ('numpy', 'np', 'math') else full)
        if isinstance(base, Event):
            return getattr(base, attr)
        if isinstance(base, (tuple, list, dict, str)) or base is None or is_z3(base):
            return BoundMethod(base, attr)
        if isinstance(base, ClassVal):
            ci = self.tree.class_info(base.name)
            if ci is not None:
                for nm in self.tree.mro(base.name):
                    c2 = self.tree.class_info(nm)
                    if c2 is not None and attr in c2.class_consts:
                        return self.ev(c2.class_consts[attr], st, self.make_frame_for_file(c2.file))
                ci2, meth = self.tree.lookup_method(base.name, attr)
                if meth is not None:
                    return FuncVal(ci2.file, ci2.name + '.' + attr, meth, cls=ci2.name)
            if attr == '__name__':
                return base.name
            raise Unsupported('class attribute %s.%s' % (base.name, attr))
        if isinstance(base, SuperVal):
            return BoundMethod(base, attr)
        raise Unsupported('attribute %s of %r' % (attr, base))

    def definedness_attr(self, base, attr, st, fr):
        """Attribute access on a possibly-None reference is an obligation unless the path knows it is not None."""
        return

    def ev_Subscript(self, node, st, fr):
        base = self.ev(node.value, st, fr)
        if isinstance(node.slice, ast.Slice):
            return self.slice_value(base, node.slice, st, fr)
        if isinstance(node.slice, ast.Tuple) and any(isinstance(e, ast.Slice) for e in node.slice.elts):
            return self.column_view(base, node.slice.elts, st, fr)
        idx = self.ev(node.slice, st, fr)
        return self.index_value(base, idx, st, fr, node)

    def column_view(self, base, elts, st, fr):
        """a[:, c] / a[r, :] of a 2-d array: a 1-d view defined point-wise (the base array is assumed not to be written through
        another name while the view is in use)."""
        if not (isinstance(base, Obj) and base.kind == 'arr' and base.ndim == 2 and len(elts) == 2):
            raise Unsupported('partial slicing of %r' % (base,))
        full = [isinstance(e, ast.Slice) and e.lower is None and e.upper is None and e.step is None for e in elts]
        if full == [True, False]:
            return Obj(base.ref, 'ndarray', 'arr', base.elem, 1, view=(base, 'col', to_int(self.ev(elts[1], st, fr))))
        if full == [False, True]:
            return Obj(base.ref, 'ndarray', 'arr', base.elem, 1, view=(base, 'row', to_int(self.ev(elts[0], st, fr))))
        raise Unsupported('slicing pattern')

    def slice_value(self, base, sl, st, fr):
        lo = self.ev(sl.lower, st, fr) if sl.lower is not None else None
        hi = self.ev(sl.upper, st, fr) if sl.upper is not None else None
        step = self.ev(sl.step, st, fr) if sl.step is not None else None
        lo_raw, hi_raw = lo, hi
        lo, hi, step = concrete(lo), concrete(hi), concrete(step)
        if isinstance(base, (tuple, list, str)):
            if any(x is not None and not isinstance(x, int) for x in (lo, hi, step)):
                raise Unsupported('symbolic slice bounds on concrete sequence')
            return base[slice(lo, hi, step)]
        if isinstance(base, Obj) and base.kind in ('arr', 'seq') and lo is None and hi is None and step is None:
            return base      # full view / copy: same contents (aliasing of a copy is not modelled)
        if isinstance(base, Obj) and (base.kind is None or base.ndim == 1) and step is None:
            # a[lo:hi] of a 1-D array is kept symbolic in the same way (its contents are not expanded)
            # opaque sequence-like object (e.g. a text line): the slice is an uninterpreted function of (object, lower, upper)
            NONE_BOUND = 10 ** 9
            lo_t = to_int(lo_raw if lo_raw is not None else -NONE_BOUND)
            hi_t = to_int(hi_raw if hi_raw is not None else NONE_BOUND)
            f = z3.Function('slice_of', Ref, z3.IntSort(), z3.IntSort(), Ref)
            return Obj(f(base.ref, lo_t, hi_t), base.cls)
        if isinstance(base, Obj) and base.kind == 'arr' and lo is None and hi is None and isinstance(step, int):
            # a[::k] (e.g. the reversed view a[::-1]): an opaque array-like value; its contents are not modelled
            f = z3.Function('strided_view', Ref, z3.IntSort(), Ref)
            return Obj(f(base.ref, z3.IntVal(step)), base.cls)
        raise Unsupported('slice of %r' % (base,))

    def normalise_index(self, st, base, i, n, fr, what):
        """Python index semantics with bounds obligation (or memory-safety obligation when boundscheck is off)."""
        ic = concrete(i)
        i = to_int(i)
        if getattr(fr, 'spec', None) is not None:
            return i            # contract clauses index arrays mathematically (no wrap-around, no bounds semantics)
        wrap = fr.flags.get('wraparound', True) or not fr.is_cython
        if getattr(fr, 'spec', None) is None and what in (self.flag('skip_bounds') or []):
            self.assumptions.add('index %s in range: NOT proved here (relies on the cache coherence invariant of C01)' % what)
        elif getattr(fr, 'spec', None) is None:
            if fr.is_cython and fr.flags.get('boundscheck') is False:
                self.emit(st, 'bounds.%s' % what, z3.And(i >= (0 if not wrap else -n), i < n), 'unchecked index')
            elif 'IndexError' in self.catching(fr):
                cond = z3.Not(z3.And(i >= -n, i < n))
                self.register_exc(st, cond, 'IndexError')
            else:
                self.emit(st, 'defined.index.%s' % what, z3.And(i >= -n, i < n), 'index in range')
        if wrap and not (isinstance(ic, int) and ic >= 0):
            if ic is not None:
                return i + n
            # symbolic index: if the path condition already excludes a negative value, no wrap-around term is needed
            if not self.feasible(st, i < 0):
                return i
            return z3.If(i < 0, i + n, i)
        return i

    def index_value(self, base, idx, st, fr, node=None):
        what = ast.unparse(node.value) if node is not None else '?'
        if isinstance(base, (tuple, list)):
            ic = concrete(idx)
            if isinstance(ic, int):
                if not (-len(base) <= ic < len(base)):
                    if 'IndexError' in self.catching(fr):
                        self.register_exc(st, z3.BoolVal(True), 'IndexError')
                        return None
                    self.emit(st, 'defined.index.%s' % what, False, 'constant index out of range')
                    return self.fresh('oob', 'ref')
                return base[ic]
            if len(base) == 0:
                raise Unsupported('symbolic index into empty sequence')
            i = to_int(idx)
            n = len(base)
            self.emit(st, 'defined.index.%s' % what, z3.And(i >= 0, i < n), 'index in range')
            out = base[n - 1]
            for k in range(n - 2, -1, -1):
                out = self.ite_value(i == k, base[k], out)
            return out
        if isinstance(base, SymDict):
            for k, v in base.items:
                same = self.identical(k, idx) if isinstance(k, Obj) or isinstance(idx, Obj) else self.equal(k, idx, st, fr)
                if same is True or (is_z3(same) and concrete(same) is True) or (is_z3(k) and is_z3(idx) and k.eq(idx)) or \
                        (isinstance(k, Obj) and isinstance(idx, Obj) and k.ref.eq(idx.ref)):
                    return v
            if base.auto:
                nv = SymDict(auto=True)
                base.items.append((idx, nv))
                return nv
            raise Unsupported('lookup of a key not present in a symbolic dict literal')
        if isinstance(base, dict):
            kc = concrete(idx)
            if isinstance(idx, tuple):
                kc = tuple(concrete(x) for x in idx)
            if kc in base:
                return base[kc]
            raise Unsupported('lookup of %r in concrete dict' % (idx,))
        if isinstance(base, Obj) and base.kind == 'seq' and (isinstance(idx, str) or is_str(idx)):
            # a tuple / list indexed with a string: Python raises TypeError
            if 'TypeError' in self.catching(fr):
                self.register_exc(st, z3.BoolVal(True), 'TypeError')
                return None
            self.emit(st, 'defined.index.%s' % what, False, 'sequence indexed with a string')
            return self.fresh('oob', 'ref')
        if isinstance(base, Obj) and base.kind in ('arr', 'seq'):
            idxs = list(idx) if isinstance(idx, tuple) else [idx]
            if len(idxs) != base.ndim:
                raise Unsupported('partial indexing of %d-d array' % base.ndim)
            norm = []
            for ax, i in enumerate(idxs):
                n = self.arr_len(st, base, ax)
                norm.append(self.normalise_index(st, base, i, n, fr, what + ('' if base.ndim == 1 else '@%d' % ax)))
            return self.arr_read(st, base, norm)
        if isinstance(base, Obj) and base.cls and self.tree.lookup_method(base.cls, '__getitem__')[1] is not None:
            return self.call_method(base, '__getitem__', [idx], {}, st, fr, node)
        if isinstance(base, Obj):
            return self.map_lookup(base, idx, st, fr, what)
        raise Unsupported('subscript of %r' % (base,))

    def map_lookup(self, base, idx, st, fr, what):
        """Lookup in an opaque mapping object: uninterpreted function of (mapping, key); definedness is not modelled
        unless a handler for KeyError is in scope (then a fresh boolean decides membership)."""
        keys = list(idx) if isinstance(idx, tuple) else [idx]
        kterms = []
        for k in keys:
            if isinstance(k, (bool, int)) or is_int(k):
                kterms.append(to_int(k))
            elif isinstance(k, str) or is_str(k):
                kterms.append(to_str(k))
            elif isinstance(k, Obj) or k is None:
                kterms.append(to_ref(k))
            else:
                kterms.append(to_real(k))
        spec = self.map_value_spec(base, fr)
        sig = [Ref] + [t.sort() for t in kterms]
        base_nm = 'map_%s' % '_'.join(str(s) for s in sig[1:])
        dom = z3.Function('dom_' + base_nm, *sig, z3.BoolSort())
        if 'KeyError' in self.catching(fr) and getattr(fr, 'spec', None) is None:
            self.register_exc(st, z3.Not(dom(base.ref, *kterms)), 'KeyError')
        if isinstance(spec, (tuple, list)):
            out = []
            for i, sp in enumerate(spec[1]):
                f = z3.Function('%s_%s_%d' % (base_nm, sortkey(sp), i), *sig, SORTS[sortkey(sp)])
                out.append(self.wrap(f(base.ref, *kterms), sp))
            return tuple(out)
        key = sortkey(spec)
        f = z3.Function('%s_%s' % (base_nm, key), *sig, SORTS[key])
        return self.wrap(f(base.ref, *kterms), spec)

    def map_value_spec(self, base, fr):
        for cc in (fr.contract, self.contract):
            if cc is None:
                continue
            if base.cls and ('$mapval:' + base.cls) in cc.attrs:
                return cc.attrs['$mapval:' + base.cls]
            if '$mapval' in cc.attrs:
                return cc.attrs['$mapval']
        return 'ref'

    # ------------------------------------------------------------------ operators
    def ite_value(self, c, a, b):
        cc = concrete(c)
        if cc is True:
            return a
        if cc is False:
            return b
        if isinstance(a, Obj) or isinstance(b, Obj) or a is None or b is None:
            if (isinstance(a, Obj) or a is None) and (isinstance(b, Obj) or b is None):
                proto = a if isinstance(a, Obj) else b
                if proto is None:
                    return None
                other = b if proto is a else a
                cls = proto.cls if (other is None or other.cls == proto.cls) else None
                return Obj(z3.If(c, to_ref(a), to_ref(b)), cls, proto.kind, proto.elem, proto.ndim)
            raise Unsupported('ite over mixed object / scalar values')
        if isinstance(a, tuple) and isinstance(b, tuple) and len(a) == len(b):
            return tuple(self.ite_value(c, x, y) for x, y in zip(a, b))
        if isinstance(a, (bool,)) or is_bool(a) or isinstance(b, bool) or is_bool(b):
            if (isinstance(a, bool) or is_bool(a)) and (isinstance(b, bool) or is_bool(b)):
                return z3.If(c, to_bool_term(a), to_bool_term(b))
        if isinstance(a, str) or is_str(a):
            return z3.If(c, to_str(a), to_str(b))
        if is_fp(a) or is_fp(b):
            return z3.If(c, a, b)
        x, y, _ = num_args(a, b)
        return z3.If(c, x, y)

    def truth(self, v, st):
        """Python truthiness as a bool or a z3 Bool."""
        if isinstance(v, bool):
            return v
        if v is None:
            return False
        if isinstance(v, (int, float)):
            return v != 0
        if isinstance(v, (str, tuple, list, dict)):
            return len(v) > 0
        if is_bool(v):
            c = concrete(v)
            return c if isinstance(c, bool) else v
        if is_int(v) or is_real(v):
            return v != 0
        if is_fp(v):
            return z3.Not(z3.fpIsZero(v))
        if is_str(v):
            return z3.Length(v) > 0
        if isinstance(v, Obj):
            if v.kind == 'seq':
                return z3.And(v.ref != NONE, self.arr_len(st, v) != 0)
            return v.ref != NONE
        if isinstance(v, (ClassVal, FuncVal, BoundMethod, Builtin)):
            return True
        raise Unsupported('truth value of %r' % (v,))

    def ev_UnaryOp(self, node, st, fr):
        v = self.ev(node.operand, st, fr)
        if isinstance(node.op, ast.Not):
            t = self.truth(v, st)
            return (not t) if isinstance(t, bool) else z3.Not(t)
        if isinstance(node.op, ast.USub):
            if isinstance(v, Obj):
                f = z3.Function('objop_USub_Ref', Ref, Ref)
                return Obj(f(v.ref), v.cls, v.kind, v.elem, v.ndim)
            if isinstance(v, (int, float)) and not isinstance(v, bool):
                return -v
            if is_fp(v):
                return z3.fpNeg(v)
            return -v if is_z3(v) else -to_int(v)
        if isinstance(node.op, ast.UAdd):
            return v
        raise Unsupported('unary operator %s' % type(node.op).__name__)

    def ev_BoolOp(self, node, st, fr):
        """and/or: operands after the first are evaluated under the guard of the earlier ones.  The Python value
        semantics (returns an operand) is kept only when all operands are boolean; otherwise Unsupported."""
        is_and = isinstance(node.op, ast.And)
        vals = []
        pushed = 0
        result = None
        try:
            for i, e in enumerate(node.values):
                v = self.ev(e, st, fr)
                t = self.truth(v, st)
                if isinstance(t, bool):
                    if t != is_and:          # short-circuit decided
                        vals.append(t)
                        break
                    continue                 # neutral element
                vals.append(t)
                st.guards.append(t if is_and else z3.Not(t))
                pushed += 1
        finally:
            for _ in range(pushed):
                st.guards.pop()
        if not vals:
            return is_and
        if any(isinstance(t, bool) for t in vals):
            # a decided operand terminates the chain with its value
            if len(vals) == 1:
                return vals[0]
            rest = [t for t in vals if not isinstance(t, bool)]
            last = vals[-1]
            if is_and:
                return z3.And(*rest, z3.BoolVal(last)) if rest else last
            return z3.Or(*rest, z3.BoolVal(last)) if rest else last
        return z3.And(*vals) if is_and else z3.Or(*vals)

    def ev_IfExp(self, node, st, fr):
        t = self.truth(self.ev(node.test, st, fr), st)
        if isinstance(t, bool):
            return self.ev(node.body if t else node.orelse, st, fr)
        st.guards.append(t)
        try:
            a = self.ev(node.body, st, fr)
        finally:
            st.guards.pop()
        st.guards.append(z3.Not(t))
        try:
            b = self.ev(node.orelse, st, fr)
        finally:
            st.guards.pop()
        return self.ite_value(t, a, b)

    def ev_Compare(self, node, st, fr):
        left = self.ev(node.left, st, fr)
        terms = []
        for op, c in zip(node.ops, node.comparators):
            right = self.ev(c, st, fr)
            terms.append(self.compare(op, left, right, st, fr))
            left = right
        if all(isinstance(t, bool) for t in terms):
            return all(terms)
        terms = [z3.BoolVal(t) if isinstance(t, bool) else t for t in terms]
        return z3.And(*terms) if len(terms) > 1 else terms[0]

    def compare(self, op, a, b, st, fr):
        if isinstance(op, (ast.Is, ast.IsNot)):
            r = self.identical(a, b)
            if isinstance(op, ast.IsNot):
                return (not r) if isinstance(r, bool) else z3.Not(r)
            return r
        if isinstance(op, (ast.In, ast.NotIn)):
            r = self.contains(b, a, st, fr)
            if isinstance(op, ast.NotIn):
                return (not r) if isinstance(r, bool) else z3.Not(r)
            return r
        if isinstance(op, (ast.Eq, ast.NotEq)):
            r = self.equal(a, b, st, fr)
            if isinstance(op, ast.NotEq):
                return (not r) if isinstance(r, bool) else z3.Not(r)
            return r
        # ordering
        if is_fp(a) or is_fp(b):
            a, b = self.fp_pair(a, b)
            return {ast.Lt: z3.fpLT, ast.LtE: z3.fpLEQ, ast.Gt: z3.fpGT, ast.GtE: z3.fpGEQ}[type(op)](a, b)
        if isinstance(a, (int, float)) and isinstance(b, (int, float)):
            return {ast.Lt: a < b, ast.LtE: a <= b, ast.Gt: a > b, ast.GtE: a >= b}[type(op)]
        if isinstance(a, (Obj, type(None))) or isinstance(b, (Obj, type(None))):
            raise Unsupported('ordering comparison of objects')
        x, y, _ = num_args(a, b)
        r = {ast.Lt: x < y, ast.LtE: x <= y, ast.Gt: x > y, ast.GtE: x >= y}[type(op)]
        c = concrete(r)
        return c if isinstance(c, bool) else r

    def identical(self, a, b):
        if a is None and b is None:
            return True
        if (isinstance(a, Obj) or a is None) and (isinstance(b, Obj) or b is None):
            r = to_ref(a) == to_ref(b)
            c = concrete(r)
            return c if isinstance(c, bool) else r
        if a is None or b is None:
            return False      # a number / bool / string is never None
        if isinstance(a, bool) and isinstance(b, bool):
            return a == b
        if isinstance(a, bool) or isinstance(b, bool):
            x, y = (a, b) if isinstance(b, bool) else (b, a)
            if is_bool(x):
                return x if y else z3.Not(x)
        if isinstance(a, ClassVal) and isinstance(b, ClassVal):
            return a.name == b.name
        raise Unsupported('identity test between %r and %r' % (a, b))

    def equal(self, a, b, st, fr):
        if isinstance(a, (SymDict, dict)) and isinstance(b, (SymDict, dict)):
            ia = a.items if isinstance(a, SymDict) else list(a.items())
            ib = b.items if isinstance(b, SymDict) else list(b.items())
            if len(ia) != len(ib):
                return False
            parts = []
            for (ka, va), (kb, vb) in zip(ia, ib):
                parts.append(self.equal(ka, kb, st, fr) if not (isinstance(ka, Obj) or isinstance(kb, Obj)) else self.identical(ka, kb))
                parts.append(self.equal(va, vb, st, fr) if isinstance(va, (SymDict, dict, tuple, list, str, int)) or not isinstance(va, Obj)
                             else self.identical(va, vb))
            if all(isinstance(p_, bool) for p_ in parts):
                return all(parts)
            return z3.And(*[z3.BoolVal(p_) if isinstance(p_, bool) else p_ for p_ in parts])
        if isinstance(a, (tuple, list)) and isinstance(b, (tuple, list)):
            if len(a) != len(b):
                return False
            parts = [self.equal(x, y, st, fr) for x, y in zip(a, b)]
            if all(isinstance(p, bool) for p in parts):
                return all(parts)
            return z3.And(*[z3.BoolVal(p) if isinstance(p, bool) else p for p in parts])
        if (isinstance(a, Obj) or a is None) and (isinstance(b, Obj) or b is None):
            # object equality: identity unless the class defines __eq__/__richcmp__ (then uninterpreted, reflexive)
            for o in (a, b):
                if isinstance(o, Obj) and o.cls and (self.tree.lookup_method(o.cls, '__richcmp__')[1] is not None or
                                                     self.tree.lookup_method(o.cls, '__eq__')[1] is not None):
                    f = z3.Function('obj_eq', Ref, Ref, z3.BoolSort())
                    ra, rb = to_ref(a), to_ref(b)
                    self.add_fact(('obj_eq', ra.get_id()), f(ra, ra))
                    self.add_fact(('obj_eq', rb.get_id()), f(rb, rb))
                    self.add_fact(('obj_eq_sym', ra.get_id(), rb.get_id()), f(ra, rb) == f(rb, ra))
                    return z3.Or(ra == rb, f(ra, rb))
            return self.identical(a, b)
        if isinstance(a, str) and isinstance(b, str):
            return a == b
        if isinstance(a, str) or isinstance(b, str) or is_str(a) or is_str(b):
            if (isinstance(a, str) or is_str(a)) and (isinstance(b, str) or is_str(b)):
                r = to_str(a) == to_str(b)
                c = concrete(r)
                return c if isinstance(c, bool) else r
            other = b if (isinstance(a, str) or is_str(a)) else a
            if isinstance(other, Obj) and other.kind is None and not other.cls:
                # an object of unknown dynamic type compared with a string: undetermined (it may be a str), not False
                f = z3.Function('ref_eq_str', Ref, z3.StringSort(), z3.BoolSort())
                return f(other.ref, to_str(a if other is b else b))
            return False
        if a is None or b is None:
            return False
        if isinstance(a, ClassVal) or isinstance(b, ClassVal):
            return isinstance(a, ClassVal) and isinstance(b, ClassVal) and a.name == b.name
        if is_fp(a) or is_fp(b):
            a, b = self.fp_pair(a, b)
            return z3.fpEQ(a, b)
        if isinstance(a, bool) and isinstance(b, bool):
            return a == b
        if (isinstance(a, bool) or is_bool(a)) and (isinstance(b, bool) or is_bool(b)):
            return to_bool_term(a) == to_bool_term(b)
        if isinstance(a, Obj) or isinstance(b, Obj):
            if not (isinstance(a, Obj) and isinstance(b, Obj)):
                o_ = a if isinstance(a, Obj) else b
                other_ = b if o_ is a else a
                if o_.kind is None and (not o_.cls or self.tree.class_info(o_.cls) is None) and isinstance(other_, (tuple, list)):
                    # an object of unknown dynamic type (e.g. the .shape of an array) compared with a tuple / list: undetermined
                    self.counter += 1
                    return z3.Bool('eq!%d' % self.counter)
                return False
            return self.identical(a, b)
        x, y, _ = num_args(a, b)
        r = x == y
        c = concrete(r)
        return c if isinstance(c, bool) else r

    def contains(self, container, item, st, fr):
        if isinstance(container, (tuple, list)):
            parts = [self.equal(item, x, st, fr) for x in container]
            if all(isinstance(p, bool) for p in parts):
                return any(parts)
            return z3.Or(*[z3.BoolVal(p) if isinstance(p, bool) else p for p in parts])
        if isinstance(container, dict):
            kc = concrete(item)
            if kc is not None or item is None:
                return kc in container
        if isinstance(container, Obj) and container.kind is None:
            # `key in mapping` for an opaque container object: an undetermined boolean (fresh per test: the container may change between tests)
            self.counter += 1
            return z3.Bool('contains!%d' % self.counter)
        raise Unsupported('membership test in %r' % (container,))

    def fp_pair(self, a, b):
        fs = z3.Float64()
        rm = z3.RNE()

        def conv(x):
            if is_fp(x):
                return x
            if isinstance(x, (int, float)):
                return z3.FPVal(float(x), fs)
            c = concrete(x)
            if c is not None:
                return z3.FPVal(float(c), fs)
            if is_int(x):
                return z3.fpToFP(rm, z3.ToReal(x), fs)
            return z3.fpToFP(rm, x, fs)
        return conv(a), conv(b)

    def ev_BinOp(self, node, st, fr):
        a = self.ev(node.left, st, fr)
        b = self.ev(node.right, st, fr)
        return self.binop(node.op, a, b, st, fr, node)

    def binop(self, op, a, b, st, fr, node=None):
        t = type(op)
        # sequences
        if isinstance(a, (tuple, list)) and isinstance(b, (tuple, list)) and t is ast.Add:
            return type(a)(list(a) + list(b))
        if isinstance(a, (tuple, list)) and t is ast.Mult and isinstance(concrete(b), int):
            return type(a)(list(a) * concrete(b))
        if (isinstance(a, Obj) and a.kind == 'seq') or (isinstance(b, Obj) and b.kind == 'seq'):
            if t is ast.Add:
                return self.seq_concat(a, b, st, fr)
        if isinstance(a, str) and isinstance(b, str) and t is ast.Add:
            return a + b
        if (isinstance(a, str) or is_str(a)) and t is ast.Add:
            return z3.Concat(to_str(a), to_str(b))
        if (isinstance(a, str) or is_str(a)) and t is ast.Mod:
            return self.fresh('fmt', 'str')
        if isinstance(a, Obj) or isinstance(b, Obj):
            return self.object_binop(op, a, b, st, fr)
        if is_fp(a) or is_fp(b):
            x, y = self.fp_pair(a, b)
            rm = z3.RNE()
            if t is ast.Add:
                return z3.fpAdd(rm, x, y)
            if t is ast.Sub:
                return z3.fpSub(rm, x, y)
            if t is ast.Mult:
                return z3.fpMul(rm, x, y)
            if t is ast.Div:
                return z3.fpDiv(rm, x, y)
            raise Unsupported('fp operator %s' % t.__name__)
        if isinstance(a, (int, float)) and isinstance(b, (int, float)) and not isinstance(a, bool) \
                and not isinstance(b, bool) and isinstance(a, int) and isinstance(b, int):
            try:
                if t is ast.Add:
                    return a + b
                if t is ast.Sub:
                    return a - b
                if t is ast.Mult:
                    return a * b
                if t is ast.FloorDiv:
                    return a // b
                if t is ast.Mod:
                    return a % b
                if t is ast.Pow and b >= 0:
                    return a ** b
                if t is ast.Div and b != 0:
                    if fr.is_cython and False:
                        pass
                    return z3.RealVal(a) / z3.RealVal(b)
            except ZeroDivisionError:
                raise Unsupported('constant division by zero')
        x, y, kind = num_args(a, b)
        if t is ast.Add:
            return x + y
        if t is ast.Sub:
            return x - y
        if t is ast.Mult:
            prod = x * y
            # product with a value known to lie in [0, 1) (e.g. uniform()): instantiate the valid bound 0 <= a*u < a for a > 0
            for a_, u_ in ((x, y), (y, x)):
                if is_z3(u_) and u_.get_id() in getattr(self, 'unit_syms', ()):
                    ar, ur = to_real(a_), to_real(u_)
                    self.add_fact(('unit-product', prod.get_id()),
                                  z3.And(z3.Implies(ar > 0, z3.And(ar * ur >= 0, ar * ur < ar)), z3.Implies(ar == 0, ar * ur == 0)))
            return prod
        if t is ast.Div:
            return self.divide(x, y, kind, st, fr, node)
        if t is ast.FloorDiv:
            if kind == 'int':
                self.div_defined(y, st, fr, node)
                return x / y if False else self.floordiv_int(x, y)
            self.div_defined(y, st, fr, node)
            return z3.ToReal(z3.ToInt(x / y))
        if t is ast.Mod:
            self.div_defined(y, st, fr, node)
            if kind == 'int':
                return self.mod_int(x, y, fr)
            q = z3.ToReal(z3.ToInt(x / y))
            return x - q * y
        if t is ast.Pow:
            return self.power(x, y, kind, b, st, fr)
        raise Unsupported('binary operator %s' % t.__name__)

    def floordiv_int(self, x, y):
        # Python floor division; z3 Int div is Euclidean (floor for positive divisor)
        return z3.If(y > 0, x / y, (-x) / (-y))

    def mod_int(self, x, y, fr):
        # Python modulo has the sign of the divisor
        return z3.If(y > 0, x % y, -((-x) % (-y)))

    def div_defined(self, y, st, fr, node):
        if getattr(fr, 'spec', None) is not None:
            return
        if fr.is_cython and fr.flags.get('cdivision'):
            return
        yc = concrete(y)
        if yc is not None and yc != 0:
            return
        if 'ZeroDivisionError' in self.catching(fr):
            self.register_exc(st, y == 0, 'ZeroDivisionError')
            return
        if self.flag('zero_division', 'ignore') == 'obligation':
            self.emit(st, 'defined.div', y != 0, 'divisor non-zero at line %s' % getattr(node, 'lineno', '?'))

    def divide(self, x, y, kind, st, fr, node):
        self.div_defined(y, st, fr, node)
        if kind == 'int':
            # Python 3 / Cython language_level=3: true division also for C integers
            return z3.ToReal(x) / z3.ToReal(y)
        return x / y

    def power(self, x, y, kind, braw, st, fr):
        bc = concrete(y)
        if isinstance(bc, float) and bc == int(bc):
            bc = int(bc)
        if isinstance(bc, int) and 0 <= bc <= 8:
            if bc == 0:
                return z3.IntVal(1) if kind == 'int' else z3.RealVal(1)
            out = x
            for _ in range(bc - 1):
                out = out * x
            return out
        if isinstance(bc, int) and -8 <= bc < 0:
            out = to_real(x)
            for _ in range(-bc - 1):
                out = out * to_real(x)
            return 1 / out
        if bc == 0.5:
            return self.math_fn('sqrt', [x], st, fr)
        if bc == -0.5:
            return 1 / self.math_fn('sqrt', [x], st, fr)
        if bc == 1.5:
            return x * self.math_fn('sqrt', [x], st, fr)
        f = z3.Function('m_pow', z3.RealSort(), z3.RealSort(), z3.RealSort())
        return f(to_real(x), to_real(y))

    def object_binop(self, op, a, b, st, fr):
        """Arithmetic on opaque objects (raysect Vector3D / Function objects / ndarrays): uninterpreted."""
        nm = 'objop_' + type(op).__name__
        if isinstance(op, ast.Div) and not isinstance(b, Obj):
            self.div_defined(to_real(b), st, fr, None)

        def key(v):
            if isinstance(v, Obj):
                return v.ref, Ref
            if isinstance(v, (bool, int)) or is_int(v):
                return to_real(v), z3.RealSort()
            return to_real(v), z3.RealSort()
        ta, sa = key(a)
        tb, sb = key(b)
        f = z3.Function('%s_%s_%s' % (nm, sa, sb), sa, sb, Ref)
        proto = a if isinstance(a, Obj) else b
        return Obj(f(ta, tb), proto.cls, proto.kind, proto.elem, proto.ndim)

    def seq_concat(self, a, b, st, fr):
        """tuple + tuple with a symbolic operand: a new sequence object defined by axioms."""
        elem = a.elem if isinstance(a, Obj) else b.elem
        res = self.new_obj(st, 'sequence', 'seq', elem, 1, name='cat')

        def ln(v):
            return self.arr_len(st, v) if isinstance(v, Obj) else z3.IntVal(len(v))

        def at(v, i):
            if isinstance(v, Obj):
                return coerce(self.arr_read(st, v, [i]), elem)
            out = coerce(v[-1], elem) if len(v) else None
            for k in range(len(v) - 2, -1, -1):
                out = z3.If(i == k, coerce(v[k], elem), out)
            return out
        la, lb = ln(a), ln(b)
        fid = '$d1:%s' % elem
        st.heap['$len'] = z3.Store(self.field(st, '$len'), res.ref, la + lb)
        # contents: fresh array constrained point-wise
        arr = z3.Const('catdata!%d' % self.counter, z3.ArraySort(z3.IntSort(), SORTS[elem]))
        i = z3.Int('i!cat%d' % self.counter)
        if isinstance(a, Obj):
            st.pc.append(z3.ForAll([i], z3.Implies(z3.And(i >= 0, i < la), arr[i] == at(a, i))))
        else:
            for k in range(len(a)):
                st.pc.append(arr[k] == coerce(a[k], elem))
        if isinstance(b, Obj):
            st.pc.append(z3.ForAll([i], z3.Implies(z3.And(i >= la, i < la + lb), arr[i] == at(b, i - la))))
        else:
            for k in range(len(b)):
                st.pc.append(arr[la + k] == coerce(b[k], elem))
        st.heap[fid] = z3.Store(self.field(st, fid), res.ref, arr)
        st.pc.append(la >= 0)
        st.pc.append(lb >= 0)
        return res
