"""Cython front end: parse a .pyx/.pxd with Cython's own parser (no compilation) and
convert the parse tree to Python `ast` nodes, so that one symbolic executor serves
.py and .pyx.  Extra information is attached as attributes:

  FunctionDef.kind        'def' | 'cdef' | 'cpdef'
  FunctionDef.ret_ctype   declared C return type (string) or None
  FunctionDef.flags       dict from decorators: cdivision / boundscheck / wraparound ...
  arg.ctype               declared C type of a parameter (string) or None
  AnnAssign (ctype decl)  `cdef double x [= e]`  ->  AnnAssign(Name x, Constant('double'), e) with .cdef = True
  Call __cast__(ctype, e) `<double> e`
  ClassDef.cdef_class     True for `cdef class`

What is dropped (DESIGN section 3): cimport/import statements (returned separately as a
name table), nogil/inline/except-value clauses, doc-strings are kept as Expr(Constant),
memory-view layout qualifiers are kept only as the number of dimensions.
"""
import ast
import os

from Cython.Compiler.Main import Context, CompilationOptions, default_options
from Cython.Compiler import Errors, Nodes, ExprNodes
from Cython.Compiler.Scanning import FileSourceDescriptor

_ctx_cache = {}


def _context(include):
    key = tuple(include)
    if key not in _ctx_cache:
        opts = CompilationOptions(default_options, language_level=3, include_path=list(include))
        _ctx_cache[key] = Context.from_options(opts)
        Errors.init_thread()
    return _ctx_cache[key]


def parse_cython(path, root, pxd=False):
    """Parse file `path` living under tree root `root`; returns Cython ModuleNode."""
    ctx = _context([root, '/venv/lib/python3.12/site-packages'])
    rel = os.path.relpath(path, root)
    mod = rel.rsplit('.', 1)[0].replace('/', '.')
    sd = FileSourceDescriptor(path, path)
    scope = ctx.find_module(mod, pos=None, need_pxd=0)
    return ctx.parse(sd, scope, pxd=1 if pxd else 0, full_module_name=mod)


class Unsupported(Exception):
    pass


BINOPS = {'+': ast.Add, '-': ast.Sub, '*': ast.Mult, '/': ast.Div, '//': ast.FloorDiv,
          '%': ast.Mod, '**': ast.Pow, '&': ast.BitAnd, '|': ast.BitOr, '^': ast.BitXor,
          '<<': ast.LShift, '>>': ast.RShift, '@': ast.MatMult}
CMPOPS = {'==': ast.Eq, '!=': ast.NotEq, '<': ast.Lt, '<=': ast.LtE, '>': ast.Gt, '>=': ast.GtE,
          'is': ast.Is, 'is_not': ast.IsNot, 'in': ast.In, 'not_in': ast.NotIn, 'is not': ast.IsNot,
          'not in': ast.NotIn}


def ctype_str(base_type, declarator=None):
    """Render a C type node to a string such as 'double', 'int', 'double[::1]', 'Point3D', 'double[:,:]'."""
    t = _base_str(base_type)
    d = declarator
    while d is not None:
        if isinstance(d, Nodes.CPtrDeclaratorNode):
            t += '*'
            d = d.base
        elif isinstance(d, Nodes.CArrayDeclaratorNode):
            dim = getattr(d, 'dimension', None)
            t += '[%s]' % (dim.value if dim is not None and hasattr(dim, 'value') else '')
            d = d.base
        elif isinstance(d, Nodes.CFuncDeclaratorNode):
            d = d.base
        else:
            break
    return t


def _base_str(bt):
    if bt is None:
        return None
    if isinstance(bt, Nodes.CSimpleBaseTypeNode):
        name = bt.name
        if name is None:
            return None
        pre = ''
        if getattr(bt, 'signed', 1) == 0:
            pre = 'unsigned '
        if getattr(bt, 'longness', 0) == 1 and name == 'int':
            name = 'long'
        if getattr(bt, 'module_path', None):
            name = '.'.join(list(bt.module_path) + [name])
        return pre + name
    if isinstance(bt, Nodes.MemoryViewSliceTypeNode):
        return _base_str(bt.base_type_node) + '[' + ','.join(':' for _ in bt.axes) + ']'
    if type(bt).__name__ in ('CConstOrVolatileTypeNode', 'CConstTypeNode'):
        return _base_str(bt.base_type)
    if isinstance(bt, Nodes.TemplatedTypeNode):
        return _base_str(bt.base_type_node) + '[...]'
    if isinstance(bt, Nodes.CComplexBaseTypeNode):
        return ctype_str(bt.base_type, bt.declarator)
    return type(bt).__name__


def _decl_name(d):
    while not isinstance(d, Nodes.CNameDeclaratorNode):
        d = d.base
    return d


class Converter:
    def __init__(self, filename):
        self.filename = filename
        self.imports = {}      # local name -> dotted origin

    # -- helpers
    def loc(self, new, node):
        pos = getattr(node, 'pos', None)
        line = pos[1] if pos else 0
        col = pos[2] if pos else 0
        new.lineno = line
        new.col_offset = col
        new.end_lineno = line
        new.end_col_offset = col
        return new

    def stmts(self, node):
        if node is None:
            return []
        if isinstance(node, Nodes.StatListNode):
            out = []
            for s in node.stats:
                out.extend(self.stmts(s))
            return out
        r = self.stmt(node)
        if r is None:
            return []
        if isinstance(r, list):
            return r
        return [r]

    def body(self, node):
        b = self.stmts(node)
        return b if b else [ast.Pass()]

    # -- statements
    def stmt(self, n):
        m = getattr(self, 's_' + type(n).__name__, None)
        if m is None:
            raise Unsupported('statement %s at %s' % (type(n).__name__, getattr(n, 'pos', None)))
        r = m(n)
        if isinstance(r, ast.AST):
            self.loc(r, n)
        elif isinstance(r, list):
            for x in r:
                self.loc(x, n)
        return r

    def s_ModuleNode(self, n):
        return ast.Module(body=self.stmts(n.body), type_ignores=[])

    def s_CImportStatNode(self, n):
        name = n.as_name or n.module_name.split('.')[0]
        self.imports[name] = n.module_name if n.as_name else n.module_name.split('.')[0]
        return None

    def s_FromCImportStatNode(self, n):
        for item in n.imported_names:
            # Cython 3: tuples (pos, name, as_name) or objects
            if isinstance(item, tuple):
                nm, asn = item[1], item[2]
            else:
                nm, asn = item.name, item.as_name
            if nm == '*':
                self.imports.setdefault('*', []).append(n.module_name)
                continue
            self.imports[asn or nm] = '%s.%s' % (n.module_name, nm)
        return None

    def s_FromImportStatNode(self, n):
        modname = n.module.module_name.value
        for nm, target in n.items:
            self.imports[target.name] = '%s.%s' % (modname, nm)
        return None

    def s_CDefExternNode(self, n):
        return None

    def s_CTypeDefNode(self, n):
        return None

    def s_CEnumDefNode(self, n):
        return None

    def s_CStructOrUnionDefNode(self, n):
        return None

    def s_GlobalNode(self, n):
        return ast.Global(names=list(n.names))

    def s_PassStatNode(self, n):
        return ast.Pass()

    def s_BreakStatNode(self, n):
        return ast.Break()

    def s_ContinueStatNode(self, n):
        return ast.Continue()

    def s_ExprStatNode(self, n):
        return ast.Expr(value=self.expr(n.expr))

    def s_SingleAssignmentNode(self, n):
        if isinstance(n.rhs, ExprNodes.ImportNode):
            modname = n.rhs.module_name.value
            lhsname = n.lhs.name
            self.imports[lhsname] = modname if getattr(n.rhs, 'get_top_level_module', False) is False else modname.split('.')[0]
            if '.' in modname and lhsname == modname.split('.')[0]:
                self.imports[lhsname] = lhsname
            else:
                self.imports[lhsname] = modname
            return None
        return ast.Assign(targets=[self.expr(n.lhs, store=True)], value=self.expr(n.rhs))

    def s_CascadedAssignmentNode(self, n):
        return ast.Assign(targets=[self.expr(l, store=True) for l in n.lhs_list], value=self.expr(n.rhs))

    def s_ParallelAssignmentNode(self, n):
        # a, b = x, y already split by the parser into parallel single assignments
        lhs = ast.Tuple(elts=[self.expr(s.lhs, store=True) for s in n.stats], ctx=ast.Store())
        rhs = ast.Tuple(elts=[self.expr(s.rhs) for s in n.stats], ctx=ast.Load())
        return ast.Assign(targets=[lhs], value=rhs)

    def s_InPlaceAssignmentNode(self, n):
        return ast.AugAssign(target=self.expr(n.lhs, store=True), op=BINOPS[n.operator](), value=self.expr(n.rhs))

    def s_CVarDefNode(self, n):
        out = []
        for d in n.declarators:
            nd = _decl_name(d)
            if isinstance(d, Nodes.CFuncDeclaratorNode):
                # method declaration in a .pxd class body
                fd = ast.FunctionDef(name=nd.name, args=self.cargs(d.args), body=[ast.Pass()], decorator_list=[],
                                     returns=None, type_comment=None, type_params=[])
                fd.kind = 'cpdef' if getattr(n, 'overridable', False) else 'cdef'
                fd.ret_ctype = ctype_str(n.base_type, d)
                fd.flags = {}
                fd.declaration_only = True
                out.append(fd)
                continue
            t = ctype_str(n.base_type, d)
            a = ast.AnnAssign(target=ast.Name(id=nd.name, ctx=ast.Store()), annotation=ast.Constant(value=t),
                              value=self.expr(nd.default) if nd.default is not None else None, simple=1)
            a.cdef = True
            a.visibility = n.visibility
            out.append(a)
        return out

    def cargs(self, args, star=None, starstar=None):
        res = []
        defaults = []
        kwonly = []
        kw_defaults = []
        for a in args:
            nd = _decl_name(a.declarator)
            name = nd.name
            ct = ctype_str(a.base_type, a.declarator)
            if name == '' or name is None:
                # `def f(self, x)`: untyped arg is parsed as base_type name = arg name
                name = a.base_type.name
                ct = None
            arg = ast.arg(arg=name, annotation=None, type_comment=None)
            arg.ctype = ct
            arg.not_none = bool(getattr(a, 'not_none', False))
            arg.lineno = a.pos[1]
            arg.col_offset = a.pos[2]
            arg.end_lineno = a.pos[1]
            arg.end_col_offset = a.pos[2]
            if getattr(a, 'kw_only', False):
                kwonly.append(arg)
                kw_defaults.append(self.expr(a.default) if a.default is not None else None)
            else:
                res.append(arg)
                if a.default is not None:
                    defaults.append(self.expr(a.default))
        va = None
        if star is not None:
            va = ast.arg(arg=star.name, annotation=None, type_comment=None)
        kwa = None
        if starstar is not None:
            kwa = ast.arg(arg=starstar.name, annotation=None, type_comment=None)
        return ast.arguments(posonlyargs=[], args=res, vararg=va, kwonlyargs=kwonly, kw_defaults=kw_defaults,
                             kwarg=kwa, defaults=defaults)

    def decorators(self, decs):
        out = []
        flags = {}
        for d in decs or []:
            e = self.expr(d.decorator)
            txt = ast.unparse(e)
            handled = False
            for k in ('cdivision', 'boundscheck', 'wraparound', 'initializedcheck', 'nonecheck'):
                if txt.startswith('cython.%s(' % k):
                    flags[k] = txt.endswith('(True)')
                    handled = True
            if not handled:
                out.append(e)
        return out, flags

    def fbody(self, body):
        try:
            return self.body(body), None
        except Unsupported as e:
            return [ast.Pass()], str(e)

    def s_DefNode(self, n):
        decs, flags = self.decorators(n.decorators)
        fb, unsup = self.fbody(n.body)
        fd = ast.FunctionDef(name=n.name, args=self.cargs(n.args, n.star_arg, n.starstar_arg), body=fb,
                             decorator_list=decs, returns=None, type_comment=None, type_params=[])
        fd.kind = 'def'
        fd.ret_ctype = None
        fd.flags = flags
        fd.unsupported = unsup
        return fd

    def s_CFuncDefNode(self, n):
        decs, flags = self.decorators(n.decorators)
        d = n.declarator
        while not isinstance(d, Nodes.CFuncDeclaratorNode):
            d = d.base
        nd = _decl_name(d)
        fb, unsup = self.fbody(n.body)
        fd = ast.FunctionDef(name=nd.name, args=self.cargs(d.args), body=fb, decorator_list=decs,
                             returns=None, type_comment=None, type_params=[])
        fd.kind = 'cpdef' if n.overridable else 'cdef'
        fd.ret_ctype = ctype_str(n.base_type, n.declarator)
        fd.flags = flags
        fd.unsupported = unsup
        fd.declaration_only = n.body is None
        return fd

    def s_CClassDefNode(self, n):
        bases = [self.expr(b) for b in (n.bases.args if n.bases is not None else [])]
        cd = ast.ClassDef(name=n.class_name, bases=bases, keywords=[], body=self.body(n.body), decorator_list=[],
                          type_params=[])
        cd.cdef_class = True
        return cd

    def s_PyClassDefNode(self, n):
        bases = []
        if getattr(n, 'bases', None) is not None:
            b = n.bases
            if hasattr(b, 'args'):
                bases = [self.expr(x) for x in b.args]
        cd = ast.ClassDef(name=n.name, bases=bases, keywords=[], body=self.body(n.body), decorator_list=[],
                          type_params=[])
        cd.cdef_class = False
        return cd

    def s_PropertyNode(self, n):
        raise Unsupported('old-style property block')

    def s_IfStatNode(self, n):
        orelse = self.stmts(n.else_clause)
        for clause in reversed(n.if_clauses):
            node = ast.If(test=self.expr(clause.condition), body=self.body(clause.body), orelse=orelse)
            self.loc(node, clause)
            orelse = [node]
        return orelse[0]

    def s_ForInStatNode(self, n):
        seq = n.iterator.sequence if hasattr(n.iterator, 'sequence') else n.iterator
        return ast.For(target=self.expr(n.target, store=True), iter=self.expr(seq), body=self.body(n.body),
                       orelse=self.stmts(n.else_clause), type_comment=None)

    def s_WhileStatNode(self, n):
        return ast.While(test=self.expr(n.condition), body=self.body(n.body), orelse=self.stmts(n.else_clause))

    def s_ReturnStatNode(self, n):
        return ast.Return(value=self.expr(n.value) if n.value is not None else None)

    def s_RaiseStatNode(self, n):
        exc = self.expr(n.exc_type) if n.exc_type is not None else None
        if n.exc_value is not None:
            raise Unsupported('raise with value')
        cause = self.expr(n.cause) if getattr(n, 'cause', None) is not None else None
        return ast.Raise(exc=exc, cause=cause)

    def s_AssertStatNode(self, n):
        return ast.Assert(test=self.expr(n.condition), msg=None)

    def s_DelStatNode(self, n):
        return ast.Delete(targets=[self.expr(a, store=True) for a in n.args])

    def s_TryExceptStatNode(self, n):
        handlers = []
        for c in n.except_clauses:
            typ = None
            if c.pattern:
                pats = [self.expr(p) for p in c.pattern]
                typ = pats[0] if len(pats) == 1 else ast.Tuple(elts=pats, ctx=ast.Load())
            name = c.target.name if c.target is not None else None
            h = ast.ExceptHandler(type=typ, name=name, body=self.body(c.body))
            self.loc(h, c)
            handlers.append(h)
        return ast.Try(body=self.body(n.body), handlers=handlers, orelse=self.stmts(n.else_clause), finalbody=[])

    def s_TryFinallyStatNode(self, n):
        inner = self.stmts(n.body)
        if len(inner) == 1 and isinstance(inner[0], ast.Try) and not inner[0].finalbody:
            inner[0].finalbody = self.body(n.finally_clause)
            return inner[0]
        return ast.Try(body=inner, handlers=[], orelse=[], finalbody=self.body(n.finally_clause))

    def s_WithStatNode(self, n):
        target = self.expr(n.target, store=True) if n.target is not None else None
        item = ast.withitem(context_expr=self.expr(n.manager), optional_vars=target)
        return ast.With(items=[item], body=self.body(n.body), type_comment=None)

    # -- expressions
    def expr(self, n, store=False):
        m = getattr(self, 'e_' + type(n).__name__, None)
        if m is None:
            if isinstance(n, ExprNodes.BinopNode) and hasattr(n, 'operator'):
                m = self.e_binop
            else:
                raise Unsupported('expression %s at %s' % (type(n).__name__, getattr(n, 'pos', None)))
        r = m(n)
        if store and hasattr(r, 'ctx'):
            r.ctx = ast.Store()
            if isinstance(r, (ast.Tuple, ast.List)):
                for e in r.elts:
                    if hasattr(e, 'ctx'):
                        e.ctx = ast.Store()
        return self.loc(r, n)

    def e_binop(self, n):
        return ast.BinOp(left=self.expr(n.operand1), op=BINOPS[n.operator](), right=self.expr(n.operand2))

    def e_NameNode(self, n):
        return ast.Name(id=n.name, ctx=ast.Load())

    def e_AttributeNode(self, n):
        return ast.Attribute(value=self.expr(n.obj), attr=n.attribute, ctx=ast.Load())

    def e_IntNode(self, n):
        v = n.value
        try:
            return ast.Constant(value=int(v, 0))
        except ValueError:
            return ast.Constant(value=int(v.rstrip('uUlL'), 0))

    def e_FloatNode(self, n):
        return ast.Constant(value=float(n.value))

    def e_BoolNode(self, n):
        return ast.Constant(value=bool(n.value))

    def e_NoneNode(self, n):
        return ast.Constant(value=None)

    def e_UnicodeNode(self, n):
        return ast.Constant(value=str(n.value))

    def e_StringNode(self, n):
        return ast.Constant(value=str(n.value))

    def e_BytesNode(self, n):
        return ast.Constant(value=bytes(n.value, 'latin1') if isinstance(n.value, str) else bytes(n.value))

    def e_IdentifierStringNode(self, n):
        return ast.Constant(value=str(n.value))

    def e_EllipsisNode(self, n):
        return ast.Constant(value=Ellipsis)

    def e_TupleNode(self, n):
        return ast.Tuple(elts=[self.expr(a) for a in n.args], ctx=ast.Load())

    def e_ListNode(self, n):
        return ast.List(elts=[self.expr(a) for a in n.args], ctx=ast.Load())

    def e_AsTupleNode(self, n):
        return ast.Call(func=ast.Name(id='tuple', ctx=ast.Load()), args=[self.expr(n.arg)], keywords=[])

    def e_DictNode(self, n):
        return ast.Dict(keys=[self.expr(i.key) for i in n.key_value_pairs],
                        values=[self.expr(i.value) for i in n.key_value_pairs])

    def e_MergedDictNode(self, n):
        keys, vals = [], []
        for a in n.keyword_args:
            if isinstance(a, ExprNodes.DictNode):
                for i in a.key_value_pairs:
                    keys.append(self.expr(i.key))
                    vals.append(self.expr(i.value))
            else:
                keys.append(None)
                vals.append(self.expr(a))
        return ast.Dict(keys=keys, values=vals)

    def e_IndexNode(self, n):
        return ast.Subscript(value=self.expr(n.base), slice=self.expr(n.index), ctx=ast.Load())

    def e_SliceIndexNode(self, n):
        sl = ast.Slice(lower=self.expr(n.start) if n.start is not None else None,
                       upper=self.expr(n.stop) if n.stop is not None else None, step=None)
        return ast.Subscript(value=self.expr(n.base), slice=sl, ctx=ast.Load())

    def e_SliceNode(self, n):
        def opt(x):
            if x is None or isinstance(x, ExprNodes.NoneNode):
                return None
            return self.expr(x)
        return ast.Slice(lower=opt(n.start), upper=opt(n.stop), step=opt(n.step))

    def e_SimpleCallNode(self, n):
        return ast.Call(func=self.expr(n.function), args=[self.expr(a) for a in n.args], keywords=[])

    def e_GeneralCallNode(self, n):
        pos = n.positional_args
        if isinstance(pos, ExprNodes.TupleNode):
            args = [self.expr(a) for a in pos.args]
        elif isinstance(pos, ExprNodes.AsTupleNode):
            args = [ast.Starred(value=self.expr(pos.arg), ctx=ast.Load())]
        elif isinstance(pos, ExprNodes.AddNode):
            # f(a, b, *rest): parsed as (a, b) + tuple(rest)
            args = []
            def flat(x):
                if isinstance(x, ExprNodes.AddNode):
                    flat(x.operand1); flat(x.operand2)
                elif isinstance(x, ExprNodes.TupleNode):
                    args.extend(self.expr(a) for a in x.args)
                elif isinstance(x, ExprNodes.AsTupleNode):
                    args.append(ast.Starred(value=self.expr(x.arg), ctx=ast.Load()))
                else:
                    raise Unsupported('call positional args part %s' % type(x).__name__)
            flat(pos)
        else:
            raise Unsupported('call positional args %s' % type(pos).__name__)
        kws = []
        if n.keyword_args is not None:
            d = self.expr(n.keyword_args)
            if isinstance(d, ast.Dict):
                for k, v in zip(d.keys, d.values):
                    if k is None:
                        kws.append(ast.keyword(arg=None, value=v))
                    else:
                        kws.append(ast.keyword(arg=k.value, value=v))
            else:
                kws.append(ast.keyword(arg=None, value=d))
        return ast.Call(func=self.expr(n.function), args=args, keywords=kws)

    def e_UnaryMinusNode(self, n):
        return ast.UnaryOp(op=ast.USub(), operand=self.expr(n.operand))

    def e_UnaryPlusNode(self, n):
        return ast.UnaryOp(op=ast.UAdd(), operand=self.expr(n.operand))

    def e_NotNode(self, n):
        return ast.UnaryOp(op=ast.Not(), operand=self.expr(n.operand))

    def e_TildeNode(self, n):
        return ast.UnaryOp(op=ast.Invert(), operand=self.expr(n.operand))

    def e_BoolBinopNode(self, n):
        op = ast.And() if n.operator == 'and' else ast.Or()
        l, r = self.expr(n.operand1), self.expr(n.operand2)
        return ast.BoolOp(op=op, values=[l, r])

    def e_PrimaryCmpNode(self, n):
        ops = [CMPOPS[n.operator]()]
        comps = [self.expr(n.operand2)]
        c = n.cascade
        while c is not None:
            ops.append(CMPOPS[c.operator]())
            comps.append(self.expr(c.operand2))
            c = c.cascade
        return ast.Compare(left=self.expr(n.operand1), ops=ops, comparators=comps)

    def e_CondExprNode(self, n):
        return ast.IfExp(test=self.expr(n.condition), body=self.expr(n.true_val), orelse=self.expr(n.false_val))

    def e_TypecastNode(self, n):
        t = ctype_str(n.base_type, n.declarator)
        return ast.Call(func=ast.Name(id='__cast__', ctx=ast.Load()), args=[ast.Constant(value=t), self.expr(n.operand)],
                        keywords=[])

    def e_AmpersandNode(self, n):
        return ast.Call(func=ast.Name(id='__addr__', ctx=ast.Load()), args=[self.expr(n.operand)], keywords=[])

    def e_ComprehensionNode(self, n):
        # [expr for target in seq (if cond)]  (single level or nested loops)
        loop = n.loop
        gens = []
        node = loop
        elt = None
        while True:
            if isinstance(node, Nodes.ForInStatNode):
                seq = node.iterator.sequence
                gens.append(ast.comprehension(target=self.expr(node.target, store=True), iter=self.expr(seq), ifs=[],
                                              is_async=0))
                node = node.body
            elif isinstance(node, Nodes.IfStatNode):
                gens[-1].ifs.append(self.expr(node.if_clauses[0].condition))
                node = node.if_clauses[0].body
            elif isinstance(node, Nodes.StatListNode) and len(node.stats) == 1:
                node = node.stats[0]
            elif isinstance(node, Nodes.ExprStatNode):
                node = node.expr
            elif isinstance(node, ExprNodes.ComprehensionAppendNode):
                if hasattr(node, 'key_expr'):
                    raise Unsupported('dict comprehension')
                elt = self.expr(node.expr)
                break
            else:
                raise Unsupported('comprehension body %s' % type(node).__name__)
        return ast.ListComp(elt=elt, generators=gens)

    def e_GeneratorExpressionNode(self, n):
        raise Unsupported('generator expression')

    def e_YieldExprNode(self, n):
        raise Unsupported('yield')

    def e_LambdaNode(self, n):
        raise Unsupported('lambda')

    def e_JoinedStrNode(self, n):
        return ast.JoinedStr(values=[self.expr(v) for v in n.values])

    def e_FormattedValueNode(self, n):
        return ast.FormattedValue(value=self.expr(n.value), conversion=-1, format_spec=None)


def load_cython(path, root, pxd=False):
    """Return (ast.Module, imports) for a .pyx/.pxd file."""
    tree = parse_cython(path, root, pxd=pxd)
    conv = Converter(path)
    mod = conv.s_ModuleNode(tree)
    ast.fix_missing_locations(mod)
    mod.imports = conv.imports
    return mod
