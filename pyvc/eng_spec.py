"""Contract clause evaluation (same evaluator as the code, in spec mode) and the per-function verification driver."""
import ast
import copy
import re
import time
import z3

from .values import (Ref, NONE, Obj, Unsupported, FuncVal, BoundMethod, ClassVal, ModuleVal, Builtin, SuperVal, Event,
                     SORTS, spec_from_ctype, sortkey, coerce, is_z3, is_real, is_int, is_bool, is_str, is_ref, is_fp,
                     to_real, to_int, to_ref, to_str, to_bool_term, num_args, real_const, concrete, alloc0)
from .eng_core import State, Frame
from .eng_call import ExcVal, UF1, UF2
from .smt import Obligation

_parse_cache = {}


def parse_expr(text):
    if text not in _parse_cache:
        _parse_cache[text] = ast.parse(text.strip(), mode='eval').body
    return _parse_cache[text]


class SpecMixin:
    def spec_frame(self, fr, st, old_state, bind=None):
        f = copy.copy(fr)
        f.try_depth = []
        f.spec = {'bind': dict(bind or {}), 'old': old_state, 'old_env': None}
        return f

    def spec_term(self, clause, st, sframe):
        """Evaluate a contract clause to a z3 Bool in state `st`."""
        node = parse_expr(clause)
        npend = len(st.pending)
        v = self.ev(node, st, sframe)
        del st.pending[npend:]
        t = self.truth(v, st)
        return z3.BoolVal(t) if isinstance(t, bool) else t

    def spec_value(self, clause, st, sframe):
        node = parse_expr(clause)
        return self.ev(node, st, sframe)

    # ------------------------------------------------------------------ spec-only functions
    def spec_call(self, nm, node, st, fr):
        spec = fr.spec
        if nm == 'old':
            old = spec['old']
            tmp = old.copy()
            if spec.get('old_env') is not None:
                tmp.locals = dict(spec['old_env'])
            f2 = copy.copy(fr)
            f2.spec = dict(spec, bind=dict(spec['bind']))
            return self.ev(node.args[0], tmp, f2)
        if nm in ('forall', 'exists'):
            var = node.args[0]
            names = [var.id] if isinstance(var, ast.Name) else [e.id for e in var.elts]
            sorts = {}
            for kw in node.keywords:
                sorts[kw.arg] = kw.value.value
            bound = []
            f2 = copy.copy(fr)
            f2.spec = dict(spec, bind=dict(spec['bind']))
            saved = {}
            for n in names:
                self.counter += 1
                key = sorts.get(n, 'int')
                c = z3.Const('%s!q%d' % (n, self.counter), SORTS[key])
                bound.append(c)
                f2.spec['bind'][n] = Obj(c, sorts.get(n + '_cls')) if key == 'ref' else c
            try:
                if len(node.args) == 3:
                    p = self.truth(self.ev(node.args[1], st, f2), st)
                    q = self.truth(self.ev(node.args[2], st, f2), st)
                    p = z3.BoolVal(p) if isinstance(p, bool) else p
                    q = z3.BoolVal(q) if isinstance(q, bool) else q
                    body = z3.Implies(p, q) if nm == 'forall' else z3.And(p, q)
                else:
                    q = self.truth(self.ev(node.args[1], st, f2), st)
                    body = z3.BoolVal(q) if isinstance(q, bool) else q
            finally:
                pass
            return z3.ForAll(bound, body) if nm == 'forall' else z3.Exists(bound, body)
        if nm == 'implies':
            a = self.truth(self.ev(node.args[0], st, fr), st)
            if a is False:
                return True
            if a is not True:
                st.guards.append(a)
            try:
                b = self.truth(self.ev(node.args[1], st, fr), st)
            finally:
                if a is not True:
                    st.guards.pop()
            if a is True:
                return b
            return z3.Implies(a, z3.BoolVal(b) if isinstance(b, bool) else b)
        if nm == 'iff':
            a = self.truth(self.ev(node.args[0], st, fr), st)
            b = self.truth(self.ev(node.args[1], st, fr), st)
            a = z3.BoolVal(a) if isinstance(a, bool) else a
            b = z3.BoolVal(b) if isinstance(b, bool) else b
            return a == b
        if nm == 'ite':
            c = self.truth(self.ev(node.args[0], st, fr), st)
            a = self.ev(node.args[1], st, fr)
            b = self.ev(node.args[2], st, fr)
            if isinstance(c, bool):
                return a if c else b
            return self.ite_value(c, a, b)
        if nm == 'calls':
            label = node.args[0].value
            return [e for e in st.log if e.label == label or e.label.endswith('.' + label)]
        if nm == 'ncalls':
            label = node.args[0].value
            return len([e for e in st.log if e.label == label or e.label.endswith('.' + label)])
        if nm == 'same':
            return self.identical(self.ev(node.args[0], st, fr), self.ev(node.args[1], st, fr))
        if nm == 'fld':
            return self.field(st, node.args[0].value)
        if nm == 'unchanged':
            terms = []
            for a in node.args:
                fid = a.value
                terms.append(self.field(st, fid) == self.field(spec['old'], fid))
            return z3.And(*terms) if len(terms) != 1 else terms[0]
        if nm == 'unchanged_except':
            fid = node.args[0].value
            objs = [to_ref(self.ev(a, st, fr)) for a in node.args[1:]]
            r = z3.Const('r!ue%d' % self.counter, Ref)
            self.counter += 1
            cur, old = self.field(st, fid), self.field(spec['old'], fid)
            return z3.ForAll([r], z3.Implies(z3.And(*[r != o for o in objs]), cur[r] == old[r]))
        if nm == 'heap_unchanged':
            skip = {a.value for a in node.args}
            terms = []
            old = spec['old']
            for fid in set(st.heap) | set(old.heap):
                if fid in skip:
                    continue
                a, b = self.field(st, fid), self.field(old, fid)
                if a is not b:
                    # objects allocated by the function itself are not observable: compare on pre-existing objects only
                    r = z3.Const('r!hu%d' % self.counter, Ref)
                    self.counter += 1
                    self.uses_alloc = True
                    terms.append(z3.ForAll([r], z3.Implies(alloc0(r), a[r] == b[r])))
            return z3.And(*terms) if terms else True
        if nm == 'length' and len(node.args) == 2:
            # length(a, axis): extent of a multi-dimensional array along a (literal) axis
            a_ = self.ev(node.args[0], st, fr)
            return self.arr_len(st, a_, int(node.args[1].value))
        if nm == 'length':
            return self.call_builtin('len', [self.ev(node.args[0], st, fr)], {}, st, fr, node)
        if nm == 'real':
            return to_real(self.ev(node.args[0], st, fr))
        if nm == 'is_none':
            return self.identical(self.ev(node.args[0], st, fr), None)
        if nm == 'typed':
            v = self.ev(node.args[0], st, fr)
            return Obj(to_ref(v), node.args[1].value)
        if nm == 'as_seq':
            v = self.ev(node.args[0], st, fr)
            elem = node.args[1].value if len(node.args) > 1 else 'ref'
            return Obj(to_ref(v), 'sequence', 'seq', elem, 1)
        if nm == 'as_arr':
            v = self.ev(node.args[0], st, fr)
            return Obj(to_ref(v), 'ndarray', 'arr', node.args[1].value, node.args[2].value if len(node.args) > 2 else 1)
        if nm == 'attr':
            # attr(obj, 'name', 'sortspec'): raw heap read with explicit sort
            v = self.ev(node.args[0], st, fr)
            return self.read_attr(st, v, node.args[1].value, node.args[2].value if len(node.args) > 2 else None)
        if nm == 'older':
            # older(x): x was allocated before the current program point (entry objects included)
            from .eng_core import ALLOC_T
            return ALLOC_T(to_ref(self.ev(node.args[0], st, fr))) < st.ghost.get('$now', z3.IntVal(0))
        if nm == 'alloc0':
            return alloc0(to_ref(self.ev(node.args[0], st, fr)))
        if nm in ('objsub', 'objadd', 'objmul'):
            op = {'objsub': ast.Sub(), 'objadd': ast.Add(), 'objmul': ast.Mult()}[nm]
            return self.object_binop(op, self.ev(node.args[0], st, fr), self.ev(node.args[1], st, fr), st, fr)
        if nm.startswith('fp_'):
            vals = [self.ev(a, st, fr) for a in node.args]
            if nm == 'fp_finite':
                v = vals[0]
                return z3.And(z3.Not(z3.fpIsNaN(v)), z3.Not(z3.fpIsInf(v)))
            a, b = self.fp_pair(vals[0], vals[1])
            if nm == 'fp_same':
                return a == b
            return {'fp_ge': z3.fpGEQ, 'fp_gt': z3.fpGT, 'fp_lt': z3.fpLT, 'fp_le': z3.fpLEQ, 'fp_eq': z3.fpEQ}[nm](a, b)
        if nm == 'concat':
            vals = [to_str(self.ev(a, st, fr)) for a in node.args]
            return z3.Concat(*vals)
        if nm in ('str_lower', 'str_upper'):
            return z3.Function(nm, z3.StringSort(), z3.StringSort())(to_str(self.ev(node.args[0], st, fr)))
        if nm == 'has_key':
            m = self.ev(node.args[0], st, fr)
            keys = [to_int(self.ev(a, st, fr)) for a in node.args[1:]]
            dom = z3.Function('dom_map_%s' % '_'.join('Int' for _ in keys), Ref, *[z3.IntSort() for _ in keys], z3.BoolSort())
            return dom(to_ref(m), *keys)
        if nm == 'isinst':
            return self.isinstance_name(self.ev(node.args[0], st, fr), node.args[1].value, st)
        if nm in ('idiv', 'imod'):
            a = to_int(self.ev(node.args[0], st, fr))
            b = to_int(self.ev(node.args[1], st, fr))
            return a / b if nm == 'idiv' else a % b
        if nm == 'cint':
            return self.coerce_ctype(self.ev(node.args[0], st, fr), 'int')
        if nm == 'to_int':
            v = to_real(self.ev(node.args[0], st, fr))
            return z3.ToInt(v)
        if nm in UF1 or nm in UF2 or nm in ('floor', 'ceil', 'fabs', 'trunc'):
            if nm not in st.locals and nm not in spec['bind']:
                return self.math_fn(nm, [self.ev(a, st, fr) for a in node.args], st, fr)
        # ghost macros and uninterpreted spec functions of the contracts in scope
        for cc in (fr.contract, self.contract):
            if cc is None:
                continue
            for sig, body in cc.ghost.items():
                m = re.match(r'^(\w+)\((.*)\)$', sig.strip())
                if m and m.group(1) == nm:
                    params = [p.strip() for p in m.group(2).split(',') if p.strip()]
                    if len(params) != len(node.args):
                        raise Unsupported('ghost %s arity' % nm)
                    vals = [self.ev(a, st, fr) for a in node.args]
                    f2 = copy.copy(fr)
                    f2.spec = dict(spec, bind=dict(spec['bind']))
                    f2.spec['bind'].update(dict(zip(params, vals)))
                    return self.ev(parse_expr(body), st, f2)
            if nm in cc.consts and cc.consts[nm].startswith('fn:'):
                sig = cc.consts[nm][3:]
                dom, rng = sig.split('->')
                doms = [d.strip() for d in dom.split(',') if d.strip()]
                f = z3.Function('G_' + nm, *[SORTS[sortkey(d)] for d in doms], SORTS[sortkey(rng.strip())])
                vals = [coerce(self.ev(a, st, fr), sortkey(d)) for a, d in zip(node.args, doms)]
                return self.wrap(f(*vals), rng.strip())
        return NotImplemented
