"""C13 — function wrappers and samplers are exact pointwise compositions."""
import z3
from .common import lemma, as_bool
from pyvc.values import Obj, to_real, to_int, NONE

PROP = 'C13'
LEVEL = 'proof'
EXPLANATION = ('Every coordinate-mapping wrapper: postcondition "result = wrapped.evaluate(mathematically mapped arguments)" on the '
               'real evaluate() bodies (the wrapped callable is an uninterpreted function, so the arguments it receives are the '
               'observable); remainder() verified in IEEE Float64 (z3 FP theory) with fmod axiomatised; samplers by nested loop '
               'invariants over the output arrays (index order, every grid point, both end points via the assumed linspace contract).')
MP = "cherab/core/math/mappers.pyx"
CL = "cherab/core/math/clamp.pyx"
SL = "cherab/core/math/slice.pyx"
PE = "cherab/core/math/transform/periodic.pyx"
PX = "cherab/core/math/transform/periodic.pxd"
CY = "cherab/core/math/transform/cylindrical.pyx"
SA = "cherab/core/math/samplers.pyx"

NOT_APPLICABLE = ['PolygonMask2D equals point-in-polygon: all logic is in raysect (triangulate2d + Discrete2DMesh); no contract on '
                  'cherab code can express it (bounded stand-in only, not counted)']
ASSUMPTIONS = ['numpy.linspace(a, b, n) returns n evenly spaced points including both end points (assumed external contract)',
               'autowrap_function*d is the identity on function objects',
               'atan2, sqrt, rotate_z are uninterpreted (pure) functions of their arguments']


def linspace(eng, st, fr, recv, args, kwargs):
    a, b, n = to_real(args[0]), to_real(args[1]), to_int(args[2])
    o = eng.new_obj(st, 'ndarray', 'arr', 'real', 1, name='linspace')
    st.heap['$len'] = z3.Store(eng.field(st, '$len'), o.ref, n)
    eng.counter += 1
    arr = z3.Const('linspace_data!%d' % eng.counter, z3.ArraySort(z3.IntSort(), z3.RealSort()))
    i = z3.Int('i!ls%d' % eng.counter)
    st.pc.append(z3.ForAll([i], z3.Implies(z3.And(i >= 0, i < n, n > 1), arr[i] == a + z3.ToReal(i) * (b - a) / z3.ToReal(n - 1))))
    st.pc.append(z3.Implies(n == 1, arr[0] == a))
    fid = '$d1:real'
    st.heap[fid] = z3.Store(eng.field(st, fid), o.ref, arr)
    return o


def empty(eng, st, fr, recv, args, kwargs):
    shape = args[0]
    shape = list(shape) if isinstance(shape, (tuple, list)) else [shape]
    o = eng.new_obj(st, 'ndarray', 'arr', 'real', len(shape), name='empty')
    if len(shape) == 1:
        st.heap['$len'] = z3.Store(eng.field(st, '$len'), o.ref, to_int(shape[0]))
    else:
        for ax, n in enumerate(shape):
            f = '$n%d' % ax
            st.heap[f] = z3.Store(eng.field(st, f), o.ref, to_int(n))
    return o


def autowrap(cls):
    def fn(eng, st, fr, recv, args, kwargs):
        v = args[0]
        return Obj(v.ref, cls) if isinstance(v, Obj) else v
    return {'kind': 'custom', 'fn': fn, 'doc': 'autowrap_%s: identity on function objects' % cls}


EXTERNALS = {
    'Vector3D.__new__': {'kind': 'fresh', 'result': 'ref:Vector3D', 'alloc': True, 'doc': 'raysect new_vector3d: a freshly allocated vector'},
    'rotate_z': {'kind': 'pure', 'result': 'ref:AffineMatrix3D', 'doc': 'raysect rotate_z(angle in degrees) pure'},
    'linspace': {'kind': 'custom', 'fn': linspace, 'doc': 'numpy.linspace contract (evenly spaced, both ends)'},
    'empty': {'kind': 'custom', 'fn': empty, 'doc': 'numpy.empty: fresh array of the given shape'},
    'autowrap_function1d': autowrap('Function1D'), 'autowrap_function2d': autowrap('Function2D'),
    'autowrap_function3d': autowrap('Function3D'),
}

F1 = {"x": "real"}
F2 = {"x": "real", "y": "real"}
F3 = {"x": "real", "y": "real", "z": "real"}
CLAMP = {"cl(v, a, b)": "ite(v < a, a, ite(v > b, b, v))"}


def register(reg):
    def W(file, qual, post, sorts, vector=False, req=(), **kw):
        ens = ("composition", ("same(result, %s)" if vector else "result == %s") % post)
        reg.contract(file, qual, PROP, sorts=sorts, requires=list(req), ensures=[ens], modifies=[], **kw)
    nn = lambda *a: ["not is_none(self.%s)" % x for x in a]
    W(MP, "IsoMapper2D.evaluate", "self.function1d.evaluate(self.function2d.evaluate(x, y))", F2, req=nn('function1d', 'function2d'))
    W(MP, "IsoMapper3D.evaluate", "self.function1d.evaluate(self.function3d.evaluate(x, y, z))", F3, req=nn('function1d', 'function3d'))
    W(MP, "Swizzle2D.evaluate", "self.function2d.evaluate(y, x)", F2, req=nn('function2d'))
    W(MP, "AxisymmetricMapper.evaluate", "self.function2d.evaluate(sqrt(x*x + y*y), z)", F3, req=nn('function2d'))
    W(MP, "VectorAxisymmetricMapper.evaluate",
      "self.function2d.evaluate(sqrt(x*x + y*y), z).transform(rotate_z(atan2(y, x) / M_PI * 180))", F3, vector=True, req=nn('function2d'))
    W(CY, "CylindricalTransform.evaluate", "self.function3d.evaluate(sqrt(x*x + y*y), atan2(y, x), z)", F3, req=nn('function3d'))
    W(CY, "VectorCylindricalTransform.evaluate",
      "self.function3d.evaluate(sqrt(x*x + y*y), atan2(y, x), z).transform(rotate_z(atan2(y, x) / M_PI * 180))", F3, vector=True,
      req=nn('function3d'))
    # Swizzle3D: argument permutation given by the shape selector
    reg.contract(MP, "Swizzle3D.evaluate", PROP, sorts=F3, requires=nn('function3d'),
        ghost={"sel(s)": "ite(s == 0, x, ite(s == 1, y, z))", "ok(s)": "s == 0 or s == 1 or s == 2"},
        raises={"ValueError": "not (ok(self.shape[0]) and ok(self.shape[1]) and ok(self.shape[2]))"},
        ensures=[("composition", "result == self.function3d.evaluate(sel(self.shape[0]), sel(self.shape[1]), sel(self.shape[2]))")],
        modifies=[])
    # clamps
    for d, s, args in ((1, F1, "x"), (2, F2, "x, y"), (3, F3, "x, y, z")):
        W(CL, "ClampOutput%dD.evaluate" % d, "cl(self._f.evaluate(%s), self._min, self._max)" % args, s, req=nn('_f'), ghost=CLAMP)
    W(CL, "ClampInput1D.evaluate", "self._f.evaluate(cl(x, self._xmin, self._xmax))", F1, req=nn('_f'), ghost=CLAMP)
    W(CL, "ClampInput2D.evaluate", "self._f.evaluate(cl(x, self._xmin, self._xmax), cl(y, self._ymin, self._ymax))", F2, req=nn('_f'), ghost=CLAMP)
    W(CL, "ClampInput3D.evaluate", "self._f.evaluate(cl(x, self._xmin, self._xmax), cl(y, self._ymin, self._ymax), cl(z, self._zmin, self._zmax))",
      F3, req=nn('_f'), ghost=CLAMP)
    # ... and their constructors store the bounds THEY WERE GIVEN (0 is a bound like any other) and reject min >= max
    for d in (1, 2, 3):
        reg.contract(CL, "ClampOutput%dD.__init__" % d, PROP, sorts={"min": "real", "max": "real", "f": "ref:Function%dD!" % d},
            raises={"ValueError": "min >= max"},
            ensures=[("bounds_stored", "self._min == min and self._max == max"), ("function_stored", "same(self._f, f)")])
        mins = ["xmin", "ymin", "zmin"][:d]; maxs = ["xmax", "ymax", "zmax"][:d]
        reg.contract(CL, "ClampInput%dD.__init__" % d, PROP, sorts=dict({m: "real" for m in mins + maxs}, f="ref:Function%dD!" % d),
            raises_any=["ValueError"],
            ensures=[("bounds_stored", " and ".join("self._%s == %s" % (m, m) for m in mins + maxs)), ("function_stored", "same(self._f, f)")])
    # slices
    W(SL, "Slice2D.evaluate", "ite(self.axis == 0, self._function.evaluate(self.value, x), self._function.evaluate(x, self.value))", F1,
      req=nn('_function') + ["self.axis == 0 or self.axis == 1"])
    W(SL, "Slice3D.evaluate", "ite(self.axis == 0, self._function.evaluate(self.value, x, y), ite(self.axis == 1, "
      "self._function.evaluate(x, self.value, y), self._function.evaluate(x, y, self.value)))", F2,
      req=nn('_function') + ["self.axis == 0 or self.axis == 1 or self.axis == 2"])
    # periodic transforms: inner argument = remainder(x, period) (remainder itself verified in Float64 below)
    REM = {"rem(a, p)": "remainder(a, p)"}
    for cls, vec in (("PeriodicTransform", False), ("VectorPeriodicTransform", True)):
        W(PE, cls + "1D.evaluate", "self.function1d.evaluate(rem(x, self.period))", F1, vector=vec, req=nn('function1d'), ghost=REM)
        W(PE, cls + "2D.evaluate", "self.function2d.evaluate(rem(x, self.period_x), rem(y, self.period_y))", F2, vector=vec,
          req=nn('function2d'), ghost=REM)
        W(PE, cls + "3D.evaluate", "self.function3d.evaluate(rem(x, self.period_x), rem(y, self.period_y), rem(z, self.period_z))", F3,
          vector=vec, req=nn('function3d'), ghost=REM)
    # remainder in IEEE double precision
    reg.contract(PX, "remainder", PROP, name='fp64', flags={'mode': 'fp64'}, sorts={"x1": "real", "x2": "real"},
        requires=["fp_finite(x1)", "fp_finite(x2)", "fp_ge(x2, 0.0)"],
        ensures=[("non_periodic", "implies(fp_eq(x2, 0.0), fp_same(result, x1))"),
                 ("range", "implies(fp_gt(x2, 0.0), fp_ge(result, 0.0) and fp_lt(result, x2))"),
                 ("identity_inside", "implies(fp_gt(x2, 0.0) and fp_ge(x1, 0.0) and fp_lt(x1, x2), fp_same(result, x1))")],
        modifies=[])

    # ------------------------------------------------------------------ samplers
    RNG = ("tuple", ["real", "real", "int"])
    reg.contract(SA, "sample1d", PROP, sorts={"function1d": "ref:Function1D!", "x_range": RNG},
        raises={"ValueError": "x_range[0] > x_range[1] or x_range[2] < 1"},
        loops={0: dict(invariant=["0 <= i", "forall(a, 0 <= a and a < i, v_view[a] == f1d.evaluate(x_view[a]))",
                                  "unchanged_except('$d1:real', v_view)"])},
        ensures=[("values", "forall(a, 0 <= a and a < x_range[2], result[1][a] == function1d.evaluate(result[0][a]))"),
                 ("length", "length(result[0]) == x_range[2] and length(result[1]) == x_range[2]"),
                 ("grid", "forall(a, 0 <= a and a < x_range[2] and x_range[2] > 1, "
                  "result[0][a] == x_range[0] + real(a) * (x_range[1] - x_range[0]) / real(x_range[2] - 1))"),
                 ("first_point", "result[0][0] == x_range[0]"),
                 # the arrays handed out belong to the caller: allocated by THIS call, not shared with an earlier call or a module-level cache
                 ("fresh_arrays", "not alloc0(result[0]) and not alloc0(result[1]) and not same(result[0], result[1])")])
    reg.contract(SA, "sample2d", PROP, sorts={"function2d": "ref:Function2D!", "x_range": RNG, "y_range": RNG},
        raises={"ValueError": "x_range[0] > x_range[1] or x_range[2] < 1 or y_range[0] > y_range[1] or y_range[2] < 1"},
        loops={0: dict(invariant=["0 <= i",
                                  "forall((a, b), 0 <= a and a < i and 0 <= b and b < y_samples, v_view[a, b] == f2d.evaluate(x_view[a], y_view[b]))",
                                  "unchanged('$d1:real')", "unchanged_except('$d2:real', v_view)"]),
               1: dict(invariant=["0 <= j",
                                  "forall((a, b), 0 <= a and a < i and 0 <= b and b < y_samples, v_view[a, b] == f2d.evaluate(x_view[a], y_view[b]))",
                                  "forall(b, 0 <= b and b < j, v_view[i, b] == f2d.evaluate(x_view[i], y_view[b]))",
                                  "unchanged('$d1:real')", "unchanged_except('$d2:real', v_view)"])},
        ensures=[("values", "forall((a, b), 0 <= a and a < x_range[2] and 0 <= b and b < y_range[2], "
                  "result[2][a, b] == function2d.evaluate(result[0][a], result[1][b]))"),
                 ("shape", "result[2].shape[0] == x_range[2] and result[2].shape[1] == y_range[2]"),
                 ("grid_x", "forall(a, 0 <= a and a < x_range[2] and x_range[2] > 1, "
                  "result[0][a] == x_range[0] + real(a) * (x_range[1] - x_range[0]) / real(x_range[2] - 1))"),
                 ("grid_y", "forall(a, 0 <= a and a < y_range[2] and y_range[2] > 1, "
                  "result[1][a] == y_range[0] + real(a) * (y_range[1] - y_range[0]) / real(y_range[2] - 1))"),
                 ("fresh_arrays", "not alloc0(result[0]) and not alloc0(result[1]) and not alloc0(result[2]) and not same(result[0], result[1])")])


BATTERY = {
    # class -> (module, constructor expression over recording callables, expected inner arguments, vector rotation angle or None)
    'AxisymmetricMapper': ('cherab.core.math', 'AxisymmetricMapper(f2)', '(hypot(x, y), z)', None),
    'VectorAxisymmetricMapper': ('cherab.core.math', 'VectorAxisymmetricMapper(vf2)', '(hypot(x, y), z)', 'atan2(y, x)'),
    'CylindricalTransform': ('cherab.core.math.transform', 'CylindricalTransform(f3)', '(hypot(x, y), atan2(y, x), z)', None),
    'VectorCylindricalTransform': ('cherab.core.math.transform', 'VectorCylindricalTransform(vf3)', '(hypot(x, y), atan2(y, x), z)', 'atan2(y, x)'),
    'Swizzle2D': ('cherab.core.math', 'Swizzle2D(f2)', '(y, x)', None),
}


def battery_replay(ctx, o):
    """A refuted composition obligation of a coordinate wrapper: the real compiled wrapper is evaluated on a battery of points (ordinary,
    axis, tiny / subnormal, huge) and compared with an independent evaluation (math.hypot / atan2 / cos / sin)."""
    cls = next((c for c in sorted(BATTERY, key=len, reverse=True) if '.%s.evaluate' % c in o.name), None)
    if cls is None:
        return None
    mod, ctor, inner, angle = BATTERY[cls]
    from replaylib.native import run_native
    code = """
from math import hypot, atan2, cos, sin, isfinite
from raysect.core.math import Vector3D
from %s import %s
seen = []
def f2(a, b): seen.append((a, b)); return 1.0
def f3(a, b, c): seen.append((a, b, c)); return 1.0
def vf2(a, b): seen.append((a, b)); return Vector3D(1.0, 2.0, 0.5)
def vf3(a, b, c): seen.append((a, b, c)); return Vector3D(1.0, 2.0, 0.5)
w = %s
vals = [0.0, 1.0, -2.5, 0.3, 1e-100, -3e-120, 1e-200, -1e-200, 5e-324, -5e-324, 1e150, -1e150, 3.7e-163]
bad = []; n = 0
def close(a, b):
    return a == b or abs(a - b) <= 1e-9 * max(abs(a), abs(b), 1e-300) or abs(a - b) <= 1e-12
for x in vals:
    for y in vals:
        for z in (0.0, -1.5):
            del seen[:]
            try:
                got = w(x, y, z) if %r else w(x, y)
            except Exception as e:
                bad.append({"x": x, "y": y, "z": z, "error": repr(e)[:80]}); continue
            n += 1
            want = %s
            if not (len(seen) == 1 and all(close(a, b) for a, b in zip(seen[0], want))):
                bad.append({"x": x, "y": y, "z": z, "inner_arguments": list(seen[0]) if seen else None, "expected": list(want)})
            elif %r:
                phi = %s
                c, s = cos(phi), sin(phi)
                ev = (c * 1.0 - s * 2.0, s * 1.0 + c * 2.0, 0.5)
                if not all(close(a, b) for a, b in zip((got.x, got.y, got.z), ev)):
                    bad.append({"x": x, "y": y, "z": z, "vector": [got.x, got.y, got.z], "expected": list(ev)})
print(json.dumps({"cases": n, "bad": bad[:5], "nbad": len(bad)}))
""" % (mod, cls, ctor, cls != 'Swizzle2D', inner, bool(angle), angle or '0.0')
    out = run_native(ctx, code, timeout=300)
    if out and out.get('nbad'):
        return {'confirmed': True, 'input': out['bad'][0], 'observed': out, 'expected': 'wrapped function evaluated at %s%s' % (inner, ', rotated by ' + angle if angle else '')}
    return {'confirmed': False, 'input': None, 'observed': out, 'expected': 'wrapped function evaluated at %s' % inner}


def slice_replay(ctx, o):
    """Slice2D/Slice3D on the compiled code: every axis selector (integer, letter in either case), asymmetric recording function."""
    from replaylib.native import run_native
    code = """
from cherab.core.math import Slice2D, Slice3D
seen = []
def f2(a, b): seen.append((a, b)); return 1.0
def f3(a, b, c): seen.append((a, b, c)); return 1.0
bad = []; n = 0
for axis, k in ((0, 0), (1, 1), ('x', 0), ('y', 1), ('X', 0), ('Y', 1)):
    for v, x in ((-2.5, 4.0), (0.0, -1.0), (7.0, 0.0)):
        del seen[:]; Slice2D(f2, axis, v)(x); n += 1
        want = [x, x]; want[k] = v
        if seen != [tuple(want)]: bad.append({"class": "Slice2D", "axis": axis, "value": v, "x": x, "inner_arguments": seen[:1], "expected": want})
for axis, k in ((0, 0), (1, 1), (2, 2), ('x', 0), ('y', 1), ('z', 2), ('X', 0), ('Y', 1), ('Z', 2)):
    for v, x, y in ((-2.5, 4.0, 9.0), (0.0, -1.0, 3.0), (7.0, 0.0, -6.0)):
        del seen[:]; Slice3D(f3, axis, v)(x, y); n += 1
        want = [x, y]; want.insert(k, v)
        if seen != [tuple(want)]: bad.append({"class": "Slice3D", "axis": axis, "value": v, "x": x, "y": y, "inner_arguments": seen[:1], "expected": want})
print(json.dumps({"cases": n, "bad": bad[:5], "nbad": len(bad)}))
"""
    out = run_native(ctx, code, timeout=300)
    if out and out.get('nbad'):
        return {'confirmed': True, 'input': out['bad'][0], 'observed': out, 'expected': 'wrapped function with the fixed value inserted at the sliced axis, free arguments in order'}
    return {'confirmed': False, 'input': None, 'observed': out, 'expected': 'wrapped function with the fixed value inserted at the sliced axis'}


def native_replay(ctx, o):
    """Replay a refuted remainder obligation on the real compiled code: PeriodicTransform1D hands remainder(x, period) to
    the wrapped function, which records the argument it receives."""
    if '.Slice2D.' in o.name or '.Slice3D.' in o.name:
        return slice_replay(ctx, o)
    if 'remainder' not in o.name:
        return battery_replay(ctx, o)
    if not o.model:
        return None
    try:
        x1, x2 = float(o.model.get('x1')), float(o.model.get('x2'))
    except (TypeError, ValueError):
        return None
    from replaylib.native import run_native
    cands = [x1]
    for k, v in o.model.items():
        if k.startswith('fmod!'):
            try:
                cands.append(float(v))      # fmod(r, p) = r for |r| < p: the partial remainder is itself an input
            except (TypeError, ValueError):
                pass
    last = None
    for x in cands:
        code = """
from cherab.core.math.transform import PeriodicTransform1D
seen = []
def f(x):
    seen.append(x)
    return 0.0
x1, x2 = %r, %r
PeriodicTransform1D(f, x2)(x1)
arg = seen[0]
ok = (0.0 <= arg < x2)
print(json.dumps({"x": x1, "period": x2, "inner_argument": arg, "in_range": ok}))
""" % (x, x2)
        out = run_native(ctx, code)
        last = out
        if out and out.get('in_range') is False:
            return {'confirmed': True, 'input': {'x': x, 'period': x2}, 'observed': out,
                    'expected': 'inner argument in [0, period)'}
    return {'confirmed': False, 'input': {'x': x1, 'period': x2}, 'observed': last, 'expected': 'inner argument in [0, period)'}


def bounded_sampler_histories(ctx):
    """Bounded stand-in (NOT a proof) for the three samplers without a contract (sample3d, samplevector2d, samplevector3d) and for what no
    single-call contract states: every call returns arrays of its own.  Histories: sample, modify every returned array in place (as a caller
    converting units would), sample again with the same and with other ranges, ranges shared between axes; every result is compared with an
    independent evaluation of the function on numpy.linspace grids."""
    from replaylib.native import run_native
    n = 6 if ctx['tier'] == 'quick' else 60
    code = '''
import random, numpy as np
from cherab.core.math import sample1d, sample2d, sample3d, samplevector2d, samplevector3d
from raysect.core.math import Vector3D
rnd = random.Random(%d)
bad = []; cases = 0
f1 = lambda x: 2.0 * x + 1.0
f2 = lambda x, y: x * x - 3.0 * y
f3 = lambda x, y, z: x + 10.0 * y + 100.0 * z
v2 = lambda x, y: Vector3D(x, y, x * y)
v3 = lambda x, y, z: Vector3D(x + z, y, x * y * z)
def grid(r): return np.linspace(r[0], r[1], r[2])
def check(tag, got, ranges, fn, vec):
    global cases
    cases += 1
    axes = [grid(r) for r in ranges]
    for k, ax in enumerate(axes):
        if got[k].shape != ax.shape or not np.array_equal(np.asarray(got[k]), ax):
            bad.append({"sampler": tag, "axis": k, "expected_end_points": [float(ax[0]), float(ax[-1])], "got_end_points": [float(got[k][0]), float(got[k][-1])] if len(got[k]) else None}); return
    for i in range(len(got)):
        for j in range(i + 1, len(got)):
            if np.shares_memory(np.asarray(got[i]), np.asarray(got[j])):
                bad.append({"sampler": tag, "returned arrays share memory": [i, j]}); return
    vals = np.asarray(got[len(axes)])
    it = np.ndindex(*[len(a) for a in axes])
    for idx in it:
        pt = [float(a[i]) for a, i in zip(axes, idx)]
        want = fn(*pt)
        want = np.array([want.x, want.y, want.z]) if vec else want
        if not np.allclose(vals[idx], want, rtol=1e-12, atol=0):
            bad.append({"sampler": tag, "point": pt, "value": np.asarray(vals[idx]).tolist(), "function": np.asarray(want).tolist()}); return
SAM = [("sample1d", sample1d, f1, 1, False), ("sample2d", sample2d, f2, 2, False), ("sample3d", sample3d, f3, 3, False),
       ("samplevector2d", samplevector2d, v2, 2, True), ("samplevector3d", samplevector3d, v3, 3, True)]
for trial in range(%d):
    shared = (rnd.choice([0, 0.0, -1.5]), rnd.choice([1, 2.5, 4.0]), rnd.randint(2, 5))
    for tag, fn, f, dim, vec in SAM:
        for ranges in ([shared] * dim, [(rnd.uniform(-2, 0), rnd.uniform(1, 3), rnd.randint(1, 4)) for _ in range(dim)], [shared] * dim):
            ranges = [tuple(r) for r in ranges]
            got = fn(f, *ranges)
            check(tag, got, ranges, f, vec)
            for a in got:                      # the caller owns what it was given: in-place unit conversion, sorting, zeroing
                np.asarray(a)[...] = np.asarray(a) * 100.0 + 7.0
    if len(bad) > 6: break
print(json.dumps({"cases": cases, "bad": bad[:6]}))
''' % (ctx['seed'] + 13, n)
    out = run_native(ctx, code, timeout=600)
    return {'name': 'sampler call histories with in-place modification of the returned arrays, five samplers (BOUNDED stand-in, not counted as proved)',
            'ok': bool(out) and out.get('bad') == [], 'detail': out,
            'bound': '%d histories x 5 samplers x 3 calls, seed %d' % (n, ctx['seed'] + 13)}


BOUNDED = list(globals().get('BOUNDED', [])) + [bounded_sampler_histories]
