"""C03 — passive emission models radiate exactly their documented totals."""
import z3
from .common import call_cases, lemma, as_bool
from pyvc.values import to_real

PROP = 'C03'
LEVEL = 'proof'
EXPLANATION = ('Contracts on the real emission()/_populate_cache() bodies of the passive plasma models: guards, the '
               'radiance handed to the line shape (call-argument obligations), loop invariants for the donor sum, the '
               'uniform spreading of total radiated power and the bremsstrahlung bins; NRA lemmas for non-negativity '
               'and linearity.')

D = "cherab/core/model/plasma/"
SPECTRUM_OK = ["spectrum.bins >= 1", "spectrum.delta_wavelength > 0",
               "not is_none(spectrum.samples_mv)", "length(spectrum.samples_mv) == spectrum.bins"]

PT = {"point": "ref:Point3D!", "direction": "ref:Vector3D!", "spectrum": "ref:Spectrum!"}
EL = {"ne()": "self._plasma.get_electron_distribution().density(point.x, point.y, point.z)",
      "te()": "self._plasma.get_electron_distribution().effective_temperature(point.x, point.y, point.z)",
      "ni()": "self._target_species.distribution.density(point.x, point.y, point.z)"}

NOT_APPLICABLE = ['values of the Gaunt-factor tables and accuracy of the wavelength integrator (assumed external contracts)']
ASSUMPTIONS = ['rate coefficients are non-negative (hypothesis of the non-negativity lemma, as in the property statement)']


def line_model(reg, file, cls, charge_expr, pec):
    reg.contract(D + file, cls + "._populate_cache", PROP,
        raises={"RuntimeError": "is_none(self._plasma) or is_none(self._atomic_data) or is_none(self._line) or "
                                "not G_has(self._plasma._composition, self._line.element, %s)" % charge_expr},
        consts={"G_has": "fn:ref,ref,int->bool", "G_get": "fn:ref,ref,int->ref:Species"},
        externals={'Composition.get': {'kind': 'custom', 'fn': composition_get, 'override': True,
                                       'doc': 'Composition.get(element, charge): registered species or ValueError'}},
        modifies=["_target_species:ref", "_rates:ref", "_wavelength:real", "_lineshape:ref"],
        result='int',
        ensures=[
            ("target", "same(self._target_species, G_get(self._plasma._composition, self._line.element, %s))" % charge_expr),
            ("target_set", "not is_none(self._target_species)"),
            ("rate", "same(self._rates, self._atomic_data.%s(self._line.element, self._line.charge, self._line.transition))" % pec),
            ("rate_set", "not is_none(self._rates)"),
            ("wavelength", "self._wavelength == self._atomic_data.wavelength(self._line.element, self._line.charge, self._line.transition)"),
            ("lineshape_args", call_cases(['construct'], [("True", [('construct', [
                "self._line", "self._wavelength", "self._target_species", "self._plasma", "self._atomic_data"])])])),
            ("lineshape_class", lambda P: [("lineshape_class", as_bool(P.eng.identical(
                P.calls('construct')[0].recv, P.value("self._lineshape_class"))) if P.calls('construct') else z3.BoolVal(False))]),
            ("lineshape_set", "not is_none(self._lineshape)"),
        ])

    reg.contract(D + file, cls + ".emission", PROP, sorts=PT, ghost=EL,
        requires=SPECTRUM_OK + ["not is_none(self._plasma)",
            # representation invariant of the cache (established by _populate_cache, reset by _change)
            "implies(not is_none(self._target_species), not is_none(self._rates) and not is_none(self._lineshape))"],
        raises_any=["RuntimeError"],
        ensures=[
            ("calls", call_cases(['add_line'], [
                ("ne() <= 0 or te() <= 0 or ni() <= 0", []),
                ("ne() > 0 and te() > 0 and ni() > 0",
                 [('add_line', ["RECIP_4_PI * self._rates.evaluate(ne(), te()) * ne() * ni()", "point", "direction", "spectrum"])])])),
            ("identity_when_dark", "implies(ne() <= 0 or te() <= 0 or ni() <= 0, same(result, spectrum))"),
            ("result_from_lineshape", lambda P: [("result_from_lineshape", z3.Implies(
                as_bool(P.term("ne() > 0 and te() > 0 and ni() > 0")),
                as_bool(P.eng.identical(P.result, P.calls('add_line')[0].result)) if P.calls('add_line') else z3.BoolVal(False)))]),
            ("spectrum_untouched_here", "unchanged('$d1:real')"),
            ("cache_valid", "not is_none(self._target_species) and not is_none(self._rates) and not is_none(self._lineshape)"),
        ])


def composition_get(eng, st, fr, recv, args, kwargs):
    """Composition.get(element, charge): G_get(...) if G_has(...), else ValueError."""
    from pyvc.values import Ref, to_ref, to_int, Obj
    has = z3.Function('G_G_has', Ref, Ref, z3.IntSort(), z3.BoolSort())
    get = z3.Function('G_G_get', Ref, Ref, z3.IntSort(), Ref)
    a = (to_ref(recv), to_ref(args[0]), to_int(args[1]))
    eng.register_exc(st, z3.Not(has(*a)), 'ValueError')
    r = get(*a)
    st.pc.append(r != z3.Const('None', Ref))
    return Obj(r, 'Species')


def register(reg):
    line_model(reg, "impact_excitation.pyx", "ExcitationLine", "self._line.charge", "impact_excitation_pec")
    line_model(reg, "recombination.pyx", "RecombinationLine", "self._line.charge + 1", "recombination_pec")
    for cls, f in (("ExcitationLine", "impact_excitation.pyx"), ("RecombinationLine", "recombination.pyx")):
        reg.contract(D + f, cls + "._change", PROP,
            ensures=["is_none(self._target_species)", "is_none(self._rates)", "is_none(self._lineshape)", "self._wavelength == 0"],
            modifies=["_target_species:ref", "_rates:ref", "_wavelength:real", "_lineshape:ref"], name='reset')


def _lemmas(ctx):
    R = z3.Real
    ne, ni, q, k = R('ne'), R('ni'), R('q'), R('K')
    rad = k * q * ne * ni
    ni2, a = R('ni2'), R('a')
    return [
        lemma('line.nonnegative', PROP, [k > 0, q >= 0, ne > 0, ni > 0], rad >= 0, 'radiance >= 0 for non-negative PEC'),
        lemma('line.linear_in_ion_density', PROP, [], k * q * ne * (a * ni + ni2) == a * (k * q * ne * ni) + k * q * ne * ni2,
              'radiance is linear in the ion density'),
    ]


LEMMAS = [_lemmas]
