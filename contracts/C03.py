"""C03 — passive emission models radiate exactly their documented totals."""
import z3
from .common import call_cases, lemma, as_bool
from pyvc.values import to_real, Obj

PROP = 'C03'
LEVEL = 'proof'
EXPLANATION = ('Contracts on the real emission()/_populate_cache() bodies of the passive plasma models: guards, the '
               'radiance handed to the line shape (call-argument obligations), loop invariants for the donor sum, the '
               'uniform spreading of total radiated power and the bremsstrahlung bins; NRA lemmas for non-negativity '
               'and linearity.')

D = "cherab/core/model/plasma/"
SPECTRUM_OK = ["spectrum.bins >= 1", "spectrum.delta_wavelength > 0",
               "not is_none(spectrum.samples_mv)", "length(spectrum.samples_mv) == spectrum.bins"]

PT = {"point": "ref:Point3D!", "direction": "ref:Vector3D!", "spectrum": "ref:Spectrum!"}
EL = {"ne()": "self._plasma.get_electron_distribution().density(point.x, point.y, point.z)",
      "te()": "self._plasma.get_electron_distribution().effective_temperature(point.x, point.y, point.z)",
      "ni()": "self._target_species.distribution.density(point.x, point.y, point.z)"}

NOT_APPLICABLE = ['values of the Gaunt-factor tables and accuracy of the wavelength integrator (assumed external contracts)']
ASSUMPTIONS = ['rate coefficients are non-negative (hypothesis of the non-negativity lemma, as in the property statement)']


def line_model(reg, file, cls, charge_expr, pec):
    reg.contract(D + file, cls + "._populate_cache", PROP,
        raises={"RuntimeError": "is_none(self._plasma) or is_none(self._atomic_data) or is_none(self._line) or "
                                "not G_has(self._plasma._composition, self._line.element, %s)" % charge_expr},
        consts={"G_has": "fn:ref,ref,int->bool", "G_get": "fn:ref,ref,int->ref:Species"},
        externals={'Composition.get': {'kind': 'custom', 'fn': composition_get, 'override': True,
                                       'doc': 'Composition.get(element, charge): registered species or ValueError'}},
        modifies=["_target_species:ref", "_rates:ref", "_wavelength:real", "_lineshape:ref"],
        result='int',
        ensures=[
            ("target", "same(self._target_species, G_get(self._plasma._composition, self._line.element, %s))" % charge_expr),
            ("target_set", "not is_none(self._target_species)"),
            ("rate", "same(self._rates, self._atomic_data.%s(self._line.element, self._line.charge, self._line.transition))" % pec),
            ("rate_set", "not is_none(self._rates)"),
            ("wavelength", "self._wavelength == self._atomic_data.wavelength(self._line.element, self._line.charge, self._line.transition)"),
            ("lineshape_args", call_cases(['construct'], [("True", [('construct', [
                "self._line", "self._wavelength", "self._target_species", "self._plasma", "self._atomic_data"])])])),
            ("lineshape_class", lambda P: [("lineshape_class", as_bool(P.eng.identical(
                P.calls('construct')[0].recv, P.value("self._lineshape_class"))) if P.calls('construct') else z3.BoolVal(False))]),
            ("lineshape_set", "not is_none(self._lineshape)"),
        ])

    reg.contract(D + file, cls + ".emission", PROP, sorts=PT, ghost=EL,
        requires=SPECTRUM_OK + ["not is_none(self._plasma)",
            # representation invariant of the cache (established by _populate_cache, reset by _change)
            "implies(not is_none(self._target_species), not is_none(self._rates) and not is_none(self._lineshape))"],
        raises_any=["RuntimeError"],
        ensures=[
            ("calls", call_cases(['add_line'], [
                ("ne() <= 0 or te() <= 0 or ni() <= 0", []),
                ("ne() > 0 and te() > 0 and ni() > 0",
                 [('add_line', ["RECIP_4_PI * self._rates.evaluate(ne(), te()) * ne() * ni()", "point", "direction", "spectrum"])])])),
            ("identity_when_dark", "implies(ne() <= 0 or te() <= 0 or ni() <= 0, same(result, spectrum))"),
            ("result_from_lineshape", lambda P: [("result_from_lineshape", z3.Implies(
                as_bool(P.term("ne() > 0 and te() > 0 and ni() > 0")),
                as_bool(P.eng.identical(P.result, P.calls('add_line')[0].result)) if P.calls('add_line') else z3.BoolVal(False)))]),
            ("spectrum_untouched_here", "unchanged('$d1:real')"),
            ("cache_valid", "not is_none(self._target_species) and not is_none(self._rates) and not is_none(self._lineshape)"),
        ])


def composition_get(eng, st, fr, recv, args, kwargs):
    """Composition.get(element, charge): G_get(...) if G_has(...), else ValueError."""
    from pyvc.values import Ref, to_ref, to_int, Obj
    has = z3.Function('G_G_has', Ref, Ref, z3.IntSort(), z3.BoolSort())
    get = z3.Function('G_G_get', Ref, Ref, z3.IntSort(), Ref)
    a = (to_ref(recv), to_ref(args[0]), to_int(args[1]))
    eng.register_exc(st, z3.Not(has(*a)), 'ValueError')
    r = get(*a)
    st.pc.append(r != z3.Const('None', Ref))
    return Obj(r, 'Species')


def register(reg):
    line_model(reg, "impact_excitation.pyx", "ExcitationLine", "self._line.charge", "impact_excitation_pec")
    line_model(reg, "recombination.pyx", "RecombinationLine", "self._line.charge + 1", "recombination_pec")
    for cls, f in (("ExcitationLine", "impact_excitation.pyx"), ("RecombinationLine", "recombination.pyx")):
        reg.contract(D + f, cls + "._change", PROP,
            ensures=["is_none(self._target_species)", "is_none(self._rates)", "is_none(self._lineshape)", "self._wavelength == 0"],
            modifies=["_target_species:ref", "_rates:ref", "_wavelength:real", "_lineshape:ref"], name='reset')


def _lemmas(ctx):
    R = z3.Real
    ne, ni, q, k = R('ne'), R('ni'), R('q'), R('K')
    rad = k * q * ne * ni
    ni2, a = R('ni2'), R('a')
    return [
        lemma('line.nonnegative', PROP, [k > 0, q >= 0, ne > 0, ni > 0], rad >= 0, 'radiance >= 0 for non-negative PEC'),
        lemma('line.linear_in_ion_density', PROP, [], k * q * ne * (a * ni + ni2) == a * (k * q * ne * ni) + k * q * ne * ni2,
              'radiance is linear in the ion density'),
    ]


LEMMAS = [_lemmas]


# ---------------------------------------------------------------------------------------------- thermal CX, TRP, brems
def register_more(reg):
    T = D + "thermal_cx.pyx"
    dens = lambda o: "%s.distribution.density(point.x, point.y, point.z)" % o
    temp = lambda o: "%s.distribution.effective_temperature(point.x, point.y, point.z)" % o
    reg.contract(T, "ThermalCXLine.emission", PROP, sorts=PT,
        attrs={"_rates": "seq:ref"},
        ghost=dict(EL, **{
            "sp(j)": "typed(as_seq(self._rates[j])[0], 'Species')",
            "rt(j)": "typed(as_seq(self._rates[j])[1], 'ThermalCXPEC')",
            "dterm(j)": dens("sp(j)") + " * rt(j).evaluate(ne(), te(), " + temp("sp(j)") + ")"}),
        consts={"wsum": "fn:int->real"},
        axioms=["wsum(0) == 0", "forall(j, j >= 0, wsum(j + 1) == wsum(j) + dterm(j))"],
        requires=SPECTRUM_OK + ["not is_none(self._plasma)", "not is_none(self._target_species)", "not is_none(self._rates)",
                                "not is_none(self._lineshape)"],
        loops={0: dict(index='k', invariant=["weighted_rate == wsum(k)", "0 <= k"])},
        ensures=[
            ("calls", call_cases(['add_line'], [
                ("ne() <= 0 or te() <= 0 or ni() <= 0", []),
                ("ne() > 0 and te() > 0 and ni() > 0",
                 [('add_line', ["RECIP_4_PI * wsum(length(self._rates)) * ni()", "point", "direction", "spectrum"])])])),
            ("identity_when_dark", "implies(ne() <= 0 or te() <= 0 or ni() <= 0, same(result, spectrum))"),
            ("spectrum_untouched_here", "unchanged('$d1:real')")],
        note='wsum(n) is by its defining axioms the documented sum over the eligible donors of n_d * PEC_d(ne, te, T_d)')

    # ThermalCXLine._populate_cache: one arbitrary iteration of the donor loop - a species becomes a donor iff it is not the receiver species
    # itself and is not fully ionised (whatever its charge relative to the receiver); its rate is the CX PEC of THAT donor onto the receiver
    DG = {"elig()": "species != self._target_species and species.charge < species.element.atomic_number",
          "R()": "self._rates", "last()": "as_seq(R()[length(R()) - 1])",
          "pec()": "self._atomic_data.thermal_cx_pec(species.element, species.charge, self._line.element, receiver_charge, self._line.transition)"}
    reg.contract(T, "ThermalCXLine._populate_cache", PROP, name='donor-iteration', flags={'loop_body': 0}, ghost=DG,
        sorts={"species": "ref:Species!", "receiver_charge": "int"}, attrs={"_rates": "seq:ref"},
        requires=["not is_none(self._rates)", "not is_none(self._atomic_data)", "not is_none(self._line)", "not is_none(species.element)"],
        externals={'.thermal_cx_pec': {'kind': 'pure', 'result': 'ref:ThermalCXPEC', 'doc': 'atomic data provider: thermal CX PEC'}},
        ensures=[("donor.appended_iff_eligible", "length(R()) == old(length(R())) + ite(elig(), 1, 0)"),
                 ("donor.entry", "implies(elig(), same(last()[0], species) and same(last()[1], pec()))"),
                 ("donor.earlier_entries_kept", "forall(q, 0 <= q and q < old(length(R())), same(R()[q], old(R()[q])))")])

    P = D + "total_radiated_power.pyx"
    reg.contract(P, "TotalRadiatedPower.emission", PROP, sorts=PT,
        attrs={"_hydrogen_species": "seq:ref"},
        ghost={"ne()": EL["ne()"], "te()": EL["te()"],
               "ni()": dens("self._line_rad_species"), "nu()": dens("self._recom_species"),
               "hy(j)": dens("typed(self._hydrogen_species[j], 'Species')"),
               "nh()": "hsum(length(self._hydrogen_species))",
               "S(k)": "spectrum.samples_mv[k]",
               "exc()": "ite(not is_none(self._plt_rate) and ni() > 0, self._plt_rate.evaluate(ne(), te()) * ne() * ni(), 0)",
               "rec()": "ite(not is_none(self._prb_rate) and nu() > 0, self._prb_rate.evaluate(ne(), te()) * ne() * nu(), 0)",
               "cx()": "ite(not is_none(self._prc_rate) and nu() > 0 and nh() > 0, self._prc_rate.evaluate(ne(), te()) * nh() * nu(), 0)",
               "rad()": "RECIP_4_PI * (exc() + rec() + cx()) / (spectrum.max_wavelength - spectrum.min_wavelength)"},
        consts={"hsum": "fn:int->real"},
        axioms=["hsum(0) == 0", "forall(j, j >= 0, hsum(j + 1) == hsum(j) + hy(j))"],
        requires=SPECTRUM_OK + ["not is_none(self._plasma)", "self._cache_loaded", "not is_none(self._line_rad_species)",
                                "not is_none(self._recom_species)", "not is_none(self._hydrogen_species)",
                                "spectrum.max_wavelength > spectrum.min_wavelength"],
        loops={0: dict(index='k', invariant=["nhyd == hsum(k)", "0 <= k"]),
               1: dict(invariant=["0 <= i", "forall(k, 0 <= k and k < i, S(k) == old(S(k)) + radiance)",
                                  "forall(k, not (0 <= k and k < i), S(k) == old(S(k)))",
                                  "unchanged_except('$d1:real', spectrum.samples_mv)"])},
        ensures=[("identity", "same(result, spectrum)"),
                 ("dark", "implies(ne() <= 0 or te() <= 0, unchanged('$d1:real'))"),
                 ("uniform", "implies(ne() > 0 and te() > 0, forall(k, 0 <= k and k < spectrum.bins, S(k) == old(S(k)) + rad()))"),
                 ("frame", "unchanged_except('$d1:real', spectrum.samples_mv)")],
        modifies=["$d1:real"])

    B = D + "bremsstrahlung.pyx"
    reg.contract(B, "BremsFunction.evaluate", PROP, sorts={"wvl": "real"},
        ghost={"z(j)": "self.species_charge_mv[j]", "n(j)": "self.species_density_mv[j]",
               "gterm(j)": "ite(n(j) > 0, n(j) * self.gaunt_factor.evaluate(z(j), self.te, wvl) * z(j) * z(j), 0)"},
        consts={"gsum": "fn:int->real"},
        axioms=["gsum(0) == 0", "forall(j, j >= 0, gsum(j + 1) == gsum(j) + gterm(j))"],
        requires=["not is_none(self.species_charge_mv)", "not is_none(self.species_density_mv)",
                  "length(self.species_density_mv) == length(self.species_charge_mv)", "not is_none(self.gaunt_factor)"],
        loops={0: dict(invariant=["0 <= i", "ni_gff_z2 == gsum(i)"])},
        result='real',
        ensures=[("hutchinson_5_3_40",
                  "result == BREMS_CONST / (sqrt(self.te) * wvl * wvl) * self.ne * gsum(length(self.species_charge_mv)) "
                  "* exp(- EXP_FACTOR / (self.te * wvl))")],
        modifies=[])

    DENS_OK = ("forall(j, 0 <= j and j < nsp() and sp(j).charge > 0, Dn(cnt(j)) == dn(j))")
    reg.contract(B, "Bremsstrahlung.emission", PROP, sorts=PT, name='bins',
        ghost={"ne()": EL["ne()"], "te()": EL["te()"], "S(k)": "spectrum.samples_mv[k]",
               "edge(k)": "spectrum.min_wavelength + spectrum.delta_wavelength * k",
               "comp()": "as_seq(self._plasma.get_composition())", "nsp()": "length(comp())",
               "sp(j)": "typed(comp()[j], 'Species')",
               "dn(j)": "sp(j).distribution.density(point.x, point.y, point.z)",
               "Dn(m)": "self._brems_func.species_density_mv[m]"},
        consts={"cnt": "fn:int->int"},
        axioms=["cnt(0) == 0", "forall(j, j >= 0, cnt(j + 1) == cnt(j) + ite(sp(j).charge > 0, 1, 0))"],
        requires=SPECTRUM_OK + ["not is_none(self._plasma)", "not is_none(self._brems_func)", "not is_none(self._integrator)",
                                "not is_none(self._brems_func.species_charge)",
                                "not is_none(self._brems_func.species_density_mv)",
                                "not same(self._brems_func.species_density_mv, spectrum.samples_mv)",
                                "same(self._integrator.function, self._brems_func)"],
        externals={'Composition.__iter__': {'kind': 'pure', 'result': 'seq:ref', 'doc': 'iteration order of the composition'}},
        loops={0: dict(index='k', invariant=["unchanged_except('$d1:real', self._brems_func.species_density_mv)", "0 <= i", "0 <= k",
                                             "i == cnt(k)", "forall(j, 0 <= j and j <= k, cnt(j) <= i)",
                                             "forall(j, 0 <= j and j < k and sp(j).charge > 0, Dn(cnt(j)) == dn(j))"],
                       note='memory safety of species_density_mv[i] depends on the cache/composition coherence of C01'),
               1: dict(invariant=["0 <= i", "lower_wavelength == edge(i)",
                                  "forall(k, 0 <= k and k < i, S(k) == old(S(k)) + self._integrator.evaluate(edge(k), edge(k + 1)) / spectrum.delta_wavelength)",
                                  "forall(k, not (0 <= k and k < i), S(k) == old(S(k)))",
                                  "self._brems_func.ne == ne() and self._brems_func.te == te()",
                                  "same(self._integrator.function, self._brems_func)", DENS_OK])},
        flags={'skip_bounds': ['self._brems_func.species_density_mv']},
        ensures=[("identity", "same(result, spectrum)"),
                 ("dark", "implies(ne() <= 0 or te() <= 0, forall(k, S(k) == old(S(k))))"),
                 ("bin_average", "implies(ne() > 0 and te() > 0, forall(k, 0 <= k and k < spectrum.bins, "
                  "S(k) == old(S(k)) + self._integrator.evaluate(edge(k), edge(k + 1)) / spectrum.delta_wavelength))"),
                 ("integrand_state", "implies(ne() > 0 and te() > 0, self._brems_func.ne == ne() and self._brems_func.te == te() "
                  "and same(self._integrator.function, self._brems_func))"),
                 # the integrand sees the LOCAL density of every charged species, in composition order (no value left from an earlier point)
                 ("integrand_densities", "implies(ne() > 0 and te() > 0, %s)" % DENS_OK)])


def _np_array_1d(eng, st, fr, recv, args, kwargs):
    """numpy.array(seq, dtype=float64) of a 1-D Python sequence: a NEW 1-D float64 array of the same length with the same elements."""
    src = args[0]
    if isinstance(src, (list, tuple)):
        o = eng.new_obj(st, 'ndarray', 'arr', 'real', 1, name='nparray')
        st.heap['$len'] = z3.Store(eng.field(st, '$len'), o.ref, z3.IntVal(len(src)))
        for k, x in enumerate(src):
            eng.arr_write(st, o, [k], to_real(x))
        return o
    if not (isinstance(src, Obj) and src.kind in ('seq', 'arr') and src.ndim == 1):
        from pyvc.values import Unsupported
        raise Unsupported('numpy.array of %r' % (src,))
    o = eng.new_obj(st, 'ndarray', 'arr', 'real', 1, name='nparray')
    st.heap['$len'] = z3.Store(eng.field(st, '$len'), o.ref, z3.Select(eng.field(st, '$len'), src.ref))
    i = z3.Int('i!npa')
    sfid = eng.arr_fid(src)
    row = z3.Select(z3.Select(eng.field(st, sfid), src.ref), i)
    if row.sort().kind() == z3.Z3_INT_SORT:
        row = z3.ToReal(row)
    st.heap['$d1:real'] = z3.Store(eng.field(st, '$d1:real'), o.ref, z3.Lambda([i], row))
    return o


def _np_zeros_like_1d(eng, st, fr, recv, args, kwargs):
    src = args[0]
    o = eng.new_obj(st, 'ndarray', 'arr', 'real', 1, name='zeros')
    st.heap['$len'] = z3.Store(eng.field(st, '$len'), o.ref, z3.Select(eng.field(st, '$len'), src.ref))
    st.heap['$d1:real'] = z3.Store(eng.field(st, '$d1:real'), o.ref, z3.K(z3.IntSort(), z3.RealVal(0)))
    return o


def register_brems_cache(reg):
    """Bremsstrahlung._populate_cache: the cached charge array lists the charges of exactly the species emission() collects densities for
    (charge > 0), in composition order - slot cnt(j) of both arrays belongs to species j - so every density meets its own Z^2 and Gaunt
    factor in BremsFunction.evaluate; both arrays have one slot per charged species."""
    B = "cherab/core/model/plasma/bremsstrahlung.pyx"
    reg.contract(B, "Bremsstrahlung._populate_cache", PROP, name='charges', sorts={"species_charge": "seq:int"},
        ghost={"comp()": "as_seq(self._plasma.get_composition())", "nsp()": "length(comp())", "sp(j)": "typed(comp()[j], 'Species')",
               "Z(m)": "self._brems_func.species_charge_mv[m]"},
        consts={"cnt": "fn:int->int"},
        axioms=["cnt(0) == 0", "forall(j, j >= 0, cnt(j + 1) == cnt(j) + ite(sp(j).charge > 0, 1, 0))"],
        requires=["not is_none(self._brems_func)"],
        externals={'Composition.__iter__': {'kind': 'pure', 'result': 'seq:ref', 'doc': 'iteration order of the composition'},
                   'array': {'kind': 'custom', 'fn': _np_array_1d, 'doc': 'numpy.array(seq, dtype=float64): new 1-D array, same elements'},
                   'zeros_like': {'kind': 'custom', 'fn': _np_zeros_like_1d, 'doc': 'numpy.zeros_like(a): new array of the same length'},
                   '.free_free_gaunt_factor': {'kind': 'fresh', 'result': 'ref:FreeFreeGauntFactor', 'doc': 'atomic data provider'}},
        loops={0: dict(index='k', invariant=["0 <= k", "length(species_charge) == cnt(k)", "forall(j, 0 <= j and j <= k, 0 <= cnt(j) and cnt(j) <= cnt(k))",
                                             "forall(j, 0 <= j and j < k and sp(j).charge > 0, species_charge[cnt(j)] == sp(j).charge)"])},
        raises_any=["RuntimeError"],
        ensures=[("one_slot_per_charged_species", "length(self._brems_func.species_charge_mv) == cnt(nsp()) and "
                  "length(self._brems_func.species_density_mv) == cnt(nsp())"),
                 ("charge_aligned_with_density_slot", "forall(j, 0 <= j and j < nsp() and sp(j).charge > 0, Z(cnt(j)) == sp(j).charge)"),
                 ("views_of_the_arrays", "same(self._brems_func.species_charge_mv, self._brems_func.species_charge) and "
                  "same(self._brems_func.species_density_mv, self._brems_func.species_density)")])


_register0 = register
_register0 = register


def register(reg):
    _register0(reg)
    register_more(reg)
    register_brems_cache(reg)


def _constants(ctx, eng):
    """Closed constants: evaluated from the module's own initialiser statements (no inputs: evaluation is the proof)."""
    import math
    from .common import structural
    t = ctx['tree']
    e, eps0, me, c, h = 1.602176634e-19, 8.8541878128e-12, 9.1093837015e-31, 299792458.0, 6.62607015e-34
    want_b = (e ** 2 / (4 * math.pi * eps0)) ** 3 * 32 * math.pi ** 2 / (3 * math.sqrt(3) * me ** 2 * c ** 3) \
        * math.sqrt(2 * me / (math.pi * e)) * c * 1e9 / (4 * math.pi)
    out = []
    for name, file, want in (("RECIP_4_PI", "cherab/core/utility/constants.pyx", 1 / (4 * math.pi)),
                             ("BREMS_CONST", "cherab/core/model/plasma/bremsstrahlung.pyx", want_b),
                             ("EXP_FACTOR", "cherab/core/model/plasma/bremsstrahlung.pyx", h * c * 1e9 / e)):
        got = t.eval_const(file, name)
        ok = abs(got - want) <= 1e-6 * abs(want)
        out.append(structural('constants/%s' % name, PROP, ok, '%s = %r, documented value %r (rel. tol 1e-6, CODATA 2018)' % (name, got, want)))
    return out


GENERATORS = [_constants]


def brems_order_replay(ctx, o):
    """Neutrals radiate no bremsstrahlung and the sum over ions does not depend on the order of the composition: the real model is evaluated
    for every ordering of {D0, D+, He0, N7+} and compared with the ions-only plasma {D+, N7+}."""
    from replaylib.native import run_native
    code = """
import itertools
import numpy as np, scipy.constants as const
from raysect.optical import World, Point3D, Vector3D, Spectrum
from raysect.primitive import Box
from cherab.core import Plasma, Species, Maxwellian
from cherab.core.atomic import AtomicData, MaxwellianFreeFreeGauntFactor, deuterium, nitrogen, helium
v0 = Vector3D(0, 0, 0)
from cherab.core.model import Bremsstrahlung
def sp(el, q, n): return Species(el, q, Maxwellian(n, 2000., v0, el.atomic_weight * const.atomic_mass))
def emit(species):
    w = World(); p = Plasma(parent=w); p.geometry = Box(Point3D(0, -0.5, -0.5), Point3D(1, 0.5, 0.5))
    p.electron_distribution = Maxwellian(1e19, 2000., v0, const.m_e); p.b_field = v0
    p.composition = species; p.atomic_data = AtomicData()
    m = Bremsstrahlung(gaunt_factor=MaxwellianFreeFreeGauntFactor()); p.models = [m]
    s = Spectrum(400., 800., 8); m.emission(Point3D(0.5, 0, 0), Vector3D(1, 0, 0), s); return s.samples.copy()
parts = {"D0": (deuterium, 0, 3e18), "D1": (deuterium, 1, 8e18), "He0": (helium, 0, 5e17), "N7": (nitrogen, 7, 2e17)}
want = emit([sp(*parts["D1"]), sp(*parts["N7"])])
bad = []; n = 0
for order in itertools.permutations(sorted(parts)):
    got = emit([sp(*parts[k]) for k in order]); n += 1
    if not np.allclose(got, want, rtol=1e-9, atol=0):
        bad.append({"composition_order": list(order), "integrated_emission": float(got.sum() * 50.), "ions_only_plasma": float(want.sum() * 50.)})
print(json.dumps({"cases": n, "bad": bad[:4], "nbad": len(bad)}))
"""
    out = run_native(ctx, code, timeout=300)
    exp = 'same spectrum as the plasma that holds only the ions (neutrals add nothing; order of the composition is irrelevant)'
    if out and out.get('nbad'):
        return {'confirmed': True, 'input': out['bad'][0], 'observed': out, 'expected': exp}
    return {'confirmed': False, 'input': None, 'observed': out, 'expected': exp}


def native_replay(ctx, o):
    """Bremsstrahlung obligations: the real compiled model is evaluated at a sequence of points of a plasma whose impurity exists in one half
    only (density 0 or negative in the other half); every value is compared with a FRESH model instance evaluated at that point alone."""
    if 'Bremsstrahlung._populate_cache' in o.name:
        return brems_order_replay(ctx, o)
    if 'Bremsstrahlung.emission' not in o.name:
        return None
    from replaylib.native import run_native
    code = """
import numpy as np, scipy.constants as const
from raysect.optical import World, Point3D, Vector3D, Spectrum
from raysect.primitive import Box
from cherab.core import Plasma, Species, Maxwellian
from cherab.core.atomic import AtomicData, MaxwellianFreeFreeGauntFactor, deuterium, nitrogen
from cherab.core.model import Bremsstrahlung
def build(outside):
    w = World(); p = Plasma(parent=w); p.geometry = Box(Point3D(0, -0.5, -0.5), Point3D(1, 0.5, 0.5))
    v0 = Vector3D(0, 0, 0)
    p.electron_distribution = Maxwellian(1e19, 2000., v0, const.m_e); p.b_field = v0
    dens = lambda x, y, z: 1e18 if x < 0.5 else outside
    p.composition = [Species(deuterium, 1, Maxwellian(1e19, 2000., v0, deuterium.atomic_weight * const.atomic_mass)),
                     Species(nitrogen, 7, Maxwellian(dens, 2000., v0, nitrogen.atomic_weight * const.atomic_mass))]
    p.atomic_data = AtomicData()
    m = Bremsstrahlung(gaunt_factor=MaxwellianFreeFreeGauntFactor()); p.models = [m]
    return w, p, m
def emit(m, pt):
    s = Spectrum(400., 800., 8); m.emission(pt, Vector3D(1, 0, 0), s); return s.samples.copy()
bad = []
for outside in (0.0, -1e18):
    w, p, m = build(outside)
    for pt in (Point3D(0.75, 0, 0), Point3D(0.25, 0, 0), Point3D(0.75, 0, 0), Point3D(0.9, 0.1, -0.2)):
        got = emit(m, pt)
        w2, p2, m2 = build(outside)
        want = emit(m2, pt)
        if not np.allclose(got, want, rtol=1e-9, atol=0):
            bad.append({"impurity_density_for_x_ge_0.5": outside, "point": [pt.x, pt.y, pt.z], "after_earlier_points": float(got.sum()), "fresh_model": float(want.sum())})
print(json.dumps({"bad": bad[:4], "nbad": len(bad)}))
"""
    out = run_native(ctx, code, timeout=300)
    exp = 'emission at a point depends on the local densities only (same as a fresh model instance)'
    if out and out.get('nbad'):
        return {'confirmed': True, 'input': out['bad'][0], 'observed': out, 'expected': exp}
    return {'confirmed': False, 'input': None, 'observed': out, 'expected': exp}
