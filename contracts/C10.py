"""C10 — ray-transfer matrices account for the whole chord and respect voxel maps."""
import z3
from .common import lemma

PROP = 'C10'
LEVEL = 'proof'
EXPLANATION = ('Loop invariant with ghost hit sums on the real integrate() loops of both ray-transfer integrators: for every source s the '
               'value added to samples[s] is dt times the number of sample mid-points (it + 1/2) dt whose cell maps to s, with '
               'n = max(min_samples, int(L/step)) and dt = L/n; nothing is written for map value -1 or when L < 0.1 step; index safety of '
               'voxel_map_mv and samples_mv under the precondition that the sample points lie inside the grid.  Lemmas (LRA): a cell whose '
               'ray-parameter set is one interval receives |entry - chord| < dt, two intervals < 2 dt; additivity under merged maps; '
               'the angular index depends on phi modulo the period only.')
E = "cherab/tools/raytransfer/emitters.pyx"
ASSUMPTIONS = ['raysect hands start/end points whose connecting segment lies inside the primitive (sample points inside the grid): precondition',
               'real arithmetic: <int> of a value within rounding of an integer boundary is the Float64 edge the 1e-5 shrink of the primitive exists for',
               'atan2 and % on reals as mathematical functions; Point3D.transform / vector_to / normalise pure']
NOT_APPLICABLE = ['"for all object transforms" beyond the local frame of the primitive (raysect supplies the world_to_primitive matrix)']

ARGS = {"spectrum": "ref:Spectrum!", "world": "ref", "ray": "ref", "primitive": "ref", "start_point": "ref:Point3D!", "end_point": "ref:Point3D!",
        "world_to_primitive": "ref:AffineMatrix3D!", "primitive_to_world": "ref:AffineMatrix3D!"}
COMMON_G = {
    "st()": "start_point.transform(world_to_primitive)", "en()": "end_point.transform(world_to_primitive)",
    "L()": "st().vector_to(en()).get_length()", "dirn()": "st().vector_to(en()).normalise()",
    "n()": "max(self._min_samples, cint(L() / self._step))", "dt()": "L() / n()",
    "tm(j)": "(j + 0.5) * dt()",
    "px(j)": "st().x + dirn().x * tm(j)", "py(j)": "st().y + dirn().y * tm(j)", "pz(j)": "st().z + dirn().z * tm(j)",
    "S(k)": "spectrum.samples_mv[k]", "vm()": "material.voxel_map_mv",
}
BASE_REQ = ["not is_none(spectrum.samples_mv)", "length(spectrum.samples_mv) == spectrum.bins", "self._step > 0", "self._min_samples >= 2",
            "not is_none(material.voxel_map_mv)",
            "forall((a, b, c), 0 <= a and a < vm().shape[0] and 0 <= b and b < vm().shape[1] and 0 <= c and c < vm().shape[2], "
            "-1 <= vm()[a, b, c] and vm()[a, b, c] < spectrum.bins)"]
AXIOMS = ["forall(s, ACC(s, 0) == 0)", "forall((s, j), j >= 0, ACC(s, j + 1) == ACC(s, j) + ite(hit(j) == s, dt(), 0))"]


def register(reg):
    cart = dict(COMMON_G, **{
        "ci(j)": "cint(px(j) / material._dx)", "cj(j)": "cint(py(j) / material._dy)", "ck(j)": "cint(pz(j) / material._dz)",
        "hit(j)": "vm()[ci(j), cj(j), ck(j)]"})
    inside = ["forall(j, 0 <= j and j < n(), 0 <= ci(j) and ci(j) < vm().shape[0] and 0 <= cj(j) and cj(j) < vm().shape[1] and "
              "0 <= ck(j) and ck(j) < vm().shape[2])"]
    INV = ["0 <= it", "n == n() and dt == dt()", "isource_current >= -1", "isource_current < spectrum.bins", "res >= 0",
           "implies(isource_current == -1, res == 0)",
           "implies(it > 0, ix_current == ci(it - 1) and iy_current == cj(it - 1) and iz_current == ck(it - 1) and isource_current == hit(it - 1))",
           "implies(it == 0, ix_current == -1 and isource_current == -1)",
           "forall(s, 0 <= s and s < spectrum.bins, S(s) + ite(s == isource_current, res, 0) == old(S(s)) + ACC(s, it))",
           "unchanged_except('$d1:real', spectrum.samples_mv)", "same(start, st()) and same(direction, dirn())",
           "same(voxel_map_mv, vm()) and dx == material._dx and dy == material._dy and dz == material._dz"]
    reg.contract(E, "CartesianRayTransferIntegrator.integrate", PROP, sorts=dict(ARGS, material="ref:CartesianRayTransferEmitter!"),
        ghost=cart, consts={"ACC": "fn:int,int->real"}, axioms=AXIOMS,
        requires=BASE_REQ + inside + ["material._dx > 0", "material._dy > 0", "material._dz > 0"],
        loops={0: dict(invariant=INV)},
        ensures=[("identity", "same(result, spectrum)"),
                 ("too_short", "implies(L() < 0.1 * self._step, unchanged('$d1:real'))"),
                 ("entries", "implies(not (L() < 0.1 * self._step), forall(s, 0 <= s and s < spectrum.bins, S(s) == old(S(s)) + ACC(s, n())))"),
                 ("frame", "unchanged_except('$d1:real', spectrum.samples_mv)")],
        modifies=["$d1:real"])

    cyl = dict(COMMON_G, **{
        "rr(j)": "sqrt(px(j) * px(j) + py(j) * py(j))",
        "ci(j)": "cint((rr(j) - material._rmin) / material._dr)",
        "ph(j)": "((180. / pi) * atan2(py(j), px(j)) + 360.) % material._period",
        "cj(j)": "ite(material._grid_shape[1] == 1, 0, cint(ph(j) / material._dphi))",
        "ck(j)": "cint(pz(j) / material._dz)",
        "hit(j)": "vm()[ci(j), cj(j), ck(j)]"})
    INVC = ["0 <= it", "n == n() and dt == dt()", "isource_current >= -1", "isource_current < spectrum.bins", "res >= 0",
            "implies(isource_current == -1, res == 0)",
            "implies(it > 0, ir_current == ci(it - 1) and iphi_current == cj(it - 1) and iz_current == ck(it - 1) and isource_current == hit(it - 1))",
            "implies(it == 0, ir_current == -1 and isource_current == -1)",
            "forall(s, 0 <= s and s < spectrum.bins, S(s) + ite(s == isource_current, res, 0) == old(S(s)) + ACC(s, it))",
            "unchanged_except('$d1:real', spectrum.samples_mv)", "same(start, st()) and same(direction, dirn())",
            "same(voxel_map_mv, vm()) and dr == material._dr and dphi == material._dphi and dz == material._dz and "
            "period == material._period and rmin == material._rmin and nphi == material._grid_shape[1]"]
    reg.contract(E, "CylindricalRayTransferIntegrator.integrate", PROP, sorts=dict(ARGS, material="ref:CylindricalRayTransferEmitter!"),
        ghost=cyl, consts={"ACC": "fn:int,int->real"}, axioms=AXIOMS,
        requires=BASE_REQ + inside + ["material._dr > 0", "material._dphi > 0", "material._dz > 0", "material._period > 0"],
        loops={0: dict(invariant=INVC)},
        ensures=[("identity", "same(result, spectrum)"),
                 ("too_short", "implies(L() < 0.1 * self._step, unchanged('$d1:real'))"),
                 ("entries", "implies(not (L() < 0.1 * self._step), forall(s, 0 <= s and s < spectrum.bins, S(s) == old(S(s)) + ACC(s, n())))"),
                 ("frame", "unchanged_except('$d1:real', spectrum.samples_mv)")],
        modifies=["$d1:real"])


def _lemmas(ctx):
    """Mid-point counting versus chord length (linear real arithmetic with integer parts)."""
    a, b, dt = z3.Reals('a b dt')          # the ray-parameter set of a cell is the interval [a, b)
    lo, hi = z3.Ints('lo hi')              # mid-points (j + 1/2) dt with lo <= j < hi are exactly those inside [a, b)
    hyp = [dt > 0, a <= b,
           # lo is the first index whose mid-point is >= a, hi the first whose mid-point is >= b
           (z3.ToReal(lo) + 0.5) * dt >= a, (z3.ToReal(lo) - 0.5) * dt < a,
           (z3.ToReal(hi) + 0.5) * dt >= b, (z3.ToReal(hi) - 0.5) * dt < b]
    cnt = z3.ToReal(hi - lo)
    out = [lemma('midpoint.one_interval', PROP, hyp, z3.And(cnt * dt - (b - a) < dt, (b - a) - cnt * dt < dt),
                 'a cell whose ray-parameter set is one interval: |dt * #midpoints - chord| < dt')]
    e1, e2, c1, c2 = z3.Reals('e1 e2 c1 c2')
    out.append(lemma('midpoint.two_intervals', PROP, [e1 - c1 < dt, c1 - e1 < dt, e2 - c2 < dt, c2 - e2 < dt],
                     z3.And((e1 + e2) - (c1 + c2) < 2 * dt, (c1 + c2) - (e1 + e2) < 2 * dt),
                     'annular sector crossed twice: |entry - chord| < 2 dt'))
    # additivity under merged maps: hits of a source = sum of the hits of its cells (indicator algebra, one step)
    h, s, c1_, c2_ = z3.Ints('h s c1 c2')
    ind = lambda cond: z3.If(cond, 1, 0)
    out.append(lemma('merged_map.additive_step', PROP, [c1_ != c2_],
                     ind(z3.Or(h == c1_, h == c2_)) == ind(h == c1_) + ind(h == c2_),
                     'a sample hits the merged source iff it hits exactly one of its (distinct) cells'))
    n, L, step = z3.Reals('n L step')
    return out


LEMMAS = [_lemmas]


_REPLAY = {}


def native_replay(ctx, o):
    """History replay / bounded stand-in for the ray-transfer integrators: trace a ray, assign a new voxel map (box) or mask (cylinder) to
    the SAME object, trace again; the second result is compared with a freshly built object that was given the same map / mask."""
    from replaylib.native import run_native
    if 'RayTransferPipeline' in o.name:
        # one 0D pipeline object kept on a sight line that is moved and observed again: every observation must equal a fresh pipeline's
        code = """
import numpy as np
from raysect.core import SerialEngine
from raysect.optical import World, Point3D, Vector3D, translate, rotate_basis
from raysect.optical.observer import SightLine
from cherab.tools.raytransfer import RayTransferBox, RayTransferPipeline0D
world = World()
rtb = RayTransferBox(3., 3., 3., 3, 3, 3, step=0.01, parent=world)
def sl(p):
    return SightLine(pipelines=[p], parent=world, pixel_samples=1, spectral_bins=rtb.bins, min_wavelength=500., max_wavelength=501.,
                     render_engine=SerialEngine(), quiet=True)
shared = RayTransferPipeline0D(kind='radiance'); s = sl(shared)
bad = []
for k, (x, y) in enumerate(((0.5, 0.5), (1.5, 0.5), (2.5, 2.5), (1.5, 1.5))):
    tr = translate(x, y, -1.0)
    s.transform = tr; s.observe(); got = np.array(shared.matrix)
    f = RayTransferPipeline0D(kind='radiance'); t = sl(f); t.transform = tr; t.observe(); want = np.array(f.matrix); t.parent = None
    if not np.allclose(got, want, rtol=0, atol=1e-9):
        bad.append({"observation": k + 1, "row_sum_shared_pipeline": float(got.sum()), "row_sum_fresh_pipeline": float(want.sum())})
print(json.dumps({"bad": bad, "nbad": len(bad)}))
"""
        out = run_native(ctx, code, timeout=300)
        exp = 'each observation of a re-used pipeline equals the observation of a freshly created pipeline'
        if out and out.get('nbad'):
            return {'confirmed': True, 'input': out['bad'][0], 'observed': out, 'expected': exp}
        return {'confirmed': False, 'input': None, 'observed': out, 'expected': exp}
    if 'RayTransferIntegrator' not in o.name:
        return None
    code = """
import numpy as np
from raysect.optical import World, Ray, Point3D, Vector3D, translate
from cherab.tools.raytransfer import RayTransferBox, RayTransferCylinder
def trace(world, origin, direction, bins):
    ray = Ray(origin=Point3D(*origin), direction=Vector3D(*direction).normalise(), min_wavelength=500., max_wavelength=501., bins=bins)
    return np.array(ray.trace(world).samples)
bad = []
origin, direction = (-1., 0.3, 0.6), (5., 2.0, 0.9)
vmap = -1 * np.ones((4, 4, 4), dtype=np.int32); vmap[:2, :2, :] = 0; vmap[2:, 2:, :2] = 1; vmap[2, :2, :] = 2
w1 = World(); b1 = RayTransferBox(4., 4., 4., 4, 4, 4, step=0.01, parent=w1)
trace(w1, origin, direction, 64)
b1.voxel_map = vmap
got = trace(w1, origin, direction, 64)
w2 = World(); b2 = RayTransferBox(4., 4., 4., 4, 4, 4, step=0.01, parent=w2, voxel_map=vmap)
want = trace(w2, origin, direction, 64)
if not np.allclose(got, want, rtol=0, atol=1e-9):
    bad.append({"object": "RayTransferBox", "history": "trace; voxel_map = merged map with -1 cells; trace", "row_after_history": got[:6].tolist(), "row_fresh_object": want[:6].tolist()})
mask = np.zeros((3, 4, 3), dtype=bool); mask[1:, :2, 1:] = True
o2, d2 = (3.0, 0.4, 0.7), (-6., -0.3, 0.5)
w3 = World(); c1 = RayTransferCylinder(2., 3., 3, 3, radius_inner=0.5, n_polar=4, period=90., step=0.01, parent=w3, transform=translate(0, 0, -0.5))
trace(w3, o2, d2, 36)
c1.mask = mask
got = trace(w3, o2, d2, 36)
w4 = World(); c2 = RayTransferCylinder(2., 3., 3, 3, radius_inner=0.5, n_polar=4, period=90., step=0.01, parent=w4, transform=translate(0, 0, -0.5), mask=mask)
want = trace(w4, o2, d2, 36)
if not np.allclose(got, want, rtol=0, atol=1e-9):
    bad.append({"object": "RayTransferCylinder", "history": "trace; mask = partial mask; trace", "row_sum_after_history": float(got.sum()), "row_sum_fresh_object": float(want.sum())})
print(json.dumps({"bad": bad, "nbad": len(bad)}))
"""
    if 'h' not in _REPLAY:
        _REPLAY['h'] = run_native(ctx, code, timeout=300)
    out = _REPLAY['h']
    exp = 'the matrix row after re-assigning the voxel map / mask equals the row of a freshly built object with that map / mask'
    if out and out.get('nbad'):
        return {'confirmed': True, 'input': out['bad'][0], 'observed': out, 'expected': exp}
    return {'confirmed': False, 'input': None, 'observed': out, 'expected': exp}


# ------------------------------------------------------------------------------------------------ pipelines (pipelines.py)
PL = "cherab/tools/raytransfer/pipelines.py"


def _zeros_logged(eng, st, fr, recv, args, kwargs):
    from pyvc.values import Event
    o = eng.new_obj(st, 'ndarray', name='zeros')
    st.log.append(Event('np.zeros', None, list(args), dict(kwargs), o))
    return o


def register_pipelines(reg):
    """Every observation starts from a matrix of zeros: initialise() stores an array freshly allocated by numpy.zeros with the shape of the
    observation (the 0D pipeline ACCUMULATES into it, so a re-used buffer would carry the previous observation over)."""
    import z3
    ext = {'zeros': {'kind': 'custom', 'fn': _zeros_logged, 'doc': 'numpy.zeros(shape): freshly allocated array of zeros'}}

    def post(shape_text):
        def f(P):
            ev = P.calls('np.zeros')
            out = [("initialise.allocates_zero_matrix", z3.BoolVal(len(ev) >= 1))]
            if not ev:
                return out
            e = ev[-1]
            m = P.value("self._matrix")
            out.append(("initialise.matrix_is_the_fresh_zero_array", m.ref == e.result.ref))
            want = P.value(shape_text)
            got = e.args[0]
            want = list(want) if isinstance(want, (tuple, list)) else [want]
            got = list(got) if isinstance(got, (tuple, list)) else [got]
            from pyvc.values import to_int
            out.append(("initialise.shape", z3.And(*[to_int(a) == to_int(b) for a, b in zip(got, want)]) if len(got) == len(want) else z3.BoolVal(False)))
            return out
        return f
    reg.contract(PL, "RayTransferPipeline0D.initialise", PROP, externals=ext, sorts={"spectral_bins": "int"},
        ensures=[("fresh_zero_matrix", post("(spectral_bins,)")), ("samples_reset", "attr(self, '_samples', 'int') == 0")])
    reg.contract(PL, "RayTransferPipeline1D.initialise", PROP, externals=ext, sorts={"spectral_bins": "int", "pixels": "int", "pixel_samples": "int"},
        ensures=[("fresh_zero_matrix", post("(pixels, spectral_bins)"))])
    reg.contract(PL, "RayTransferPipeline2D.initialise", PROP, externals=ext,
        sorts={"spectral_bins": "int", "pixels": ("tuple", ["int", "int"]), "pixel_samples": "int"},
        ensures=[("fresh_zero_matrix", post("(pixels[0], pixels[1], spectral_bins)"))])


_register_integrators = register


def register(reg):
    _register_integrators(reg)
    register_pipelines(reg)


def bounded_raytransfer_objects(ctx):
    """Bounded stand-in (NOT a proof) for the user-facing ray-transfer objects (raytransfer.py, the voxel-map / mask setters of the emitters,
    the pipelines): random histories of voxel_map / mask / step assignments interleaved with ray traces on RayTransferBox and
    RayTransferCylinder; after every step: bins = number of sources, mask = (voxel_map > -1), a mask numbers the active cells consecutively,
    invert_voxel_map() lists the cells of each source, and the traced row equals that of a freshly built object with the same settings and
    the row computed from the full-resolution row by summing the cells of each source."""
    from replaylib.native import run_native
    n = 10 if ctx['tier'] == 'quick' else 120
    code = '''
import random, numpy as np
from raysect.optical import World, Ray, Point3D, Vector3D, translate
from cherab.tools.raytransfer import RayTransferBox, RayTransferCylinder
rnd = random.Random(%d)
bad = []; cases = 0
def trace(world, o, d, bins):
    ray = Ray(origin=Point3D(*o), direction=Vector3D(*d).normalise(), min_wavelength=500., max_wavelength=501., bins=bins)
    return np.array(ray.trace(world).samples)
def random_map(shape):
    k = rnd.randint(1, 5); m = np.array([rnd.randint(-1, k - 1) for _ in range(int(np.prod(shape)))], dtype=np.int32).reshape(shape)
    for s in range(k): m.flat[rnd.randrange(m.size)] = s        # every source has at least one cell
    return m
def random_mask(shape):
    m = np.array([rnd.random() < 0.6 for _ in range(int(np.prod(shape)))]).reshape(shape); m.flat[rnd.randrange(m.size)] = True
    return m
for trial in range(%d):
    for kind in ("box", "cylinder"):
        world = World()
        if kind == "box":
            shape = (3, 2, 3); mk = lambda w, **kw: RayTransferBox(3., 2., 3., 3, 2, 3, step=0.01, parent=w, transform=translate(0.5, 0, -0.25), **kw)
            o, d = (-1., 0.3 + 1.2 * rnd.random(), 0.2 + 2 * rnd.random()), (5., 1.0 * rnd.uniform(-0.2, 0.2), rnd.uniform(-0.3, 0.3))
        else:
            shape = (3, 4, 2); mk = lambda w, **kw: RayTransferCylinder(2., 2., 3, 2, radius_inner=0.5, n_polar=4, period=90., step=0.01, parent=w, transform=translate(0, 0, -0.5), **kw)
            o, d = (3.0, 0.4 * rnd.uniform(-1, 1), rnd.uniform(-0.2, 1.2)), (-6., rnd.uniform(-0.5, 0.5), rnd.uniform(-0.3, 0.3))
        obj = mk(world)
        ncell = int(np.prod(shape))
        full = trace(world, o, d, ncell)
        vm = np.arange(ncell, dtype=np.int32).reshape(shape)
        for step in range(rnd.randint(2, 5)):
            r_ = rnd.random()
            if step == 0: r_ = 0.0          # every history starts with a (merging) voxel map followed by a mask equal to its active cells
            if step == 1: r_ = 0.5
            if r_ < 0.4:
                vm = random_map(shape); obj.voxel_map = vm; what = "voxel_map"
            elif r_ < 0.6:
                # a mask equal to the currently active cells: documented to (re)build the one-source-per-cell map
                mask = np.asarray(obj.mask).copy(); obj.mask = mask; what = "mask equal to the active cells"
                vm = -np.ones(shape, dtype=np.int32); vm[mask] = np.arange(int(mask.sum()), dtype=np.int32)
            else:
                mask = random_mask(shape); obj.mask = mask; what = "mask"
                vm = -np.ones(shape, dtype=np.int32); vm[mask] = np.arange(int(mask.sum()), dtype=np.int32)
            cases += 1
            nb = int(vm.max()) + 1
            inv = obj.invert_voxel_map()
            ok = (obj.bins == nb and np.array_equal(np.asarray(obj.voxel_map), vm) and np.array_equal(np.asarray(obj.mask), vm > -1) and len(inv) == nb
                  and all(np.array_equal(np.stack(inv[s]), np.stack(np.where(vm == s))) for s in range(nb)))
            got = trace(world, o, d, max(nb, 1))
            want = np.array([full[(vm == s).ravel()].sum() for s in range(nb)])
            w2 = World(); fresh = mk(w2, voxel_map=vm); wantf = trace(w2, o, d, max(nb, 1))
            if not ok or not np.allclose(got[:nb], want, rtol=0, atol=1e-9) or not np.allclose(got, wantf, rtol=0, atol=1e-9):
                bad.append({"object": kind, "trial": trial, "after_assigning": what, "bins": obj.bins, "expected_bins": nb,
                            "row": got[:6].tolist(), "row_from_cell_lengths": want[:6].tolist(), "row_fresh_object": wantf[:6].tolist()}); break
print(json.dumps({"cases": cases, "bad": bad[:6]}))
''' % (ctx['seed'] + 10, n)
    out = run_native(ctx, code, timeout=900)
    return {'name': 'ray-transfer objects: voxel_map / mask histories vs fresh objects and cell sums (BOUNDED stand-in, not counted as proved)',
            'ok': bool(out) and out.get('bad') == [], 'detail': out, 'covers': ['raytransfer'],
            'bound': '%d random histories of 1..4 assignments on a 3x2x3 box and a 3x4x2 cylinder, seed %d' % (n, ctx['seed'] + 10)}


BOUNDED = [bounded_raytransfer_objects]
