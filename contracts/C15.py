"""C15 — observer groups broadcast settings faithfully and keep members consistent.

The (class, attribute) pairs are discovered from the parse trees on every run (every @property with an @x.setter), so a new
or renamed attribute automatically gets the schema contract."""
import ast
import z3
from .common import structural, as_bool, call_cases

PROP = 'C15'
LEVEL = 'proof'
EXPLANATION = ('Schema contract instantiated on every discovered (group class, broadcast attribute) pair: getter returns the members\' '
               'values in member order; setter with a sequence of group length assigns element-wise, any other length raises ValueError '
               'and leaves the heap unchanged, a scalar is given to every member; proved for groups of any size by loop invariants over '
               'the heap. Structural obligations: the function decorated @x.setter is itself named x.')
EXPLANATION += '  group[name] returns the member whose current name is unique and equal to the key (ValueError otherwise).'
GROUP_FILES = ["cherab/tools/observers/group/base.py", "cherab/tools/observers/group/sightline.py",
               "cherab/tools/observers/group/fibreoptic.py", "cherab/tools/observers/group/pixel.py",
               "cherab/tools/observers/group/targettedpixel.py", "cherab/tools/observers/group/spectroscopic.py"]
SPECIAL = {'observers', 'pipelines', 'sight_lines'}       # not element-wise broadcasts of one member attribute
ASSUMPTIONS = ['assigning an attribute of a member observer writes only that attribute of that member (raysect observers; '
               'validation inside the member may raise before writing)',
               'members of a group are pairwise distinct objects (precondition; needed for element-wise read-back)']
NOT_APPLICABLE = []
MEM = "self._observers"
DISTINCT = "forall((a, b), 0 <= a and a < b and b < length(%s), not same(%s[a], %s[b]))" % (MEM, MEM, MEM)


MEMBER_ATTR = {'names': 'name'}       # group attribute -> member attribute (identity for all others)


def register_targets(reg, f, cls, common):
    """TargettedPixelGroup.targets: a sequence of sequences is assigned element-wise (its length must be the group's), any other
    value (a flat list of primitives) is given to every pixel."""
    B = "forall(k, 0 <= k and k < length(value), isinst(value[k], 'list') or isinst(value[k], 'tuple'))"
    inv = "unchanged('_observers:ref') and unchanged('$len') and unchanged('$d1:ref')"
    for kind in ('list', 'tuple'):
        reg.contract(f, "%s.targets.setter" % cls, PROP, name=kind, sorts={"value": "seq:ref:%s!" % kind}, **common,
            requires=["not is_none(%s)" % MEM, DISTINCT],
            raises={"ValueError": "(%s) and length(value) != length(%s)" % (B, MEM)},
            flags={'raises_ensures': {"ValueError": [("heap_unchanged", "heap_unchanged()")]}},
            loops={0: dict(index='k', invariant=["0 <= k", "forall(j, 0 <= j and j < k, same(attr(%s[j], 'targets'), value[j]))" % MEM, inv]),
                   1: dict(index='k', invariant=["0 <= k", "forall(j, 0 <= j and j < k, same(attr(%s[j], 'targets'), value))" % MEM, inv])},
            ensures=[("elementwise", "implies(%s, forall(k, 0 <= k and k < length(%s), same(attr(%s[k], 'targets'), value[k])))" % (B, MEM, MEM)),
                     ("broadcast", "implies(not (%s), forall(k, 0 <= k and k < length(%s), same(attr(%s[k], 'targets'), value)))" % (B, MEM, MEM))],
            modifies=["targets:ref"])


def discover(tree):
    """[(file, class, attr, getter FunctionDef, setter FunctionDef, names_ndarray?)]"""
    out = []
    for f in GROUP_FILES:
        mod = tree.module(f)
        for c in mod.body:
            if not isinstance(c, ast.ClassDef):
                continue
            getters, setters = {}, {}
            for n in c.body:
                if isinstance(n, ast.FunctionDef):
                    decs = [ast.unparse(d) for d in n.decorator_list]
                    if 'property' in decs:
                        getters[n.name] = n
                    for d in decs:
                        if d.endswith('.setter'):
                            setters[d[:-7]] = n
            for attr in getters:
                out.append((f, c.name, attr, getters[attr], setters.get(attr)))
    return out


def member_attr(fn):
    """The member attribute a getter `[m.X for m in self._observers]` reads (None if the getter is not of that form)."""
    for n in ast.walk(fn):
        if isinstance(n, ast.ListComp) and isinstance(n.elt, ast.Attribute) and isinstance(n.elt.value, ast.Name):
            if ast.unparse(n.generators[0].iter) == MEM and n.elt.value.id == ast.unparse(n.generators[0].target):
                return n.elt.attr
    return None


def register(reg, ctx):
    tree = ctx['tree']
    for f, cls, attr, getter, setter in discover(tree):
        if attr in SPECIAL:
            continue
        if member_attr(getter) is None:
            continue
        A = {"_observers": "seq:ref"}
        common = dict(attrs=A, self_cls=cls)
        reg.contract(f, "%s.%s.getter" % (cls, attr), PROP, **common,
            requires=["not is_none(%s)" % MEM],
            ensures=[("length", "length(result) == length(%s)" % MEM),
                     ("member_order", "forall(k, 0 <= k and k < length(%s), same(result[k], attr(%s[k], '%s')))" % (MEM, MEM, MEMBER_ATTR.get(attr, attr)))],
            modifies=[], note='getter of broadcast attribute %s' % attr)
        if setter is None:
            continue
        names_nd = 'ndarray' in ast.unparse(setter)
        mattr = MEMBER_ATTR.get(attr, attr)      # the member attribute this group attribute stands for (property level)
        if attr == 'targets':
            register_targets(reg, f, cls, common)
            continue
        only_seq = attr == 'names'          # names must be a sequence: a scalar raises TypeError
        elementwise = ("forall(k, 0 <= k and k < length(%s), same(attr(%s[k], '%s'), value[k]))" % (MEM, MEM, mattr))
        broadcast = ("forall(k, 0 <= k and k < length(%s), same(attr(%s[k], '%s'), value))" % (MEM, MEM, mattr))
        frame = ["%s:ref" % mattr]
        inv_seq = ["0 <= k", "forall(j, 0 <= j and j < k, same(attr(%s[j], '%s'), value[j]))" % (MEM, mattr),
                   "unchanged('_observers:ref') and unchanged('$len') and unchanged('$d1:ref')"]
        inv_sc = ["0 <= k", "forall(j, 0 <= j and j < k, same(attr(%s[j], '%s'), value))" % (MEM, mattr),
                  "unchanged('_observers:ref') and unchanged('$len') and unchanged('$d1:ref')"]
        typed = attr in ('render_engine',)   # element type validation may raise TypeError (before or while assigning)
        for kind in ('list', 'tuple', 'ndarray', 'scalar'):
            seq_branch = kind in ('list', 'tuple') or (kind == 'ndarray' and names_nd)
            sorts = {"value": ("seq:ref:%s!" % kind) if kind != 'scalar' else "ref:$scalar"}
            kw = dict(common)
            if seq_branch:
                reg.contract(f, "%s.%s.setter" % (cls, attr), PROP, name=kind, sorts=sorts, **kw,
                    requires=["not is_none(%s)" % MEM, DISTINCT],
                    raises={"ValueError": "length(value) != length(%s)" % MEM},
                    raises_any=["TypeError"] if typed else [],
                    flags={'raises_ensures': {"ValueError": [("heap_unchanged", "heap_unchanged()")]}},
                    loops={0: dict(index='k', invariant=inv_seq), 1: dict(index='k', invariant=inv_sc)},
                    ensures=[("elementwise", elementwise)], modifies=frame)
            elif only_seq:
                reg.contract(f, "%s.%s.setter" % (cls, attr), PROP, name=kind, sorts=sorts, **kw,
                    requires=["not is_none(%s)" % MEM], raises={"TypeError": "True"},
                    flags={'raises_ensures': {"TypeError": [("heap_unchanged", "heap_unchanged()")]}},
                    loops={0: dict(index='k', invariant=inv_seq)}, ensures=[], modifies=frame)
            else:
                reg.contract(f, "%s.%s.setter" % (cls, attr), PROP, name=kind, sorts=sorts, **kw,
                    requires=["not is_none(%s)" % MEM, DISTINCT],
                    raises_any=["TypeError"] if typed else [],
                    loops={0: dict(index='k', invariant=inv_seq), 1: dict(index='k', invariant=inv_sc)},
                    ensures=[("broadcast", broadcast)], modifies=frame)


def register_methods(reg, ctx):
    B = "cherab/tools/observers/group/base.py"
    A = {"_observers": "seq:ref"}
    OT = {"Observer0DGroup": "Observer0D", "SightLineGroup": "SightLine", "FibreOpticGroup": "FibreOptic", "PixelGroup": "Pixel",
          "TargettedPixelGroup": "TargettedPixel"}
    for cls, ot in OT.items():
        reg.contract(B, "Observer0DGroup.add_observer", PROP, name=cls, self_cls=cls, attrs=A,
            sorts={"observer": "ref!"}, requires=["not is_none(%s)" % MEM],
            raises={"ValueError": "not isinst(observer, '%s')" % ot},
            flags={'raises_ensures': {"ValueError": [("heap_unchanged", "heap_unchanged()")]}},
            ensures=[("appended", "length(%s) == old(length(%s)) + 1 and same(%s[old(length(%s))], observer)" % (MEM, MEM, MEM, MEM)),
                     ("order_preserved", "forall(k, 0 <= k and k < old(length(%s)), same(%s[k], old(%s[k])))" % (MEM, MEM, MEM)),
                     ("parent", "same(attr(observer, 'parent'), self)")],
            modifies=["_observers:ref", "parent:ref"])
        reg.contract(B, "Observer0DGroup.observers.setter", PROP, name=cls, self_cls=cls, attrs=A,
            sorts={"value": "seq:ref:list!"},
            raises={"ValueError": "not forall(k, 0 <= k and k < length(value), isinst(value[k], '%s'))" % ot},
            flags={'raises_ensures': {"ValueError": [("heap_unchanged", "heap_unchanged()")]}},
            loops={0: dict(index='k', invariant=["0 <= k", "forall(j, 0 <= j and j < k, same(attr(value[j], 'parent'), self))",
                                                 "unchanged('$len') and unchanged('$d1:ref') and unchanged('_observers:ref')"])},
            ensures=[("members", "length(%s) == length(value) and forall(k, 0 <= k and k < length(value), same(%s[k], value[k]))" % (MEM, MEM)),
                     ("parents", "forall(k, 0 <= k and k < length(value), same(attr(value[k], 'parent'), self))")],
            modifies=["_observers:ref", "parent:ref"])
    reg.contract(B, "Observer0DGroup.observers.setter", PROP, name='scalar', attrs=A, sorts={"value": "ref:$scalar"},
        raises={"TypeError": "True"}, flags={'raises_ensures': {"TypeError": [("heap_unchanged", "heap_unchanged()")]}}, modifies=[])
    reg.contract(B, "Observer0DGroup.observe", PROP, attrs=A, requires=["not is_none(%s)" % MEM],
        externals={'.observe': {'kind': 'logged', 'result': 'none', 'doc': 'member.observe() (raysect)'}},
        loops={0: dict(index='k', invariant=[])},
        ensures=[("each_member_once", call_cases(['observe'], [("True", [('observe', [], dict(loop='k', lo='0', hi='length(%s)' % MEM,
                                                                                            recv='%s[k]' % MEM))])]))],
        modifies=[])
    reg.contract(B, "Observer0DGroup.__len__", PROP, attrs=A, requires=["not is_none(%s)" % MEM],
        ensures=["result == length(%s)" % MEM], modifies=[])
    reg.contract(B, "Observer0DGroup.__getitem__", PROP, name='int', attrs=A, sorts={"item": "int"}, requires=["not is_none(%s)" % MEM],
        raises={"IndexError": "not (-length(%s) <= item and item < length(%s))" % (MEM, MEM)},
        ensures=[("member", "same(result, %s[ite(item < 0, item + length(%s), item)])" % (MEM, MEM))], modifies=[])


    # by unique name: the member whose CURRENT name equals the key (members are public scene-graph nodes and can be renamed directly)
    NM = "typed(%s[k], 'Observer0D').name == item" % MEM
    NMJ = "typed(%s[j], 'Observer0D').name == item" % MEM
    reg.contract(B, "Observer0DGroup.__getitem__", PROP, name='str', attrs=dict(A, name='str'), sorts={"item": "str"}, requires=["not is_none(%s)" % MEM],
        raises={"ValueError": "not exists(k, 0 <= k and k < length(%s) and %s and forall(j, 0 <= j and j < length(%s) and %s, j == k))"
                % (MEM, NM, MEM, NMJ)},
        ensures=[("unique_name", "exists(k, 0 <= k and k < length(%s) and same(result, %s[k]) and %s)" % (MEM, MEM, NM))], modifies=[])


_register_props = register


def register(reg, ctx):
    _register_props(reg, ctx)
    register_methods(reg, ctx)


def _structure(ctx, eng):
    """Class well-formedness: the function decorated `@x.setter` is named x; every broadcast getter reads the attribute it names."""
    out = []
    for f, cls, attr, getter, setter in discover(ctx['tree']):
        if setter is not None:
            out.append(structural('%s.%s/decorator-target' % (cls, attr), PROP, setter.name == attr,
                                  '@%s.setter decorates def %s in class %s' % (attr, setter.name, cls)))
        mattr = member_attr(getter)
        if mattr is not None and attr not in SPECIAL:
            out.append(structural('%s.%s/getter-reads-own-attribute' % (cls, attr), PROP, mattr == MEMBER_ATTR.get(attr, attr),
                                  'getter %s reads member attribute %s' % (attr, mattr)))
    return out


GENERATORS = [_structure]


_REPLAY_CACHE = {}


def native_replay(ctx, o):
    """decorator-target: assigning the group attribute on a real (empty) group must not raise AttributeError."""
    from replaylib.native import run_native
    if not o.name.endswith('/decorator-target'):
        if 'Observer0DGroup.' not in o.name:
            return None
        # history replay on real groups: lookups by name / index interleaved with add, rename (through the group and through the member)
        # and re-assignment; every answer is compared with an independent scan of the members' current names
        code = '''
import warnings; warnings.simplefilter("ignore")
from cherab.tools.observers.group import SightLineGroup, FibreOpticGroup, PixelGroup, TargettedPixelGroup
from raysect.optical.observer import SightLine, FibreOptic, Pixel, TargettedPixel
from raysect.primitive import Sphere
bad = []
def expect(g, key):
    m = [o for o in g.observers if o.name == key]
    return m[0] if len(m) == 1 else ValueError
def look(g, key):
    try:
        return g[key]
    except ValueError:
        return ValueError
def check(tag, g):
    for key in ("a", "b", "c", "uno", "zz"):
        got, want = look(g, key), expect(g, key)
        if got is not want:
            bad.append({"class": type(g).__name__, "after": tag, "key": key, "names": list(g.names),
                        "got": getattr(got, "name", "ValueError"), "expected": getattr(want, "name", "ValueError")})
    for i, o in enumerate(g.observers):
        if g[i] is not o or o.parent is not g:
            bad.append({"class": type(g).__name__, "after": tag, "index": i})
for G, O, kw in ((SightLineGroup, SightLine, {}), (FibreOpticGroup, FibreOptic, {}), (PixelGroup, Pixel, {}),
                 (TargettedPixelGroup, TargettedPixel, {"targets": [Sphere(0.1)]})):
    try:
        obs = [O(name=n, **kw) for n in ("a", "b", "c")]
    except Exception:
        obs = [O(**kw) for n in range(3)]
        for o, n in zip(obs, ("a", "b", "c")): o.name = n
    g = G(observers=obs)
    check("construction", g)
    g[1].name = "uno"; check("member renamed directly", g)
    g.names = ["a", "a", "c"]; check("names assigned with a duplicate", g)
    obs[1].name = "b"; check("duplicate resolved through the member", g)
    extra = O(**kw); extra.name = "zz"; g.add_observer(extra); check("add_observer", g)
    extra.name = "c"; check("added member renamed to an existing name", g)
    g.observers = obs[:2]; check("observers re-assigned", g)
print(json.dumps({"bad": bad[:4], "nbad": len(bad)}))
'''
        if 'history' not in _REPLAY_CACHE:
            _REPLAY_CACHE['history'] = run_native(ctx, code, timeout=300)
        out = _REPLAY_CACHE['history']
        exp = 'group[name] returns the member whose current name is unique and equal to the key, else ValueError; group[i] the i-th member'
        if out and out.get('nbad'):
            return {'confirmed': True, 'input': out['bad'][0], 'observed': out, 'expected': exp}
        return {'confirmed': False, 'input': None, 'observed': out, 'expected': exp}
    cls, attr = o.name.split('/')[-2].split('.')
    code = '''
import cherab.tools.observers.group as G, cherab.tools.observers.group.spectroscopic as S, warnings
warnings.simplefilter("ignore")
cls = getattr(G, %r, None) or getattr(S, %r)
g = cls()
try:
    setattr(g, %r, [])
    err = None
except AttributeError as e:
    err = repr(e)
print(json.dumps({"class": %r, "attribute": %r, "assignment_error": err}))
''' % (cls, cls, attr, cls, attr)
    out = run_native(ctx, code)
    return {'confirmed': bool(out and out.get('assignment_error')), 'input': '%s().%s = []' % (cls, attr), 'observed': out,
            'expected': 'assignment accepted (empty sequence for an empty group)'}
