"""C02 — line shapes are normalised: contracts on the real line-shape code.

Decomposition (DESIGN section 10/C02):
  * add_gaussian_line / add_lorentzian_line: per-bin postcondition (bin-average of the profile via erf differences /
    integrator values), index safety with boundscheck off, frame, zero-width and out-of-window cases;
  * every add_line: call-argument obligations - the multiset of (component radiance, centre, width) handed to the
    two primitives equals the documented decomposition, per polarisation mode;
  * lemmas: component weights sum to the radiance ('no'), pi + sigma = unpolarised, MSE/Stark weights sum to one,
    telescoping of the erf differences."""
import z3
from pyvc.smt import Obligation
from .common import call_cases, exhaustive, lemma, as_bool
from pyvc.values import to_real

PROP = 'C02'
LEVEL = 'proof'
EXPLANATION = ('Deductive verification of the real line-shape functions (Cython sources parsed on every run): loop '
               'invariants for the bin loops, call-argument obligations for every add_line, algebraic lemmas for the '
               'weights.  Discharged by z3 for all inputs and any number of bins / multiplet components.')
EXPLANATION += '  GaussianQuadrature (the bin integrator, integrators1d.pyx): cache-layout representation invariant proved for _build_cache, preserved by the min_order / max_order setters; evaluate() proved to return a Gauss-Legendre rule of some order in [min_order, max_order].'

G = "cherab/core/model/lineshape/gaussian.pyx"
M = "cherab/core/model/lineshape/multiplet.pyx"
Z = "cherab/core/model/lineshape/zeeman.pyx"
S = "cherab/core/model/lineshape/stark.pyx"
B = "cherab/core/model/lineshape/beam/mse.pyx"
AZ = "cherab/core/atomic/zeeman.pyx"

SPECTRUM_OK = ["spectrum.bins >= 1", "spectrum.delta_wavelength > 0",
               "spectrum.max_wavelength == spectrum.min_wavelength + spectrum.bins*spectrum.delta_wavelength",
               "not is_none(spectrum.samples_mv)", "length(spectrum.samples_mv) == spectrum.bins"]

NOT_APPLICABLE = [
    'accuracy of the Gaussian quadrature that integrates the Lorentzian part over a bin (the bin value is proved to be '
    'integrator(lower, upper)/delta; that the integrator returns the exact integral is an assumed external contract)',
    'hyp2f1 normalisation constant of the Lomanowski profile (trusted mathematical fact)',
]

ASSUMPTIONS = [
    'erf is an uninterpreted function with range (-1, 1); 0.5*(erf(u(k+1)) - erf(u(k))) is the Gaussian mass of bin k '
    '(trusted mathematical fact); the +-10 sigma cut-off loses at most 1.6e-23 of the radiance',
]


def register(reg):
    # ------------------------------------------------------------------ primitives
    reg.contract(G, "add_gaussian_line", PROP,
        sorts={"radiance": "real", "wavelength": "real", "sigma": "real", "spectrum": "ref:Spectrum!"},
        requires=SPECTRUM_OK,
        result='ref:Spectrum',
        ghost={"u(k)": "(spectrum.min_wavelength + k*spectrum.delta_wavelength - wavelength) * (1/(M_SQRT2*sigma))",
               "S(k)": "spectrum.samples_mv[k]",
               "lo()": "max(0, cint(floor((wavelength - 10.0*sigma - spectrum.min_wavelength)/spectrum.delta_wavelength)))",
               "hi()": "min(spectrum.bins, cint(ceil((wavelength + 10.0*sigma - spectrum.min_wavelength)/spectrum.delta_wavelength)))",
               "hit()": "sigma > 0 and not (spectrum.max_wavelength < wavelength - 10.0*sigma) and not (spectrum.min_wavelength > wavelength + 10.0*sigma)",
               "binmass(k)": "radiance*0.5*(erf(u(k+1)) - erf(u(k)))/spectrum.delta_wavelength"},
        loops={0: dict(invariant=[
            "start == lo() and end == hi()",
            "start <= i and (i <= end or end < start)", "0 <= start", "end <= spectrum.bins",
            "lower_integral == erf(u(i))",
            "forall(k, start <= k and k < i, S(k) == old(S(k)) + binmass(k))",
            "forall(k, not (start <= k and k < i), S(k) == old(S(k)))",
            "unchanged_except('$d1:real', spectrum.samples_mv)"])},
        ensures=[("identity", "same(result, spectrum)"),
                 ("zero_width", "implies(sigma <= 0, unchanged('$d1:real'))"),
                 ("outside_window", "implies(not hit(), unchanged('$d1:real'))"),
                 ("bins", "implies(hit(), forall(k, lo() <= k and k < hi(), S(k) == old(S(k)) + binmass(k)))"),
                 ("other_bins", "implies(hit(), forall(k, not (lo() <= k and k < hi()), S(k) == old(S(k))))"),
                 ("frame", "unchanged_except('$d1:real', spectrum.samples_mv)"),
                 ("range", "implies(hit(), 0 <= lo() and hi() <= spectrum.bins)"),
                 ("covers_cutoff", "implies(hit(), forall(k, 0 <= k and k < spectrum.bins and "
                  "spectrum.min_wavelength + (k+1)*spectrum.delta_wavelength > wavelength - 10.0*sigma and "
                  "spectrum.min_wavelength + k*spectrum.delta_wavelength < wavelength + 10.0*sigma, lo() <= k and k < hi()))")],
        modifies=["$d1:real"])

    reg.contract(S, "add_lorentzian_line", PROP,
        sorts={"radiance": "real", "wavelength": "real", "lambda_1_2": "real", "spectrum": "ref:Spectrum!",
               "integrator": "ref:Integrator1D!"},
        requires=SPECTRUM_OK,
        raises={"ValueError": "lambda_1_2 > 0 and wavelength <= 0"},
        result='ref:Spectrum',
        ghost={"S(k)": "spectrum.samples_mv[k]",
               "edge(k)": "spectrum.min_wavelength + spectrum.delta_wavelength*k",
               "lo()": "max(0, cint(floor((wavelength - 50.0*lambda_1_2 - spectrum.min_wavelength)/spectrum.delta_wavelength)))",
               "hi()": "min(spectrum.bins, cint(ceil((wavelength + 50.0*lambda_1_2 - spectrum.min_wavelength)/spectrum.delta_wavelength)))",
               "hit()": "lambda_1_2 > 0 and not (spectrum.max_wavelength < wavelength - 50.0*lambda_1_2) and "
                        "not (spectrum.min_wavelength > wavelength + 50.0*lambda_1_2)",
               "binmass(k)": "radiance*integrator.evaluate(edge(k), edge(k+1))/spectrum.delta_wavelength"},
        loops={0: dict(invariant=[
            "start == lo() and end == hi()",
            "start <= i and (i <= end or end < start)", "0 <= start", "end <= spectrum.bins",
            "lower_wavelength == edge(i)",
            "forall(k, start <= k and k < i, S(k) == old(S(k)) + binmass(k))",
            "forall(k, not (start <= k and k < i), S(k) == old(S(k)))",
            "unchanged_except('$d1:real', spectrum.samples_mv)"])},
        ensures=[("identity", "same(result, spectrum)"),
                 ("zero_width", "implies(lambda_1_2 <= 0, heap_unchanged())"),
                 ("outside_window", "implies(not hit(), unchanged('$d1:real'))"),
                 ("bins", "implies(hit(), forall(k, lo() <= k and k < hi(), S(k) == old(S(k)) + binmass(k)))"),
                 ("other_bins", "implies(hit(), forall(k, not (lo() <= k and k < hi()), S(k) == old(S(k))))"),
                 ("frame", "unchanged_except('$d1:real', spectrum.samples_mv)"),
                 ("integrand_centre", "implies(lambda_1_2 > 0, attr(integrator.function, '_x0', 'real') == wavelength)"),
                 ("integrand_width", "implies(lambda_1_2 > 0, attr(integrator.function, '_a', 'real') == pow(0.5*lambda_1_2, 2.5))"),
                 ],
        modifies=["$d1:real", "function:ref", "_x0:real", "_a:real", "_norm:real"])

    # ------------------------------------------------------------------ add_line family
    common = dict(
        sorts={"radiance": "real", "point": "ref:Point3D!", "direction": "ref:Vector3D!", "spectrum": "ref:Spectrum!"},
        requires=SPECTRUM_OK + ["not is_none(self.target_species)", "not is_none(self.line)", "self.wavelength > 0"],
        ghost={"ts()": "self.target_species.distribution.effective_temperature(point.x, point.y, point.z)",
               "vel()": "self.target_species.distribution.bulk_velocity(point.x, point.y, point.z)",
               "shift(w)": "doppler_shift(w, direction, vel())",
               "sig()": "thermal_broadening(self.wavelength, ts(), self.line.element.atomic_weight)",
               "bf()": "self.plasma.get_b_field().evaluate(point.x, point.y, point.z)",
               "bm()": "bf().get_length()",
               "c2()": "(bf().dot(direction.normalise()) / bm())**2",
               "s2()": "1.0 - c2()",
               "pol()": "self._polarisation",
               "wpi()": "0.5*s2()*radiance",
               "wsg()": "(0.25*s2() + 0.5*c2())*radiance"})
    GA = 'add_gaussian_line'
    LO = 'add_lorentzian_line'

    reg.contract(G, "GaussianLine.add_line", PROP, **common,
        ensures=[("identity", "same(result, spectrum)"),
                 ("calls", call_cases([GA], [
                     ("ts() <= 0", []),
                     ("ts() > 0", [(GA, ["radiance", "shift(self.wavelength)", "sig()", "spectrum"])])]))])

    reg.contract(M, "MultipletLineShape.add_line", PROP,
        sorts=common['sorts'], ghost=common['ghost'],
        requires=common['requires'] + ["not is_none(self._multiplet_mv)", "self._multiplet_mv.shape[0] == 2",
                                       "self._multiplet_mv.shape[1] == self._number_of_lines", "self._number_of_lines >= 0"],
        loops={0: dict(invariant=["same(spectrum, old(spectrum))"])},
        ensures=[("identity", "same(result, spectrum)"),
                 ("calls", call_cases([GA], [
                     ("ts() <= 0", []),
                     ("ts() > 0", [(GA, ["radiance*self._multiplet_mv[1, k]", "shift(self._multiplet_mv[0, k])", "sig()", None],
                                    dict(loop='k', lo='0', hi='self._number_of_lines'))])]))])

    zee_cases = lambda side_plus, side_minus, width: [
        ("ts() <= 0", []),
        ("ts() > 0 and bm() == 0 and pol() == 2", [(GA, ["radiance", "shift(self.wavelength)", width, "spectrum"])]),
        ("ts() > 0 and bm() == 0 and pol() != 2", [(GA, ["0.5*radiance", "shift(self.wavelength)", width, "spectrum"])]),
        ("ts() > 0 and bm() != 0 and pol() == 0", [(GA, ["wpi()", "shift(self.wavelength)", width, None])]),
        ("ts() > 0 and bm() != 0 and pol() == 1", [(GA, ["wsg()", side_plus, width, None]),
                                                    (GA, ["wsg()", side_minus, width, None])]),
        ("ts() > 0 and bm() != 0 and pol() == 2", [(GA, ["wpi()", "shift(self.wavelength)", width, None]),
                                                    (GA, ["wsg()", side_plus, width, None]),
                                                    (GA, ["wsg()", side_minus, width, None])]),
    ]
    pol_ok = ["self._polarisation == 0 or self._polarisation == 1 or self._polarisation == 2"]
    reg.contract(Z, "ZeemanTriplet.add_line", PROP, sorts=common['sorts'], ghost=common['ghost'],
        requires=common['requires'] + pol_ok,
        ensures=[("identity", "same(result, spectrum)"),
                 ("calls", call_cases([GA], zee_cases(
                     "shift(HC_EV_NM / (HC_EV_NM / self.wavelength - BOHR_MAGNETON * bm()))",
                     "shift(HC_EV_NM / (HC_EV_NM / self.wavelength + BOHR_MAGNETON * bm()))", "sig()")))])

    reg.contract(Z, "ParametrisedZeemanTriplet.add_line", PROP, sorts=common['sorts'],
        ghost=dict(common['ghost'], **{"sigp()": "sig() * sqrt(1. + self._beta * self._beta * pow(ts(), 2. * self._gamma))"}),
        requires=common['requires'] + pol_ok,
        ensures=[("identity", "same(result, spectrum)"),
                 ("calls", call_cases([GA], zee_cases(
                     "shift(self.wavelength + 0.5 * self._alpha * bm())",
                     "shift(self.wavelength - 0.5 * self._alpha * bm())", "sigp()")))])

    # ZeemanMultiplet: three loops over the components returned by the Zeeman structure
    zs = lambda pol: "self._zeeman_structure.evaluate(bm(), %d)" % pol
    comp = lambda pol, w: (GA, ["%s*%s[1, k]" % (w, zs(pol)), "shift(%s[0, k])" % zs(pol), "sig()", None],
                           dict(loop='k', lo='0', hi='%s.shape[1]' % zs(pol)))
    reg.contract(Z, "ZeemanMultiplet.add_line", PROP, sorts=common['sorts'], ghost=common['ghost'],
        requires=common['requires'] + pol_ok + ["not is_none(self._zeeman_structure)",
],
        externals={'ZeemanStructure.evaluate': {'kind': 'pure', 'result': 'arr:real:2', 'override': True, 'shape': (2, None),
                                                'doc': 'ZeemanStructure.evaluate verified separately (normalised ratios)'}},
        loops={k: dict(invariant=["same(spectrum, old(spectrum))"]) for k in (0, 1, 2)},
        ensures=[("identity", "same(result, spectrum)"),
                 ("calls", call_cases([GA], [
                     ("ts() <= 0", []),
                     ("ts() > 0 and bm() == 0 and pol() == 2", [(GA, ["radiance", "shift(self.wavelength)", "sig()", "spectrum"])]),
                     ("ts() > 0 and bm() == 0 and pol() != 2", [(GA, ["0.5*radiance", "shift(self.wavelength)", "sig()", "spectrum"])]),
                     ("ts() > 0 and bm() != 0 and pol() == 0", [comp(0, "wpi()")]),
                     ("ts() > 0 and bm() != 0 and pol() == 1", [comp(1, "wsg()"), comp(-1, "wsg()")]),
                     ("ts() > 0 and bm() != 0 and pol() == 2", [comp(0, "wpi()"), comp(1, "wsg()"), comp(-1, "wsg()")]),
                 ]))])

    # ------------------------------------------------------------------ Stark-broadened line (Gaussian + Lorentzian pairs)
    def stark_pairs(P):
        """every component is one (add_gaussian_line, add_lorentzian_line) pair with the same centre whose radiances add up
        to the Zeeman component radiance; nothing is added when both widths vanish."""
        evs = [e for e in P.st.log if e.label in (GA, LO)]
        out = []
        zero = as_bool(P.term("flz() == 0 and fgz() == 0"))
        if not evs:
            out.append(('stark.no_width', zero))
            return out
        out.append(('stark.width', z3.Not(zero)))
        shape_ok = len(evs) % 2 == 0 and all(evs[2 * j].label == GA and evs[2 * j + 1].label == LO for j in range(len(evs) // 2))
        out.append(('stark.pairs.shape', z3.BoolVal(shape_ok)))
        if not shape_ok:
            return out
        cases = [
            ("bm() == 0 and pol() == 2", [("radiance", "shift(self.wavelength)")]),
            ("bm() == 0 and pol() != 2", [("0.5*radiance", "shift(self.wavelength)")]),
            ("bm() != 0 and pol() == 0", [("wpi()", "shift(self.wavelength)")]),
            ("bm() != 0 and pol() == 1", [("wsg()", "shift(HC_EV_NM / (HC_EV_NM / self.wavelength - BOHR_MAGNETON * bm()))"),
                                          ("wsg()", "shift(HC_EV_NM / (HC_EV_NM / self.wavelength + BOHR_MAGNETON * bm()))")]),
            ("bm() != 0 and pol() == 2", [("wpi()", "shift(self.wavelength)"),
                                          ("wsg()", "shift(HC_EV_NM / (HC_EV_NM / self.wavelength - BOHR_MAGNETON * bm()))"),
                                          ("wsg()", "shift(HC_EV_NM / (HC_EV_NM / self.wavelength + BOHR_MAGNETON * bm()))")]),
        ]
        for ci, (when, comps) in enumerate(cases):
            w = as_bool(P.term(when))
            if len(comps) * 2 != len(evs):
                out.append(('stark.case%d.shape' % ci, z3.Not(w)))
                continue
            for j, (rad, centre) in enumerate(comps):
                g, l = evs[2 * j], evs[2 * j + 1]
                want = to_real(P.value(rad))
                c = to_real(P.value(centre))
                out.append(('stark.case%d.comp%d.radiance_sum' % (ci, j), z3.Implies(w, to_real(g.args[0]) + to_real(l.args[0]) == want)))
                out.append(('stark.case%d.comp%d.centre' % (ci, j), z3.Implies(w, z3.And(to_real(g.args[1]) == c, to_real(l.args[1]) == c))))
                out.append(('stark.case%d.comp%d.integrator' % (ci, j), z3.Implies(w, as_bool(P.eng.identical(l.args[4], P.value("self.integrator"))))))
        return out

    reg.contract(S, "StarkBroadenedLine.add_line", PROP, sorts=common['sorts'],
        attrs={'_fwhm_poly_coeff_gauss': 'seq:real', '_fwhm_poly_coeff_lorentz': 'seq:real', '_weight_poly_coeff': 'seq:real'},
        ghost=dict(common['ghost'], **{
            "ne()": "self.plasma.get_electron_distribution().density(point.x, point.y, point.z)",
            "te()": "self.plasma.get_electron_distribution().effective_temperature(point.x, point.y, point.z)",
            "flz()": "ite(ne() > 0 and te() > 0, self._cij * pow(ne(), self._aij) / pow(te(), self._bij), 0)",
            "fgz()": "ite(ts() > 0, _SIGMA2FWHM * sig(), 0)"}),
        requires=common['requires'] + pol_ok + [
            "not is_none(self.integrator)", "not is_none(self.plasma)",
            "length(self._fwhm_poly_coeff_gauss) == 7", "length(self._fwhm_poly_coeff_lorentz) == 7",
            "length(self._weight_poly_coeff) == 6",
            "not is_none(self._fwhm_poly_coeff_gauss)", "not is_none(self._fwhm_poly_coeff_lorentz)",
            "not is_none(self._weight_poly_coeff)"],
        flags={'max_paths': 2000}, raises_any=['ValueError'],
        ensures=[("identity", "same(result, spectrum)"), ("pairs", stark_pairs)])

    # widths handed to the two parts (verified on the tail of add_line that starts where the Lorentzian share is computed; F0 = the full
    # width computed before it, sigma0 = F0 / (2 sqrt(2 ln 2)) as the code has it there): the Gaussian part gets sigma0 unless the line is
    # purely Lorentzian, the Lorentzian part gets F0 unless purely Gaussian.  A zero width makes add_gaussian_line / add_lorentzian_line
    # return at once, so a part that carries radiance must come with its width - otherwise radiance is lost (not normalised any more).
    def stark_widths(P):
        evs = [e for e in P.st.log if e.label in (GA, LO)]
        out = [('stark.widths.some_component', z3.BoolVal(len(evs) >= 2 and len(evs) % 2 == 0))]
        gs = to_real(P.value("ite(fwhm_lorentz / fwhm_full > 0.999, 0, fwhm_full / _SIGMA2FWHM)"))
        ls = to_real(P.value("ite(fwhm_lorentz / fwhm_full < 0.01, 0, fwhm_full)"))
        for j, e in enumerate(evs):
            out.append(('stark.widths.%s%d' % ('gaussian' if e.label == GA else 'lorentzian', j // 2), to_real(e.args[2]) == (gs if e.label == GA else ls)))
        return out
    reg.contract(S, "StarkBroadenedLine.add_line", PROP, name='widths',
        sorts=dict(common['sorts'], fwhm_lorentz='real', fwhm_full='real', fwhm_gauss='real', sigma='real'),
        attrs={'_weight_poly_coeff': 'seq:real'}, ghost=dict(common['ghost']),
        requires=common['requires'] + pol_ok + ["not is_none(self.integrator)", "not is_none(self.plasma)", "length(self._weight_poly_coeff) == 6",
                  "not is_none(self._weight_poly_coeff)", "fwhm_full > 0", "fwhm_lorentz >= 0",
                  # the statement before the tail, if the code computes sigma there (as the unchanged code does)
                  "sigma == fwhm_full / _SIGMA2FWHM"],
        flags={'max_paths': 2000, 'stmts_from': 'fwhm_lorentz_to_total = fwhm_lorentz / fwhm_full'}, raises_any=['ValueError'],
        ensures=[("widths", stark_widths)])

    # ------------------------------------------------------------------ motional Stark multiplet (beam emission)
    mse_ghost = {
        "pl()": "self.beam.get_plasma()",
        "te()": "pl().get_electron_distribution().effective_temperature(plasma_point.x, plasma_point.y, plasma_point.z)",
        "ne()": "pl().get_electron_distribution().density(plasma_point.x, plasma_point.y, plasma_point.z)",
        "en()": "self.beam.get_energy()",
        "bv()": "beam_direction.normalise().mul(evamu_to_ms(en()))",
        "split()": "fabs(STARK_SPLITTING_FACTOR * bv().cross(pl().get_b_field().evaluate(plasma_point.x, plasma_point.y, plasma_point.z)).get_length())",
        "c0()": "doppler_shift(self.wavelength, observation_direction, bv())",
        "sg()": "thermal_broadening(self.wavelength, self.beam.get_temperature(), self.beam.get_element().atomic_weight)",
        "r()": "self._sigma_to_pi.evaluate(ne(), en())",
        "isig()": "radiance * r() / (1 + r())",
        "ipi()": "0.5 * radiance / (1 + r())",
        "s10()": "self._sigma1_to_sigma0.evaluate(ne())",
        "p23()": "self._pi2_to_pi3.evaluate(ne())",
        "p43()": "self._pi4_to_pi3.evaluate(ne())",
        "pn()": "1 + p23() + p43()",
    }
    reg.contract(B, "BeamEmissionMultiplet.add_line", PROP,
        sorts={"radiance": "real", "beam_point": "ref:Point3D!", "plasma_point": "ref:Point3D!", "beam_direction": "ref:Vector3D!",
               "observation_direction": "ref:Vector3D!", "spectrum": "ref:Spectrum!"},
        ghost=mse_ghost,
        requires=SPECTRUM_OK + ["not is_none(self.beam)", "not is_none(self._sigma_to_pi)", "not is_none(self._sigma1_to_sigma0)",
                                "not is_none(self._pi2_to_pi3)", "not is_none(self._pi4_to_pi3)", "self.wavelength > 0",
                                "r() >= 0", "s10() >= 0", "p23() >= 0", "p43() >= 0"],
        ensures=[("identity", "same(result, spectrum)"),
                 ("calls", call_cases([GA], [
                     ("te() <= 0 or ne() <= 0", []),
                     ("te() > 0 and ne() > 0", [
                         (GA, ["isig() / (1 + s10())", "c0()", "sg()", None]),
                         (GA, ["isig() * 0.5 * s10() / (1 + s10())", "c0() + split()", "sg()", None]),
                         (GA, ["isig() * 0.5 * s10() / (1 + s10())", "c0() - split()", "sg()", None]),
                         (GA, ["ipi() * p23() / pn()", "c0() + 2 * split()", "sg()", None]),
                         (GA, ["ipi() * p23() / pn()", "c0() - 2 * split()", "sg()", None]),
                         (GA, ["ipi() / pn()", "c0() + 3 * split()", "sg()", None]),
                         (GA, ["ipi() / pn()", "c0() - 3 * split()", "sg()", None]),
                         (GA, ["ipi() * p43() / pn()", "c0() + 4 * split()", "sg()", None]),
                         (GA, ["ipi() * p43() / pn()", "c0() - 4 * split()", "sg()", None])])]))])


# ------------------------------------------------------------------------------------------------ GaussianQuadrature (integrators1d.pyx)
IQ = "cherab/core/math/integrators/integrators1d.pyx"


def _np_zeros(eng, st, fr, recv, args, kwargs):
    import z3
    from pyvc.values import to_int
    o = eng.new_obj(st, 'ndarray', 'arr', 'real', 1, name='zeros')
    st.heap['$len'] = z3.Store(eng.field(st, '$len'), o.ref, to_int(args[0]))
    return o


def _roots_legendre(eng, st, fr, recv, args, kwargs):
    """scipy.special.roots_legendre(n): two fresh arrays of length n holding the Gauss-Legendre nodes GLR(n, i) and weights GLW(n, i)."""
    import z3
    from pyvc.values import to_int
    n = to_int(args[0])
    out = []
    for nm in ('GLR', 'GLW'):
        o = eng.new_obj(st, 'ndarray', 'arr', 'real', 1, name=nm.lower())
        st.heap['$len'] = z3.Store(eng.field(st, '$len'), o.ref, n)
        f = z3.Function('G_' + nm, z3.IntSort(), z3.IntSort(), z3.RealSort())
        eng.counter += 1
        k = z3.Int('k!gl%d' % eng.counter)
        fid = '$d1:real'
        st.heap[fid] = z3.Store(eng.field(st, fid), o.ref, z3.Lambda([k], f(n, k)))
        out.append(o)
    return tuple(out)


GQ_CONSTS = {"T": "fn:int->int", "GLR": "fn:int,int->real", "GLW": "fn:int,int->real", "QS": "fn:int,int,real,real,ref->real"}
GQ_AXIOMS = ["T(1) == 0", "forall(n, n >= 1, T(n + 1) == T(n) + n)",
             # consequences of the recursion (induction on b): stated as axioms, discharged separately as lemmas below
             "forall((a, b), 1 <= a and a <= b, T(a) <= T(b))"]
GQ_GHOST = {"mn()": "self._min_order", "mx()": "self._max_order", "off(n)": "T(n) - T(mn())",
            "R(k)": "self._roots_mv[k]", "W(k)": "self._weights_mv[k]"}
GQ_INV = ["1 <= mn() and mn() <= mx()", "not is_none(self._roots_mv) and not is_none(self._weights_mv)",
          # long enough for every order in [min, max] (a longer array - e.g. after the maximum order was lowered - is harmless)
          "length(self._roots_mv) >= T(mx() + 1) - T(mn()) and length(self._weights_mv) >= T(mx() + 1) - T(mn())",
          # the cache holds, order after order starting at the MINIMUM order, the nodes and weights of every order in [min, max]
          "forall((n, i), mn() <= n and n <= mx() and 0 <= i and i < n, R(off(n) + i) == GLR(n, i) and W(off(n) + i) == GLW(n, i))"]


def register_quadrature(reg):
    A = {"_roots": "arr:real:1", "_weights": "arr:real:1", "_roots_mv": "arr:real:1", "_weights_mv": "arr:real:1"}
    EXT = {'zeros': {'kind': 'custom', 'fn': _np_zeros, 'doc': 'numpy.zeros(n): fresh array of length n'},
           'roots_legendre': {'kind': 'custom', 'fn': _roots_legendre, 'doc': 'scipy roots_legendre(n): nodes GLR(n, .) and weights GLW(n, .) (uninterpreted)'}}
    reg.contract(IQ, "GaussianQuadrature._build_cache", PROP, attrs=A, consts=GQ_CONSTS, ghost=GQ_GHOST, externals=EXT,
        # closed form of the triangular numbers (lemma quadrature.T_closed_form, by induction): ties the allocated length to the layout
        axioms=GQ_AXIOMS + ["forall(n, n >= 1, 2 * T(n) == n * (n - 1))"],
        requires=["1 <= mn() and mn() <= mx()"],
        loops={0: dict(invariant=["mn() <= order and order <= mx() + 1", "i == off(order)",
                                  "not is_none(self._roots) and not is_none(self._weights)",
                                  "not same(self._roots, self._weights)",
                                  "length(self._roots) == n and length(self._weights) == n",
                                  "forall((q, j), mn() <= q and q < order and 0 <= j and j < q, "
                                  "self._roots[off(q) + j] == GLR(q, j) and self._weights[off(q) + j] == GLW(q, j))",
                                  "unchanged('_min_order:int') and unchanged('_max_order:int')"])},
        flags={'locals': {}},
        ensures=[(("cache_layout.%d" % k), c) for k, c in enumerate(GQ_INV)] + [("orders_kept", "mn() == old(mn()) and mx() == old(mx())")])
    for which, bad in (("min_order", "value < 1 or value > mx()"), ("max_order", "value < 1 or value < mn()")):
        reg.contract(IQ, "GaussianQuadrature.%s.setter" % which, PROP, attrs=A, consts=GQ_CONSTS, axioms=GQ_AXIOMS, ghost=GQ_GHOST,
            sorts={"value": "int"}, requires=GQ_INV,
            raises={"ValueError": bad}, flags={'raises_ensures': {"ValueError": [("unchanged", "heap_unchanged()")]}},
            ensures=[(("cache_layout.%d" % k), c) for k, c in enumerate(GQ_INV)] +
                    [("stored", "self._%s == value" % which)])
    reg.contract(IQ, "GaussianQuadrature.evaluate", PROP, attrs=A, consts=GQ_CONSTS, ghost=dict(GQ_GHOST, **{
            "c()": "0.5 * (a + b)", "d()": "0.5 * (b - a)", "Q(n, j)": "QS(n, j, c(), d(), self.function)",
            "fx(n, j)": "self.function.evaluate(c() + d() * GLR(n, j))"}),
        axioms=GQ_AXIOMS + ["forall(n, QS(n, 0, c(), d(), self.function) == 0)",
                            "forall((n, j), j >= 0, QS(n, j + 1, c(), d(), self.function) == QS(n, j, c(), d(), self.function) + GLW(n, j) * fx(n, j))"],
        sorts={"a": "real", "b": "real"}, requires=GQ_INV + ["not is_none(self.function)"],
        loops={0: dict(invariant=["mn() <= order and order <= mx() + 1", "ibegin == off(order)",
                                  "implies(order > mn(), newval == d * Q(order - 1, order - 1))", "c == c() and d == d()"]),
               1: dict(invariant=["ibegin <= i and i <= ibegin + order", "newval == Q(order, i - ibegin)", "c == c() and d == d()"])},
        result='real',
        # the value returned is a Gauss-Legendre rule of SOME order between the minimum and the maximum: (b-a)/2 * sum_j w_j f(c + d x_j)
        ensures=[("gauss_legendre_rule", "exists(n, mn() <= n and n <= mx() and result == d() * Q(n, n))")], modifies=[])


def _quadrature_lemmas(ctx):
    """T is non-decreasing on the positive integers: induction on the upper argument (base and step are separate obligations)."""
    import z3
    T = z3.Function('Tl', z3.IntSort(), z3.IntSort())
    n, a, b = z3.Ints('n a b')
    rec = z3.ForAll([n], z3.Implies(n >= 1, T(n + 1) == T(n) + n))
    out = [lemma('quadrature.T_monotone.base', PROP, [rec, a >= 1], T(a) <= T(a), 'T(a) <= T(a)'),
           lemma('quadrature.T_monotone.step', PROP, [rec, a >= 1, b >= a, T(a) <= T(b)], T(a) <= T(b + 1), 'T(a) <= T(b) implies T(a) <= T(b+1)')]
    out += [lemma('quadrature.T_closed_form.base', PROP, [rec, T(1) == 0], 2 * T(1) == 1 * (1 - 1), '2 T(1) = 1 * 0'),
            lemma('quadrature.T_closed_form.step', PROP, [rec, a >= 1, 2 * T(a) == a * (a - 1)], 2 * T(a + 1) == (a + 1) * a, '2 T(a) = a (a-1) implies 2 T(a+1) = (a+1) a')]
    return out


def _weights_lemmas(ctx):
    R = z3.Real
    rad, c2 = R('radiance'), R('c2')
    s2 = 1 - c2
    wpi = 0.5 * s2 * rad
    wsg = (0.25 * s2 + 0.5 * c2) * rad
    out = [lemma('zeeman.no_is_pi_plus_sigma', PROP, [], wpi + 2 * wsg == rad,
                 'B != 0: pi + sigma+ + sigma- components carry exactly the radiance, for every angle'),
           lemma('zeeman.b0_halves', PROP, [], 0.5 * rad + 0.5 * rad == rad, 'B = 0: pi and sigma spectra are each half')]
    # telescoping of erf differences (induction step, explicit)
    E = z3.Function('m_erf', z3.RealSort(), z3.RealSort())
    T = z3.Function('T', z3.IntSort(), z3.RealSort())        # partial sums of bin masses
    u = z3.Function('u', z3.IntSort(), z3.RealSort())
    k, lo = z3.Int('k'), z3.Int('lo')
    step_h = [T(k) == 0.5 * rad * (E(u(k)) - E(u(lo))), T(k + 1) == T(k) + 0.5 * rad * (E(u(k + 1)) - E(u(k)))]
    out.append(lemma('gaussian.telescoping.base', PROP, [T(lo) == 0], T(lo) == 0.5 * rad * (E(u(lo)) - E(u(lo))),
                     'sum over no bins'))
    out.append(lemma('gaussian.telescoping.step', PROP, step_h, T(k + 1) == 0.5 * rad * (E(u(k + 1)) - E(u(lo))),
                     'sum_{j<k+1} delta*binmass_j = radiance/2 (erf u(k+1) - erf u(lo))'))
    r, s10, p23, p43 = R('r'), R('s10'), R('p23'), R('p43')
    isig, ipi, pn = rad * r / (1 + r), 0.5 * rad / (1 + r), 1 + p23 + p43
    total = isig / (1 + s10) + 2 * (isig * 0.5 * s10 / (1 + s10)) + 2 * (ipi * p23 / pn) + 2 * (ipi / pn) + 2 * (ipi * p43 / pn)
    out.append(lemma('mse.weights_sum_to_radiance', PROP, [r >= 0, s10 >= 0, p23 >= 0, p43 >= 0], total == rad,
                     'the nine MSE components carry exactly the radiance for all non-negative ratios'))
    return out


LEMMAS = [_weights_lemmas, _quadrature_lemmas]

EXTERNALS = {
    'hyp2f1': {'kind': 'pure', 'result': 'real', 'doc': 'scipy.special.hyp2f1 (normalisation constant of the Lomanowski profile)'},
}


def _np_array_copy(eng, st, fr, recv, args, kwargs):
    """numpy.array(x, dtype): a NEW array object with the contents of x (copy=True is the default)."""
    import z3
    src = args[0]
    o = eng.new_obj(st, 'ndarray', 'arr', 'real', 2, name='copy')
    for fid in ('$n0', '$n1'):
        st.heap[fid] = z3.Store(eng.field(st, fid), o.ref, z3.Select(eng.field(st, fid), src.ref))
    st.heap['$d2:real'] = z3.Store(eng.field(st, '$d2:real'), o.ref, z3.Select(eng.field(st, '$d2:real'), src.ref))
    return o


def register_multiplet_constructor(reg):
    """The multiplet table is validated once, at construction; the model must therefore keep a PRIVATE copy of it (numpy.array copies;
    numpy.ascontiguousarray / asarray return the caller's own array when it already has the right layout and type)."""
    ext = {'array': {'kind': 'custom', 'fn': _np_array_copy, 'doc': 'numpy.array(x, dtype=float64): new array, same contents'},
           'ascontiguousarray': {'kind': 'custom', 'fn': lambda eng, st, fr, recv, args, kwargs: args[0],
                                 'doc': 'numpy.ascontiguousarray(x): x itself when x is already a C-contiguous array of that dtype (no copy)'},
           'asarray': {'kind': 'custom', 'fn': lambda eng, st, fr, recv, args, kwargs: args[0], 'doc': 'numpy.asarray(x): x itself for an ndarray of that dtype'},
           '.sum': {'kind': 'pure', 'result': 'real', 'doc': 'ndarray.sum()'}}
    reg.contract(M, "MultipletLineShape.__init__", PROP, name='table', flags={'stmts_from': 'multiplet = np.array(multiplet, dtype=np.float64)'},
        sorts={"multiplet": "arr:real:2"}, attrs={"_multiplet": "arr:real:2", "_multiplet_mv": "arr:real:2"}, externals=ext,
        requires=["not is_none(multiplet)"], raises_any=["ValueError"],
        ensures=[("private_copy", "not same(self._multiplet, multiplet) and same(self._multiplet_mv, self._multiplet)"),
                 ("same_contents", "self._multiplet.shape[0] == multiplet.shape[0] and self._multiplet.shape[1] == multiplet.shape[1] and "
                  "forall((a, b), self._multiplet[a, b] == multiplet[a, b])"),
                 ("number_of_lines", "self._number_of_lines == multiplet.shape[1] and multiplet.shape[0] == 2")])


_register_lines = register


def register(reg):
    _register_lines(reg)
    register_quadrature(reg)
    register_multiplet_constructor(reg)


def native_replay(ctx, o):
    """GaussianQuadrature obligations: integrators configured through the setters (every order of raising / lowering min_order and
    max_order) must integrate like one configured through the constructor, and integrate polynomials exactly."""
    from replaylib.native import run_native
    if 'MultipletLineShape.__init__' in o.name:
        # the caller re-uses his table array after constructing the model: the model must keep producing the multiplet it was given
        code = """
import numpy as np
from raysect.optical import World, Point3D, Vector3D, Spectrum
from cherab.core.atomic import Line, hydrogen, AtomicData
from cherab.core.model import MultipletLineShape
from cherab.tools.plasmas.slab import build_slab_plasma
plasma = build_slab_plasma(peak_density=5e19, parent=World())
line = Line(hydrogen, 0, (3, 2)); sp = plasma.composition.get(hydrogen, 0)
table = np.array([[656.0, 656.3, 656.9], [0.2, 0.5, 0.3]], dtype=np.float64)
pristine = table.copy()
m = MultipletLineShape(line, 656.3, sp, plasma, AtomicData(), table)
def spec(model):
    s = Spectrum(650., 662., 600); model.add_line(3.0, Point3D(0.5, 0, 0), Vector3D(1, 0, 0), s); return s.samples.copy()
first = spec(m)
table[0, :] = [500.0, 501.0, 502.0]; table[1, :] = [70.0, 0.5, 0.25]
second = spec(m)
fresh = spec(MultipletLineShape(line, 656.3, sp, plasma, AtomicData(), pristine))
ok = bool(np.allclose(second, fresh, rtol=1e-12, atol=0) and np.allclose(first, fresh, rtol=1e-12, atol=0))
print(json.dumps({"integral_before_caller_reuses_table": float(first.sum() * 0.02), "integral_after": float(second.sum() * 0.02),
                  "integral_fresh_model": float(fresh.sum() * 0.02), "equal": ok}))
"""
        out = run_native(ctx, code, timeout=300)
        return {'confirmed': bool(out) and out.get('equal') is False, 'observed': out,
                'input': 'MultipletLineShape(..., table); then table[...] = other values (in place); add_line()',
                'expected': 'same spectrum as a model built from a pristine copy of the table'}
    if 'StarkBroadenedLine' in o.name:
        # normalisation of the real model over electron densities from the Doppler-dominated to the Stark-dominated regime, with and
        # without magnetic field, all polarisations (window 200 nm wide: 2 % tolerance for the Lorentzian wings)
        code = """
import numpy as np
from raysect.optical import World, Point3D, Vector3D, Spectrum
from cherab.core.atomic import Line, deuterium, AtomicData
from cherab.core.model import StarkBroadenedLine
from cherab.tools.plasmas.slab import build_constant_slab_plasma
from raysect.core.math.function.vector3d import Constant3D as CV
bad = []; n = 0
line = Line(deuterium, 0, (3, 2))
for ne in (1e15, 1e17, 1e18, 1e19, 1e20, 1e21, 1e23):
    for b in ((0, 0, 0), (0.5, 2.0, 1.0)):
        plasma = build_constant_slab_plasma(length=1, width=1, height=1, electron_density=ne, electron_temperature=20.,
                                            plasma_species=[(deuterium, 0, 1e17, 5., Vector3D(0, 0, 0))], b_field=Vector3D(*b), parent=World())
        sp = plasma.composition.get(deuterium, 0)
        tot = {}
        for pol in ('no', 'pi', 'sigma'):
            m = StarkBroadenedLine(line, 656.1, sp, plasma, AtomicData(), polarisation=pol)
            s = Spectrum(556., 756., 40000); m.add_line(2.5, Point3D(0.5, 0, 0), Vector3D(1, 0.3, 0.2), s)
            tot[pol] = float(s.samples.sum() * s.delta_wavelength); n += 1
        want = {'no': 2.5}
        if not abs(tot['no'] - 2.5) <= 0.02 * 2.5 or not abs(tot['pi'] + tot['sigma'] - 2.5) <= 0.02 * 2.5:
            bad.append({"electron_density": ne, "b_field": b, "integrals": tot, "expected_unpolarised": 2.5})
print(json.dumps({"cases": n, "bad": bad[:4], "nbad": len(bad)}))
"""
        out = run_native(ctx, code, timeout=600)
        return {'confirmed': bool(out) and bool(out.get('nbad')), 'observed': out, 'input': (out or {}).get('bad', [None])[0] if out and out.get('bad') else None,
                'expected': 'spectral integral = radiance (unpolarised); pi + sigma = radiance'}
    if 'GaussianQuadrature' not in o.name:
        return None
    code = """
from cherab.core.math.integrators import GaussianQuadrature
import math
f = lambda x: math.exp(-0.5 * x * x) * (1 + x) ** 2
bad = []
for (mn0, mx0), steps in (((1, 50), [("min_order", 4), ("max_order", 12)]), ((1, 50), [("max_order", 12), ("min_order", 4)]),
                          ((6, 20), [("min_order", 2), ("min_order", 5)]), ((3, 9), [("max_order", 30), ("max_order", 8), ("min_order", 7)])):
    q = GaussianQuadrature(f, 1e-10, mx0, mn0)
    for name, v in steps:
        setattr(q, name, v)
    fresh = GaussianQuadrature(f, 1e-10, q.max_order, q.min_order)
    a, b = q(-1.0, 2.5), fresh(-1.0, 2.5)
    if not abs(a - b) <= 1e-12 * abs(b):
        bad.append({"constructed_with_orders": [mn0, mx0], "setters": steps, "integral_after_setters": a, "integral_fresh_integrator": b})
print(json.dumps({"bad": bad[:3], "nbad": len(bad)}))
"""
    out = run_native(ctx, code, timeout=300)
    exp = 'same value as an integrator constructed with the final orders'
    if out and out.get('nbad'):
        return {'confirmed': True, 'input': out['bad'][0], 'observed': out, 'expected': exp}
    return {'confirmed': False, 'input': None, 'observed': out, 'expected': exp}
