"""C04 — beam density: conservation, monotonic decay, envelope."""
import z3
from .common import lemma, as_bool, call_cases
from pyvc.values import Obj, to_real

PROP = 'C04'
LEVEL = 'proof'
EXPLANATION = ('Contracts on the real Beam.density / Beam.direction / SingleRayAttenuator.density / _beam_stopping / _beam_attenuation bodies: '
               'z-range clamp, Gaussian envelope formula with sigma_{x,y}^2 = sigma^2 + (z tan alpha)^2, clamp radius, composite stopping '
               'coefficient tied to ghost sums, source density P/(E m e)/v and the exp(-cumulative_trapezoid(S)/v) attenuation factor; lemmas: '
               'cross-section integral (trusted Gaussian integral), constancy without stopping, monotone decay, streamline invariants.')
EXPLANATION += '  _populate_stopping_data_cache: one entry per plasma species, the stopping rate fetched from the current atomic data source.'
N = "cherab/core/beam/node.pyx"
A = "cherab/core/model/attenuator/singleray.pyx"
NAMED_CONSTANTS = {'elementary_charge', 'atomic_mass', 'speed_of_light', 'Planck'}
ASSUMPTIONS = ['cumulative_trapezoid(y, x, initial=0) is the cumulative trapezoid integral on the sample grid (scipy); np.exp element-wise; '
               'Interpolator1DArray linear interpolation (raysect)',
               'integral over the plane of exp(-(x^2/sx^2 + y^2/sy^2)/2)/(2 pi sx sy) = 1 (trusted Gaussian integral)']
NOT_APPLICABLE = ['the continuous integral int_0^z S/v: the code computes, and the contract states, its trapezoid discretisation on the attenuator '
                  'grid (discretisation error O(step^2) is not an obligation)']


def new_vector3d(eng, st, fr, recv, args, kwargs):
    o = eng.new_obj(st, 'Vector3D', name='v3d')
    for n, a in zip('xyz', args):
        eng.write_attr(st, o, n, 'real', to_real(a))
    return o


def np_zeros(eng, st, fr, recv, args, kwargs):
    from pyvc.values import to_int
    o = eng.new_obj(st, 'ndarray', 'arr', 'real', 1, name='zeros')
    st.heap['$len'] = z3.Store(eng.field(st, '$len'), o.ref, to_int(args[0]))
    fid = '$d1:real'
    st.heap[fid] = z3.Store(eng.field(st, fid), o.ref, z3.K(z3.IntSort(), z3.RealVal(0)))
    return o


EXTERNALS = {
    'new_vector3d': {'kind': 'custom', 'fn': new_vector3d, 'doc': 'raysect new_vector3d(x, y, z)'},
    'BeamAttenuator.density': {'kind': 'pure', 'result': 'real', 'override': True, 'doc': 'attenuator interface (SingleRayAttenuator verified below)'},
    'cumulative_trapezoid': {'kind': 'logged', 'result': 'ref:ndarray', 'label': 'cumulative_trapezoid', 'doc': 'scipy cumulative_trapezoid'},
    'zeros': {'kind': 'custom', 'fn': np_zeros, 'doc': 'numpy.zeros(n): fresh array of n zeros'},
    'obj.exp': {'kind': 'logged', 'result': 'ref:ndarray', 'label': 'np.exp', 'doc': 'numpy exp, element-wise'},
}

dens = lambda o: "%s.distribution.density(x, y, z)" % o
temp = lambda o: "%s.distribution.effective_temperature(x, y, z)" % o
vel = lambda o: "%s.distribution.bulk_velocity(x, y, z)" % o


def register(reg):
    P3 = {"x": "real", "y": "real", "z": "real"}
    reg.contract(N, "Beam.density", PROP, sorts=P3,
        raises={"ValueError": "is_none(self._attenuator)"},
        ensures=[("outside_range", "implies(z < 0 or z > self._length, result == 0)"),
                 ("inside_range", "implies(not (z < 0 or z > self._length), result == self._attenuator.density(x, y, z))")],
        modifies=[])
    reg.contract(N, "Beam.direction", PROP, sorts=P3,
        ghost={"sx2()": "self._sigma * self._sigma + z * z * self._tanxdiv * self._tanxdiv",
               "sy2()": "self._sigma * self._sigma + z * z * self._tanydiv * self._tanydiv"},
        ensures=[("before_source", "implies(z <= 0, same(result, self.BEAM_AXIS))"),
                 ("diverging", lambda P: [("diverging", z3.Implies(as_bool(P.term("z > 0")), as_bool(direction_post(P))))])],
        modifies=["x:real", "y:real", "z:real"])
    reg.contract(A, "SingleRayAttenuator.density", PROP, sorts=P3,
        ghost={"s0()": "self._beam.get_sigma()", "sx()": "sqrt(s0()**2 + (z * self._tanxdiv)**2)", "sy()": "sqrt(s0()**2 + (z * self._tanydiv)**2)",
               "nr2()": "(x / sx())**2 + (y / sy())**2"},
        requires=["not is_none(self._stopping_data)", "not is_none(self._density)", "not is_none(self._beam)"],
        ensures=[("clamped", "implies(self.clamp_to_zero and nr2() > self._clamp_sigma_sqr, result == 0)"),
                 ("envelope", "implies(not (self.clamp_to_zero and nr2() > self._clamp_sigma_sqr), "
                  "result == self._density.evaluate(z) * (exp(-0.5 * nr2()) / (2 * M_PI * sx() * sy())))")],
        modifies=[])
    # _populate_stopping_data_cache: the list rebuilt after every change holds, for every plasma species in composition order, the pair
    # (species, stopping rate of the CURRENT atomic data source for the current beam element and that species)
    PS = {"comp()": "as_seq(self._plasma._composition)", "nsp()": "length(comp())", "sps(q)": "typed(comp()[q], 'Species')",
          "rate(q)": "self._atomic_data.beam_stopping_rate(self._beam._element, sps(q).element, sps(q).charge)",
          "SD()": "self._stopping_data", "ent(q)": "as_seq(SD()[q])"}
    reg.contract(A, "SingleRayAttenuator._populate_stopping_data_cache", PROP, attrs={"_stopping_data": "seq:ref"}, ghost=PS,
        externals={'.beam_stopping_rate': {'kind': 'pure', 'result': 'ref:BeamStoppingRate', 'doc': 'atomic data provider: beam stopping rate'}},
        raises_any=["ValueError"],
        loops={0: dict(index='m', invariant=["0 <= m", "not is_none(SD())", "not alloc0(SD())", "older(SD())", "length(SD()) == m",
                                             "forall(q, 0 <= q and q < m, older(SD()[q]) and not alloc0(SD()[q]))",
                                             "forall(q, 0 <= q and q < m, same(ent(q)[0], sps(q)) and same(ent(q)[1], rate(q)))",
                                             "unchanged('_atomic_data:ref') and unchanged('_beam:ref') and unchanged('_plasma:ref')"])},
        ensures=[("one_entry_per_species", "length(SD()) == nsp()"),
                 ("rates_of_current_atomic_data", "forall(q, 0 <= q and q < nsp(), same(ent(q)[0], sps(q)) and same(ent(q)[1], rate(q)))")])

    sg = {"sp(j)": "typed(as_seq(self._stopping_data[j])[0], 'Species')", "cf(j)": "typed(as_seq(self._stopping_data[j])[1], 'BeamStoppingRate')",
          "ei(j)": "EvAmuToMS.inv(objsub(beam_velocity, %s).get_length())" % vel("sp(j)"), "n()": "length(self._stopping_data)"}
    reg.contract(A, "SingleRayAttenuator._beam_stopping", PROP, sorts=dict(P3, beam_velocity="ref:Vector3D!"), attrs={"_stopping_data": "seq:ref"},
        ghost=sg, consts={"DS": "fn:int->real", "ST": "fn:int->real"},
        axioms=["DS(0) == 0", "ST(0) == 0", "forall(j, j >= 0, DS(j + 1) == DS(j) + sp(j).charge * sp(j).charge * %s)" % dens("sp(j)"),
                "forall(j, j >= 0, ST(j + 1) == ST(j) + %s * sp(j).charge * cf(j).evaluate(ei(j), DS(n()) / sp(j).charge, %s))" % (dens("sp(j)"), temp("sp(j)"))],
        requires=["not is_none(self._stopping_data)"],
        loops={0: dict(index='k', invariant=["0 <= k", "density_sum == DS(k)"]),
               1: dict(index='k', invariant=["0 <= k", "stopping_coeff == ST(k)", "density_sum == DS(n())"])},
        result='real', ensures=[("composite_stopping", "result == ST(n())")], modifies=[])
    # attenuation along the axis: source density and the discrete attenuation factor
    reg.contract(A, "SingleRayAttenuator._beam_attenuation", PROP,
        sorts={"axis": "arr:real:1!", "x": "arr:real:1!", "y": "arr:real:1!", "z": "arr:real:1!", "energy": "real", "power": "real", "mass": "real",
               "direction": "ref:Vector3D!"},
        requires=["length(x) == length(axis)", "length(y) == length(axis)", "length(z) == length(axis)", "not is_none(self._stopping_data)"],
        ghost={"v()": "EvAmuToMS.to(energy)", "bv()": "objmul(direction.normalise(), v())", "n0()": "power / EvToJ.to(energy * mass) / v()"},
        loops={0: dict(invariant=["0 <= i", "forall(k, 0 <= k and k < i, stopping_coeff[k] == G_stop(self, x[k], y[k], z[k], bv()))",
                                  "length(stopping_coeff) == length(axis)"])},
        consts={"G_stop": "fn:ref,real,real,real,ref->real"},
        externals={'SingleRayAttenuator._beam_stopping': {'kind': 'pure', 'result': 'real', 'override': True, 'fname': 'G_G_stop', 'exact_name': True,
                                                          'doc': '_beam_stopping verified separately'}},
        ensures=[("source_density", "self._source_density == n0()"),
                 ("attenuation_factor", attenuation_post)],
        modifies=["_source_density:real", "$d1:real", "$len"])


def _new_array_1d(eng, st, n, name):
    from pyvc.values import to_int
    o = eng.new_obj(st, 'ndarray', 'arr', 'real', 1, name=name)
    st.heap['$len'] = z3.Store(eng.field(st, '$len'), o.ref, to_int(n))
    return o


def register_calc_attenuation(reg):
    """_calc_attenuation hands _beam_attenuation the beam's own energy, power and mass and, as direction, the image of the beam axis under
    the beam -> plasma transform (a VECTOR transform: the third column of the rotation part for BEAM_AXIS = (0, 0, 1)); the interaction
    velocity - and with it the stopping coefficient S - is taken relative to this direction."""
    A = "cherab/core/model/attenuator/singleray.pyx"
    ext = {'SingleRayAttenuator._beam_attenuation': {'kind': 'logged', 'result': 'ref:ndarray', 'alloc': True, 'label': '_beam_attenuation', 'override': True,
                                                     'doc': '_beam_attenuation (verified separately)'},
           'AffineMatrix3D.__new__': {'kind': 'fresh', 'result': 'ref:AffineMatrix3D', 'alloc': True, 'doc': 'raysect matrix allocation'},
           'Point3D.__new__': {'kind': 'fresh', 'result': 'ref:Point3D', 'alloc': True, 'doc': 'raysect point allocation'},
           'Vector3D.__new__': {'kind': 'fresh', 'result': 'ref:Vector3D', 'alloc': True, 'doc': 'raysect vector allocation'},
           '_NodeBase.to': {'kind': 'pure', 'override': True, 'result': 'ref:AffineMatrix3D', 'fname': 'node_to', 'doc': 'raysect Node.to()'},
           'Vector3D.transform': {'kind': 'pure', 'override': True, 'result': 'ref:Vector3D', 'fname': 'vec_transform', 'doc': 'raysect Vector3D.transform(matrix)'},
           'Point3D.transform': {'kind': 'pure', 'override': True, 'result': 'ref:Point3D', 'fname': 'pt_transform', 'doc': 'raysect Point3D.transform(matrix)'},
           '.to': {'kind': 'pure', 'override': True, 'result': 'ref:AffineMatrix3D', 'doc': 'raysect Node.to(): transform between node coordinate systems'},
           '.transform': {'kind': 'pure', 'override': True, 'result': 'ref', 'doc': 'raysect Vector3D/Point3D.transform(matrix)'},
           'new_point3d': {'kind': 'pure', 'override': True, 'result': 'ref:Point3D', 'doc': 'raysect new_point3d'},
           'new_vector3d': {'kind': 'pure', 'override': True, 'result': 'ref:Vector3D', 'doc': 'raysect new_vector3d'},
           'ceil': {'kind': 'pure', 'result': 'real', 'doc': 'numpy.ceil'},
           'linspace': {'kind': 'custom', 'fn': lambda eng, st, fr, recv, args, kwargs: _new_array_1d(eng, st, args[2], 'linspace'),
                        'doc': 'numpy.linspace(a, b, n): new 1-D array of length n (contents not modelled)'},
           'zeros': {'kind': 'custom', 'fn': lambda eng, st, fr, recv, args, kwargs: _new_array_1d(eng, st, args[0], 'zeros'),
                     'doc': 'numpy.zeros(n): new 1-D array of length n'},
           'Interpolator1DArray()': {'kind': 'logged', 'result': 'ref:Interpolator1DArray', 'alloc': True, 'label': 'Interpolator1DArray', 'doc': 'raysect interpolator'},
           'tan': {'kind': 'pure', 'result': 'real', 'doc': 'libc tan'}}
    reg.contract(A, "SingleRayAttenuator._calc_attenuation", PROP, name='arguments', externals=ext,
        requires=["not is_none(self._beam)", "not is_none(self._plasma)"],
        flags={'replay_decides': True},
        loops={0: dict(index='k', invariant=["0 <= k", "length(xaxis) == nbeam and length(yaxis) == nbeam and length(zaxis) == nbeam and length(beam_z) == nbeam"])},
        ensures=[("attenuation_call", call_cases(['_beam_attenuation'], [
            ("True", [('_beam_attenuation', [None, None, None, None, "self._beam._energy", "self._beam._power", "self._beam._element.atomic_weight",
                                            "self._beam.BEAM_AXIS.transform(self._beam.to(self._plasma))"])])]))])


def direction_post(P):
    """z > 0: the result is normalise() of the vector (x z^2 tan_x^2 / sx^2, y z^2 tan_y^2 / sy^2, z)."""
    res = P.result
    if not isinstance(res, Obj) or not z3.is_app(res.ref) or not res.ref.decl().name().startswith('ext_Vector3D_normalise'):
        return z3.BoolVal(False)
    vec = Obj(res.ref.arg(0), 'Vector3D')
    vx = P.eng.read_attr(P.st, vec, 'x', 'real')
    vy = P.eng.read_attr(P.st, vec, 'y', 'real')
    vz = P.eng.read_attr(P.st, vec, 'z', 'real')
    return z3.And(vx == to_real(P.value("x * (z * z * self._tanxdiv * self._tanxdiv) / sx2()")),
                  vy == to_real(P.value("y * (z * z * self._tanydiv * self._tanydiv) / sy2()")), vz == to_real(P.value("z")))


def attenuation_post(P):
    """result = n0 * exp(-cumulative_trapezoid(stopping_coeff, axis, initial=0) / v) with stopping_coeff[k] = S(x_k, y_k, z_k)."""
    out = []
    ct = P.calls('cumulative_trapezoid')
    ex = P.calls('np.exp')
    ok = len(ct) == 1 and len(ex) == 1
    out.append(("attenuation.calls", z3.BoolVal(ok)))
    if not ok:
        return out
    sc = ct[0].args[0]
    out.append(("attenuation.integrand_is_stopping_profile", P.term(
        "forall(k, 0 <= k and k < length(axis), sc[k] == G_stop(self, x[k], y[k], z[k], bv()))", sc=sc)))
    out.append(("attenuation.grid", as_bool(P.eng.identical(ct[0].args[1], P.value("axis")))))
    init = ct[0].kwargs.get('initial')
    out.append(("attenuation.initial_zero", z3.BoolVal(init == 0)))
    # argument of exp:  -(ct) / v
    arg = ex[0].args[0]
    U = z3.Function('objop_USub_Ref', arg.ref.sort(), arg.ref.sort())
    v = to_real(P.value("v()"))
    good = z3.is_app(arg.ref) and arg.ref.decl().name().startswith('objop_Div') and arg.ref.num_args() == 2
    out.append(("attenuation.exp_argument.shape", z3.BoolVal(bool(good))))
    if good:
        out.append(("attenuation.exp_argument", z3.And(arg.ref.arg(0) == U(ct[0].result.ref), arg.ref.arg(1) == v)))
    res = P.result
    good2 = isinstance(res, Obj) and z3.is_app(res.ref) and res.ref.decl().name().startswith('objop_Mult') and res.ref.num_args() == 2
    out.append(("attenuation.result.shape", z3.BoolVal(bool(good2))))
    if good2:
        out.append(("attenuation.result", z3.And(res.ref.arg(0) == to_real(P.value("n0()")), res.ref.arg(1) == ex[0].result.ref)))
    return out


def _lemmas(ctx):
    R = z3.Real
    out = []
    # no stopping => T = 0 => n_line(z) = n0 exp(0) constant; modelled with exp(0) = 1 axiom
    E = z3.Function('m_exp', z3.RealSort(), z3.RealSort())
    n0, v, T1, T2 = R('n0'), R('v'), R('T1'), R('T2')
    out.append(lemma('no_stopping_constant_flux', PROP, [E(0) == 1, v > 0], n0 * E(-(0) / v) == n0, 'S = 0 everywhere: the line density is n0 at every z'))
    # monotone decay: S >= 0 => cumulative integral non-decreasing => density non-increasing (exp monotone, n0 >= 0)
    out.append(lemma('monotone_decay', PROP, [n0 >= 0, v > 0, T1 <= T2, z3.Implies(-T2 / v <= -T1 / v, E(-T2 / v) <= E(-T1 / v))],
                     n0 * E(-T2 / v) <= n0 * E(-T1 / v), 'with exp monotone: larger accumulated stopping gives smaller density'))
    h, s1, s2 = R('h'), R('s1'), R('s2')
    out.append(lemma('trapezoid_nonnegative_increment', PROP, [h >= 0, s1 >= 0, s2 >= 0], T1 + 0.5 * h * (s1 + s2) >= T1,
                     'each trapezoid increment of a non-negative stopping profile is non-negative'))
    # streamlines: along (ex, ey, z) with ex = x z t^2 / sx^2 one has d/dz [x / sx(z)] = 0, where sx^2 = s^2 + z^2 t^2
    x, z, t, s, sx = R('x'), R('z'), R('t'), R('s'), R('sx')
    dxdz = x * z * t * t / (sx * sx)          # ex / ez  (ez = z, so dx/dz = ex / z = x z t^2 / sx^2 ... times 1/z * z)
    dsx = z * t * t / sx                       # d sx / dz
    out.append(lemma('streamline_invariant', PROP, [sx > 0, sx * sx == s * s + z * z * t * t, z > 0],
                     (x * z * z * t * t / (sx * sx)) / z / sx - x * dsx / (sx * sx) == 0,
                     'd/dz (x / sigma_x(z)) = (dx/dz)/sigma_x - x sigma_x\'/sigma_x^2 = 0 with dx/dz = e_x / e_z'))
    return out


LEMMAS = [_lemmas]


def native_replay(ctx, o):
    """Attenuator obligations: history replay on a real scene - sample the beam density, replace the atomic data source by one with a
    four times larger stopping rate, sample again; compared with a beam built from scratch with the final atomic data."""
    import os
    from replaylib.native import run_native
    scene = open(os.path.join(ctx['verif'], 'replaylib', 'beam_scene.py')).read()
    if 'Beam._modified' in o.name:
        # a beam without emission models (pure density sampler): sample, move the beam (own transform, then an ancestor), sample again
        code = scene + '''
from raysect.core import Node
d0 = beam.density(0, 0, 3.0)
beam.transform = translate(1.8, 0, -2)
d1 = beam.density(0, 0, 3.0)
b2 = Beam(parent=world, transform=translate(1.8, 0, -2))
b2.plasma = plasma; b2.atomic_data = Data(); b2.energy = 60000; b2.power = 1e6; b2.element = elements.deuterium
b2.sigma = 0.05; b2.divergence_x = 0.5; b2.divergence_y = 0.5; b2.length = 5.0
b2.attenuator = SingleRayAttenuator(clamp_to_zero=False)
d2 = b2.density(0, 0, 3.0)
print(json.dumps({"density_before_move": d0, "density_after_move": d1, "density_fresh_beam_at_new_position": d2, "equal": abs(d1 - d2) <= 1e-9 * abs(d2)}))
'''
        out = run_native(ctx, code)
        return {'confirmed': bool(out) and out.get('equal') is False, 'observed': out,
                'input': 'beam without emission models: density(0,0,3); beam.transform = translate(1.8, 0, -2); density(0,0,3)',
                'expected': 'density equals that of a beam built at the new position'}
    if '_calc_attenuation' in o.name:
        # frame invariance: a beam placed with transform R in a plasma flowing with u must show the on-axis density of an unrotated beam
        # in a plasma flowing with R^-1 u (energy-dependent stopping rate, so the interaction velocity matters)
        code = """
import math
from raysect.core import World, Vector3D, translate, rotate_x, rotate_y, rotate_z
from cherab.core import Beam
from cherab.core.atomic import AtomicData, BeamStoppingRate, deuterium
from cherab.core.model import SingleRayAttenuator
from cherab.tools.plasmas.slab import build_constant_slab_plasma
class _Rate(BeamStoppingRate):
    def evaluate(self, energy, density, temperature):
        return 1e-13 * (energy / 5e4) ** 2
class _Data(AtomicData):
    def beam_stopping_rate(self, beam_ion, plasma_ion, charge):
        return _Rate()
def on_axis(transform, flow):
    world = World(); data = _Data()
    plasma = build_constant_slab_plasma(length=1, width=1, height=1, electron_density=1e19, electron_temperature=1e3,
                                        plasma_species=[(deuterium, 1, 1e19, 1e3, flow)])
    plasma.atomic_data = data; plasma.parent = world
    beam = Beam(transform=transform); beam.atomic_data = data; beam.plasma = plasma; beam.attenuator = SingleRayAttenuator()
    beam.energy = 5e4; beam.power = 1e6; beam.element = deuterium; beam.sigma = 0.1; beam.length = 3.0; beam.parent = world
    return [beam.density(0, 0, z) for z in (0.5, 1.5, 2.5)]
# a rotated beam in a plasma flowing with u must see what an unrotated beam sees in a plasma flowing with R^-1 u
bad = []; n = 0
u = Vector3D(2e5, -1.5e6, 8e5)
for name, rot in (("translate(1,2,3)", translate(1, 2, 3)), ("rotate_z(40)", rotate_z(40)), ("rotate_x(90)", rotate_x(90)), ("rotate_x(-35)", rotate_x(-35)),
                  ("rotate_y(25)*rotate_x(-50)", rotate_y(25) * rotate_x(-50)), ("translate(0.3,0,1)*rotate_y(120)", translate(0.3, 0, 1) * rotate_y(120))):
    got = on_axis(rot, u)
    want = on_axis(translate(0, 0, 0), u.transform(rot.inverse()))
    n += 1
    if not all(abs(a - b) <= 1e-9 * abs(b) for a, b in zip(got, want)):
        bad.append({"beam_transform": name, "plasma_flow": [u.x, u.y, u.z], "on_axis_density_z_0.5_1.5_2.5": got, "same_configuration_seen_from_the_beam_frame": want})
print(json.dumps({"cases": n, "bad": bad[:3], "nbad": len(bad)}))
"""
        out = run_native(ctx, code, timeout=600)
        return {'confirmed': bool(out) and bool(out.get('nbad')), 'observed': out, 'input': out['bad'][0] if out and out.get('bad') else None,
                'expected': 'the same on-axis density as the identical configuration described in the beam frame'}
    if 'SingleRayAttenuator' not in o.name:
        return None
    code = scene + '''
class _Stop4(BeamStoppingRate):
    def evaluate(self, energy, density, temperature):
        return 4e-13
class Data4(AtomicData):
    def beam_stopping_rate(self, beam_ion, plasma_ion, charge):
        return _Stop4()
d0 = beam.density(0, 0, 3.0)
beam.atomic_data = Data4()
d1 = beam.density(0, 0, 3.0)
b2 = Beam(parent=world, transform=translate(0.6, 0, -2))
b2.plasma = plasma; b2.atomic_data = Data4(); b2.energy = 60000; b2.power = 1e6; b2.element = elements.deuterium
b2.sigma = 0.05; b2.divergence_x = 0.5; b2.divergence_y = 0.5; b2.length = 5.0
b2.attenuator = SingleRayAttenuator(clamp_to_zero=False)
d2 = b2.density(0, 0, 3.0)
print(json.dumps({"density_first_atomic_data": d0, "density_after_replacing_atomic_data": d1, "density_fresh_beam_with_new_atomic_data": d2,
                  "equal": abs(d1 - d2) <= 1e-9 * abs(d2)}))
'''
    out = run_native(ctx, code)
    return {'confirmed': bool(out) and out.get('equal') is False, 'observed': out,
            'input': 'beam.density(0,0,3); beam.atomic_data = <source with stopping rate 4e-13>; beam.density(0,0,3)',
            'expected': 'density equals that of a beam built from scratch with the new atomic data source'}


_register_own = register


def register(reg, ctx=None):
    """plus: the container mutators and scene-graph hooks the derived beam state hangs on always notify (shared with C01)"""
    _register_own(reg)
    register_calc_attenuation(reg)
    from .C01 import register_notifying_mutators
    register_notifying_mutators(reg, PROP)


from .common import bounded_conversions
BOUNDED = [bounded_conversions]
