"""C11 — inversion solvers: SART follows its update rule, NNLS/LSQ return true minimisers."""
import ast
import z3
from .common import lemma, structural as _structural


def structural(name, prop, ok, detail=''):
    return _structural(name, prop, ok, detail, standin='stacking' if name.startswith('stacking/') else None)

PROP = 'C11'
LEVEL = 'proof'
EXPLANATION = ('SART: one arbitrary iteration of the real cell loop (with its inner observation loop) is verified against the documented '
               'update rule x_j <- max(0, x_j + [rho_j > 0] omega/rho_j sum_{i: l_i != 0} W_ij/l_i (b_i - yhat_i) (- beta (L x)_j)) by a loop '
               'invariant with a ghost sum, index safety with boundscheck off, frame (only solution_new[j] written); the numpy-level '
               'statements around the loops (ray lengths/densities, re-projection, convergence measure, stopping rule, initial guess) are '
               'parse-tree obligations.  NNLS/LSQ: stacking statements, definedness of the rescaling (vmax != 0) by the engine, norm '
               'identity and fixed-point lemmas.  Optimality of scipy.optimize.nnls / numpy.linalg.lstsq / pinv is an assumed contract.')
S = "cherab/tools/inversions/sart.pyx"
ASSUMPTIONS = ['scipy.optimize.nnls, numpy.linalg.lstsq and scipy.linalg.pinv return what their documentation says (true minimisers / KKT): '
               'the optimality claim itself is an assumed external contract',
               'np.sum(axis=...), np.dot, slice assignment behave as documented (numpy)']
NOT_APPLICABLE = ['optimality of the third-party solvers (assumed); only the problem handed to them and the returned residual scaling are checked']

V1 = "arr:real:1!"
SORTS = {"jth_cell": "int", "n_sources": "int", "m_observations": "int", "relaxation": "real", "solution_mv": V1, "solution_new_mv": V1,
         "cell_ray_densities_mv": V1, "ray_lengths_mv": V1, "inv_ray_lengths_mv": V1, "obs_vector_mv": V1, "y_hat_vector_mv": V1,
         "geometry_matrix_mv": "arr:real:2!", "grad_penalty_mv": V1}
SIZES = ["0 <= jth_cell and jth_cell < n_sources", "m_observations >= 0",
         "length(solution_mv) == n_sources", "length(solution_new_mv) == n_sources", "length(cell_ray_densities_mv) == n_sources",
         "length(ray_lengths_mv) == m_observations", "length(inv_ray_lengths_mv) == m_observations", "length(obs_vector_mv) == m_observations",
         "length(y_hat_vector_mv) == m_observations", "geometry_matrix_mv.shape[0] == m_observations", "geometry_matrix_mv.shape[1] == n_sources",
         # the output array of the sweep is a separate array (np.zeros in the prologue)
         "not same(solution_new_mv, solution_mv)", "not same(solution_new_mv, cell_ray_densities_mv)", "not same(solution_new_mv, ray_lengths_mv)",
         "not same(solution_new_mv, inv_ray_lengths_mv)", "not same(solution_new_mv, obs_vector_mv)", "not same(solution_new_mv, y_hat_vector_mv)",
         "not same(solution_new_mv, grad_penalty_mv)"]
G = {"term(i)": "ite(ray_lengths_mv[i] == 0, 0, geometry_matrix_mv[i, jth_cell] * inv_ray_lengths_mv[i] * (obs_vector_mv[i] - y_hat_vector_mv[i]))",
     "rho()": "cell_ray_densities_mv[jth_cell]", "xj()": "solution_mv[jth_cell]"}
AX = ["OD(0) == 0", "forall(i, i >= 0, OD(i + 1) == OD(i) + term(i))"]


def register(reg):
    reg.contract(S, "invert_sart", PROP, name='cell-update', flags={'loop_body': 1}, sorts=SORTS, ghost=G,
        consts={"OD": "fn:int->real"}, axioms=AX, requires=SIZES,
        loops={2: dict(invariant=["0 <= ith_obs", "obs_diff == OD(ith_obs)", "unchanged('$d1:real') and unchanged('$d2:real')"])},
        ensures=[("update_rule", "solution_new_mv[jth_cell] == max(0, ite(rho() > 0, old(xj()) + relaxation / rho() * OD(m_observations), old(xj())))"),
                 ("nonnegative", "solution_new_mv[jth_cell] >= 0"),
                 ("frame", "forall(k, k != jth_cell, solution_new_mv[k] == old(solution_new_mv[k])) and unchanged_except('$d1:real', solution_new_mv)")],
        modifies=["$d1:real"])
    reg.contract(S, "invert_constrained_sart", PROP, name='cell-update', flags={'loop_body': 1}, sorts=SORTS, ghost=G,
        consts={"OD": "fn:int->real"}, axioms=AX, requires=SIZES + ["length(grad_penalty_mv) == n_sources"],
        loops={2: dict(invariant=["0 <= ith_obs", "obs_diff == OD(ith_obs)", "unchanged('$d1:real') and unchanged('$d2:real')"])},
        ensures=[("update_rule", "solution_new_mv[jth_cell] == max(0, ite(rho() > 0, old(xj()) + relaxation / rho() * OD(m_observations), old(xj()))"
                  " - grad_penalty_mv[jth_cell])"),
                 ("nonnegative", "solution_new_mv[jth_cell] >= 0"),
                 ("frame", "forall(k, k != jth_cell, solution_new_mv[k] == old(solution_new_mv[k])) and unchanged_except('$d1:real', solution_new_mv)")],
        modifies=["$d1:real"])
    register_nnls(reg)


def _dvec_max(eng, st, fr, recv, args, kwargs):
    """d_vector.max() where d_vector = [b; 0_n], n >= 1 (stacking statements): some value >= 0 (= max(max b, 0))."""
    mx = eng.fresh('dmax', 'real')
    st.pc.append(mx >= 0)
    return mx


def _nnls(eng, st, fr, recv, args, kwargs):
    from pyvc.values import Event
    x = eng.sym_for_spec('x_vector', 'ref')
    rn = eng.fresh('rnorm', 'real')
    st.pc.append(rn >= 0)
    st.log.append(Event('nnls', None, args, kwargs, (x, rn)))
    return (x, rn)


def register_nnls(reg):
    N = "cherab/tools/inversions/nnls.py"
    reg.contract(N, "invert_regularised_nnls", PROP, name='rescaling',
        flags={'stmts_from': 'vmax = d_vector.max()', 'zero_division': 'obligation'},
        sorts={"d_vector": "ref:DVector!", "c_matrix": "ref:CMatrix!", "kwargs": ("dict", [])},
        externals={'DVector.max': {'kind': 'custom', 'fn': _dvec_max, 'doc': 'max of d = [b; 0]: a value >= 0'},
                   'scipy.optimize.nnls': {'kind': 'custom', 'fn': _nnls, 'doc': 'scipy.optimize.nnls returns (x, |Ax - b|) (assumed contract)'}},
        ensures=[("scaled_problem", nnls_post)],
        modifies=[])


def nnls_post(P):
    """nnls is handed (C / v, d / v) with one and the same v > 0 and the reported residual is rnorm * v."""
    evs = P.calls('nnls')
    if len(evs) != 1:
        return [("scaled_problem.one_call", z3.BoolVal(False))]
    ev = evs[0]
    out = []
    a0, a1 = ev.args[0], ev.args[1]
    ok = all(hasattr(a, 'ref') and z3.is_app(a.ref) and a.ref.decl().name().startswith('objop_Div') and a.ref.num_args() == 2 for a in (a0, a1))
    out.append(("scaled_problem.shape", z3.BoolVal(ok)))
    if not ok:
        return out
    v0, v1 = a0.ref.arg(1), a1.ref.arg(1)
    out.append(("scaled_problem.matrix_is_C", a0.ref.arg(0) == P.value("c_matrix").ref))
    out.append(("scaled_problem.vector_is_d", a1.ref.arg(0) == P.value("d_vector").ref))
    out.append(("scaled_problem.same_scale", v0 == v1))
    out.append(("scaled_problem.positive_scale", v0 > 0))
    res = P.result
    out.append(("residual_rescaled", res[1] == ev.result[1] * v0 if isinstance(res, tuple) and len(res) == 2 else z3.BoolVal(False)))
    out.append(("solution_returned", res[0].ref == ev.result[0].ref if isinstance(res, tuple) and len(res) == 2 else z3.BoolVal(False)))
    return out


def _outer(ctx, eng):
    """numpy-level statements of the SART drivers (parse-tree obligations)."""
    tree = ctx['tree']
    out = []
    for fn_name, extra in (("invert_sart", []), ("invert_constrained_sart", ["grad_penalty = np.dot(laplacian_matrix, solution) * beta_laplace"])):
        fn = tree.find_func(S, fn_name)
        stmts = {ast.unparse(n) for n in ast.walk(fn) if isinstance(n, ast.stmt) and not isinstance(n, (ast.For, ast.If, ast.FunctionDef, ast.With))}
        want = {
            'ray_density': "cell_ray_densities = np.sum(geometry_matrix, axis=0)",
            'ray_length': "ray_lengths = np.sum(geometry_matrix, axis=1)",
            'inverse_ray_length': "inv_ray_lengths_mv = 1 / ray_lengths",
            'initial_projection': "y_hat_vector = np.dot(geometry_matrix, solution)",
            'reprojection': "y_hat_vector = np.dot(geometry_matrix, solution_new)",
            'convergence_measure': "convergence.append((measurement_squared - y_hat_squared) / measurement_squared)",
            'measurement_norm': "measurement_squared = np.dot(measurement_vector, measurement_vector)",
            'projection_norm': "y_hat_squared = np.dot(y_hat_vector, y_hat_vector)",
            'commit_iterate': "solution_mv[:] = solution_new_mv[:]",
            'default_guess': "solution = np.zeros(n_sources) + np.exp(-1)",
            'scalar_guess': "solution = np.zeros(n_sources) + initial_guess",
            'array_guess': "solution = initial_guess",
            'returns': "return (solution, convergence)",
        }
        for i, e in enumerate(extra):
            want['penalty%d' % i] = e
        for k, v in want.items():
            out.append(structural('sart/%s.%s' % (fn_name, k), PROP, v in stmts, v))
        src = ast.unparse(fn)
        stop = "if k > 0:\n            if np.abs(convergence[k] - convergence[k - 1]) < conv_tol:\n                break"
        out.append(structural('sart/%s.stopping_rule' % fn_name, PROP, stop in src and 'for k in range(max_iterations):' in src, 'k > 0 and |c_k - c_{k-1}| < tol, at most max_iterations'))
    return out


def _stacking(ctx, eng):
    tree = ctx['tree']
    out = []
    for file, fn_name in (("cherab/tools/inversions/nnls.py", "invert_regularised_nnls"), ("cherab/tools/inversions/lstsq.py", "invert_regularised_lstsq")):
        fn = tree.find_func(file, fn_name)
        stmts = [ast.unparse(n) for n in fn.body]
        want = ["m, n = w_matrix.shape", "tikhonov_matrix = alpha * tikhonov_matrix", "c_matrix = np.zeros((m + n, n))", "c_matrix[0:m, :] = w_matrix[:, :]",
                "c_matrix[m:, :] = tikhonov_matrix[:, :]", "d_vector = np.zeros(m + n)", "d_vector[0:m] = b_vector[:]"]
        pos = [stmts.index(w) if w in stmts else -1 for w in want]
        out.append(structural('stacking/%s.statements' % fn_name, PROP, all(p >= 0 for p in pos) and pos == sorted(pos),
                              'C = [W; alpha L], d = [b; 0] built in this order: %s' % pos))
        out.append(structural('stacking/%s.default_tikhonov_identity' % fn_name, PROP,
                              "if tikhonov_matrix is None:\n    tikhonov_matrix = np.identity(n)" in stmts, 'L defaults to the identity'))
    fn = tree.find_func("cherab/tools/inversions/nnls.py", "invert_regularised_nnls")
    src = ast.unparse(fn)
    out.append(structural('stacking/nnls.scaled_problem_and_residual', PROP,
                          "scipy.optimize.nnls(c_matrix / vmax, d_vector / vmax, **kwargs)" in src and "return (x_vector, rnorm * vmax)" in src,
                          'nnls(C/v, d/v) and residual rnorm * v'))
    fn = tree.find_func("cherab/tools/inversions/lstsq.py", "invert_regularised_lstsq")
    out.append(structural('stacking/lstsq.solver_call', PROP, "np.linalg.lstsq(c_matrix, d_vector, rcond=None)" in ast.unparse(fn), 'lstsq(C, d)'))
    return out


GENERATORS = [_outer, _stacking]


def _lemmas(ctx):
    R = z3.Real
    I = z3.IntSort()
    OD = z3.Function('OD', I, z3.RealSort())
    term = z3.Function('term', I, z3.RealSort())
    i = z3.Int('i')
    out = [lemma('fixed_point.base', PROP, [OD(0) == 0], OD(0) == 0, 'no observations'),
           lemma('fixed_point.step', PROP, [OD(i) == 0, OD(i + 1) == OD(i) + term(i), term(i) == 0], OD(i + 1) == 0,
                 'if W x = b every residual b_i - yhat_i vanishes, so every term and the whole sum vanish')]
    x, w, rho = R('x'), R('w'), R('rho')
    out.append(lemma('fixed_point.update', PROP, [x >= 0, rho > 0], z3.If(x + w / rho * 0 < 0, 0, x + w / rho * 0) == x,
                     'an exact non-negative solution is a fixed point of the update'))
    # scaling invariance of the NNLS problem for v > 0:  |C/v x - d/v| * v = |C x - d|   (component-wise identity)
    c, d, v, xx = R('c'), R('d'), R('v'), R('xx')
    out.append(lemma('nnls.scaling', PROP, [v > 0], (c / v * xx - d / v) * v == c * xx - d, 'each residual component scales by 1/v'))
    # block norm identity, one component of each block: (W x - b)^2 + (alpha L x - 0)^2
    wx, b, lx, al = R('wx'), R('b'), R('lx'), R('alpha')
    out.append(lemma('objective.blocks', PROP, [], (wx - b) * (wx - b) + (al * lx - 0) * (al * lx - 0) == (wx - b) ** 2 + al * al * lx * lx,
                     '|Cx - d|^2 = |Wx - b|^2 + alpha^2 |Lx|^2 (component-wise)'))
    return out


LEMMAS = [_lemmas]


def native_replay(ctx, o):
    """vmax = max([b; 0]) = 0 for a measurement vector without a positive entry: the rescaling divides by zero."""
    if 'invert_regularised_nnls' not in o.name:
        return None
    from replaylib.native import run_native
    code = '''
import numpy as np, warnings
warnings.simplefilter("ignore")
from cherab.tools.inversions import invert_regularised_nnls
W = np.array([[1.0, 0.5], [0.2, 1.0], [0.3, 0.3]]); b = np.array([-1.0, 0.0, -0.5])
try:
    x, r = invert_regularised_nnls(W, b, alpha=0.1)
    ok = bool(np.all(np.isfinite(x)) and np.isfinite(r) and np.all(x >= 0))
    out = {"x": [float(v) for v in x], "rnorm": float(r), "finite_nonnegative": ok, "error": None}
except Exception as e:
    out = {"error": repr(e)[:200], "finite_nonnegative": False}
print(json.dumps(out))
'''
    out = run_native(ctx, code)
    return {'confirmed': bool(out) and not out.get('finite_nonnegative'), 'input': 'W 3x2, b = (-1, 0, -0.5), alpha = 0.1', 'observed': out,
            'expected': 'the NNLS minimiser (x = 0 here) with a finite residual norm'}


def bounded_solver_optimality(ctx):
    """Bounded stand-in (NOT a proof) for the solver wrappers whose optimality rests on third-party routines: on random geometry matrices
    (dense, with all-zero columns, with all-zero rows), measurement vectors (incl. non-positive ones) and Tikhonov operators (identity,
    Laplacian-like coupling) the returned vector must satisfy the optimality conditions of the documented problem:
      invert_regularised_nnls : x >= 0 and KKT of min ||W x - b||^2 + alpha^2 ||L x||^2 (gradient >= 0, zero where x > 0); norm = sqrt(objective)
      invert_regularised_lstsq: normal equations (W^T W + alpha^2 L^T L) x = W^T b
      invert_svd              : x = pinv(W) b (minimum-norm least squares: W^T (W x - b) = 0 and x in the row space of W)."""
    from replaylib.native import run_native
    n = 40 if ctx['tier'] == 'quick' else 600
    code = '''
import random, numpy as np
from cherab.tools.inversions import invert_regularised_nnls, invert_regularised_lstsq, invert_svd
rnd = random.Random(%d); rs = np.random.RandomState(%d)
bad = []; cases = 0
def lap(n):
    L = 2.0 * np.eye(n) - np.eye(n, k=1) - np.eye(n, k=-1); return L
for trial in range(%d):
    m, n = rnd.randint(2, 7), rnd.randint(2, 6)
    W = rs.uniform(0, 1, (m, n)) * (rs.uniform(0, 1, (m, n)) < 0.8)
    if rnd.random() < 0.4: W[:, rnd.randrange(n)] = 0.0
    if rnd.random() < 0.3: W[rnd.randrange(m), :] = 0.0
    b = rs.uniform(0, 2, m) if rnd.random() < 0.8 else rs.uniform(-1, 0.5, m)
    alpha = rnd.choice([0.0, 0.01, 0.5, 3.0])
    L = None if rnd.random() < 0.4 else (lap(n) if rnd.random() < 0.6 else np.diag(rs.uniform(0.5, 2, n)))
    Lm = np.eye(n) if L is None else L.copy()         # pristine copy: the solvers get the caller's own array L, several times
    W0, b0 = W.copy(), b.copy()
    if np.abs(W).sum() == 0: continue
    # NNLS
    cases += 1
    try:
        x, norm = invert_regularised_nnls(W, b, alpha=alpha, tikhonov_matrix=L)
        x = np.asarray(x, float)
        g = W.T @ (W @ x - b) + alpha ** 2 * Lm.T @ (Lm @ x)
        obj = float(np.sum((W @ x - b) ** 2) + alpha ** 2 * np.sum((Lm @ x) ** 2))
        scale = 1e-7 * (1.0 + np.abs(W.T @ b).max() + np.abs(x).max())
        if x.min() < -1e-12 or g.min() < -scale or np.abs(g[x > 1e-9]).max(initial=0.0) > scale or abs(norm - np.sqrt(obj)) > 1e-7 * (1 + np.sqrt(obj)):
            bad.append({"solver": "invert_regularised_nnls", "W": W.tolist(), "b": b.tolist(), "alpha": alpha, "L": None if L is None else L.tolist(),
                        "x": x.tolist(), "gradient": g.tolist(), "norm": float(norm), "sqrt_objective": float(np.sqrt(obj))})
    except Exception as e:
        bad.append({"solver": "invert_regularised_nnls", "W": W.tolist(), "b": b.tolist(), "alpha": alpha, "error": repr(e)[:100]})
    # LSTSQ
    cases += 1
    x, res = invert_regularised_lstsq(W, b, alpha=alpha, tikhonov_matrix=L)
    x = np.asarray(x, float)
    g = W.T @ (W @ x - b) + alpha ** 2 * Lm.T @ (Lm @ x)
    if np.abs(g).max() > 1e-7 * (1.0 + np.abs(W.T @ b).max() + np.abs(x).max()):
        bad.append({"solver": "invert_regularised_lstsq", "W": W.tolist(), "b": b.tolist(), "alpha": alpha, "x": x.tolist(), "normal_equation_residual": g.tolist()})
    # the same caller-owned arrays again, another alpha (an alpha scan): arguments must not have been modified by the earlier calls
    cases += 1
    alpha2 = rnd.choice([0.05, 0.7, 2.0])
    x, res = invert_regularised_lstsq(W, b, alpha=alpha2, tikhonov_matrix=L)
    x = np.asarray(x, float)
    g = W0.T @ (W0 @ x - b0) + alpha2 ** 2 * Lm.T @ (Lm @ x)
    if np.abs(g).max() > 1e-7 * (1.0 + np.abs(W0.T @ b0).max() + np.abs(x).max()) or not np.array_equal(W, W0) or not np.array_equal(b, b0) or (L is not None and not np.array_equal(L, Lm)):
        bad.append({"solver": "invert_regularised_lstsq (second call with the same arrays)", "alpha": alpha2, "normal_equation_residual": g.tolist(),
                    "arguments_modified": bool(not np.array_equal(W, W0) or not np.array_equal(b, b0) or (L is not None and not np.array_equal(L, Lm)))})
    # SVD
    cases += 1
    x = np.asarray(invert_svd(W, b), float)
    want = np.linalg.lstsq(W, b, rcond=None)[0]
    if not np.allclose(x, want, rtol=1e-7, atol=1e-9):
        bad.append({"solver": "invert_svd", "W": W.tolist(), "b": b.tolist(), "x": x.tolist(), "minimum_norm_least_squares": want.tolist()})
    if len(bad) > 5: break
print(json.dumps({"cases": cases, "bad": bad[:4]}))
''' % (ctx['seed'] + 11, ctx['seed'] + 11, n)
    out = run_native(ctx, code, timeout=900)
    return {'name': 'NNLS / LSTSQ / SVD wrappers: optimality conditions of the documented problems (BOUNDED stand-in, not counted as proved)',
            'ok': bool(out) and out.get('bad') == [], 'detail': out, 'covers': ['stacking'],
            'bound': '%d random problems (2..7 x 2..6, zero rows / columns, alpha in {0, 0.01, 0.5, 3}), seed %d' % (n, ctx['seed'] + 11)}


BOUNDED = [bounded_solver_optimality]
