"""C18 — laser profiles integrate to the pulse energy and track their parameters."""
import ast
import z3
from .common import (lemma, structural, as_bool, call_cases, rebuilt_after_writes, self_attrs_read, self_attrs_written, class_setters,
                     logged_self, method_reads)
from . import common as _common


def setter_contracts(reg, tree, file, cls, builder, **kw):
    return _common.setter_contracts(reg, PROP, tree, file, cls, builder, **kw)
from pyvc.values import Obj, to_real

PROP = 'C18'
LEVEL = 'proof'
EXPLANATION = ('Coherence as a representation invariant, one obligation per mutator: every property setter that writes an attribute read by a '
               'builder (_cache_constants, _function_changed, _update_cache, or the laser geometry via notifier.notify()) must end with that '
               'builder run on the final parameter values (setters are discovered from the parse tree; read sets computed from the builder '
               'bodies).  Builders and evaluate(): documented closed forms.  _update_cache: loop invariants (bin centres, per-bin PSD, power). '
               'generate_segmented_cylinder: segment calls for every length/radius combination; tiling lemma.')
MF = "cherab/core/model/laser/math_functions.pyx"
MP = "cherab/core/model/laser/profile.pyx"
MS = "cherab/core/model/laser/laserspectrum.pyx"
LS = "cherab/core/laser/laserspectrum.pyx"
ASSUMPTIONS = ['Gaussian integrals (trusted facts): the closed forms proved here integrate to 1 over the plane / over space, so the energy '
               'density integrates to E_p/(c tau) per unit length (resp. E_p in total)',
               'raysect function arithmetic (k * Function3D) and set_energy_density_function are opaque (logged) calls',
               '0.5 (erf u_hi - erf u_lo) is the normal CDF difference over the bin (trusted)']
NOT_APPLICABLE = []

NOTIFY = {'.notify': {'kind': 'logged', 'result': 'none', 'label': 'notify', 'doc': 'Notifier.notify() (verified under C01)'}}


def register(reg, ctx):
    tree = ctx['tree']
    R3 = {"x": "real", "y": "real", "z": "real"}
    # ------------------------------------------------------------------ math functions
    reg.contract(MF, "ConstantAxisymmetricGaussian3D.stddev.setter", PROP, sorts={"value": "real"},
        raises={"ValueError": "value <= 0"}, flags={'raises_ensures': {"ValueError": [("unchanged", "heap_unchanged()")]}},
        ensures=["self._stddev == value", "self._kr == -1 / (2 * value**2)", "self._normalisation == 1 / (2 * pi * value**2)"],
        modifies=["_stddev:real", "_kr:real", "_normalisation:real"])
    reg.contract(MF, "ConstantAxisymmetricGaussian3D.evaluate", PROP, sorts=R3,
        requires=["self._stddev > 0", "self._kr == -1 / (2 * self._stddev**2)", "self._normalisation == 1 / (2 * pi * self._stddev**2)"],
        ensures=[("closed_form", "result == 1 / (2 * pi * self._stddev**2) * exp((x**2 + y**2) * (-1 / (2 * self._stddev**2)))")], modifies=[])
    reg.contract(MF, "ConstantBivariateGaussian3D._cache_constants", PROP,
        ensures=["self._kx == -1 / (2 * self._stddev_x**2)", "self._ky == -1 / (2 * self._stddev_y**2)",
                 "self._normalisation == 1 / (2 * pi * self._stddev_x * self._stddev_y)"],
        modifies=["_kx:real", "_ky:real", "_normalisation:real"])
    reg.contract(MF, "ConstantBivariateGaussian3D.evaluate", PROP, sorts=R3,
        requires=["self._kx == -1 / (2 * self._stddev_x**2)", "self._ky == -1 / (2 * self._stddev_y**2)",
                  "self._normalisation == 1 / (2 * pi * self._stddev_x * self._stddev_y)"],
        ensures=[("closed_form", "result == 1 / (2 * pi * self._stddev_x * self._stddev_y) * "
                  "exp(x**2 * (-1 / (2 * self._stddev_x**2)) + y**2 * (-1 / (2 * self._stddev_y**2)))")], modifies=[])
    reg.contract(MF, "TrivariateGaussian3D._cache_constants", PROP,
        ensures=["self._kx == -1 / (2 * self._stddev_x**2)", "self._ky == -1 / (2 * self._stddev_y**2)", "self._kz == -1 / (2 * self._stddev_z**2)",
                 "self._normalisation == 1 / (sqrt((2 * pi)**3) * self._stddev_x * self._stddev_y * self._stddev_z)"],
        modifies=["_kx:real", "_ky:real", "_kz:real", "_normalisation:real"])
    reg.contract(MF, "TrivariateGaussian3D.evaluate", PROP, sorts=R3,
        requires=["self._kx == -1 / (2 * self._stddev_x**2)", "self._ky == -1 / (2 * self._stddev_y**2)", "self._kz == -1 / (2 * self._stddev_z**2)",
                  "self._normalisation == 1 / (sqrt((2 * pi)**3) * self._stddev_x * self._stddev_y * self._stddev_z)"],
        ensures=[("closed_form", "result == 1 / (sqrt((2 * pi)**3) * self._stddev_x * self._stddev_y * self._stddev_z) * "
                  "exp(x**2 * (-1 / (2 * self._stddev_x**2)) + y**2 * (-1 / (2 * self._stddev_y**2)) + "
                  "(z - self._mean_z)**2 * (-1 / (2 * self._stddev_z**2)))")], modifies=[])
    reg.contract(MF, "GaussianBeamModel._cache_constants", PROP,
        ensures=["self._rayleigh_range == 2 * pi * 1 * self._stddev_waist2 / self._wavelength / 1e-9"], modifies=["_rayleigh_range:real"])
    reg.contract(MF, "GaussianBeamModel.evaluate", PROP, sorts=R3,
        ghost={"s2()": "self._stddev_waist**2 * (1 + ((z - self._waist_z) / self._rayleigh_range)**2)"},
        requires=["self._stddev_waist2 == self._stddev_waist**2"],
        ensures=[("closed_form", "result == 1 / (2 * pi * s2()) * exp((x**2 + y**2) / (-2 * s2()))")], modifies=[])
    reg.contract(MF, "GaussianBeamModel.stddev_waist.setter", PROP, name='square', sorts={"value": "real"}, raises_any=["ValueError"],
        ensures=["self._stddev_waist2 == self._stddev_waist**2", "self._stddev_waist == value"], inline=['_cache_constants'])
    for cls in ("ConstantBivariateGaussian3D", "TrivariateGaussian3D", "GaussianBeamModel"):
        setter_contracts(reg, tree, MF, cls, "_cache_constants", sorts={"value": "real"})
        # ... and the constructor establishes it (placeholder values assigned before the setters run must not survive un-rebuilt)
        _common.constructor_contract(reg, PROP, tree, MF, cls, "_cache_constants",
                                     externals={'Function3D.__init__': {'kind': 'pure', 'result': 'none', 'doc': 'raysect Function3D.__init__ (no state)'}},
                                     sorts={k: "real" for k in ("stddev_x", "stddev_y", "stddev_z", "mean_z", "wavelength", "waist_z", "stddev_waist")})

    # ------------------------------------------------------------------ laser profile models
    SEDF = {'LaserProfile.set_energy_density_function': {'kind': 'logged', 'result': 'none', 'override': True, 'label': 'set_energy_density_function',
                                                         'doc': 'LaserProfile.set_energy_density_function (stores the function, notifies)'}}
    for cls in ("ConstantBivariateGaussian", "TrivariateGaussian", "GaussianBeamAxisymmetric"):
        setter_contracts(reg, tree, MP, cls, "_function_changed", externals=dict(NOTIFY), sorts={"value": "real"})
        setter_contracts(reg, tree, MP, cls, None, label='notify', recv="self.notifier", extra_depends={'_laser_length', '_laser_radius'},
                         externals=dict(NOTIFY), sorts={"value": "real"})
    setter_contracts(reg, tree, MP, "UniformEnergyDensity", None, label='notify', recv="self.notifier",
                     extra_depends={'_laser_length', '_laser_radius'}, externals=dict(NOTIFY), sorts={"value": "real"})
    setter_contracts(reg, tree, MP, "UniformEnergyDensity", None, label='set_energy_density_function', recv="self",
                     extra_depends={'_energy_density'}, externals=dict(SEDF, **{'Constant3D()': {'kind': 'logged', 'result': 'ref:Constant3D', 'alloc': True,
                                                                                 'label': 'Constant3D', 'doc': 'raysect Constant3D'}}),
                     sorts={"value": "real"})

    # reported parameters track what was set (statement: "... and reported parameters equal those of a freshly constructed object"):
    # each setter stores the value in the attribute ITS getter returns and leaves the backing attributes of the other getters alone
    ACC_EXT = dict(NOTIFY, **SEDF)
    ACC_EXT['Constant3D()'] = {'kind': 'logged', 'result': 'ref:Constant3D', 'alloc': True, 'label': 'Constant3D', 'doc': 'raysect Constant3D'}
    for cls in ("UniformEnergyDensity", "ConstantBivariateGaussian", "TrivariateGaussian", "GaussianBeamAxisymmetric"):
        ext = dict(ACC_EXT)
        ext['%s._function_changed' % cls] = logged_self('_function_changed')
        _common.accessor_contracts(reg, PROP, tree, MP, cls, externals=ext)

    def fc(cls, dist_cls, dist_args, norm):
        def post(P):
            out = []
            ev = P.calls('set_energy_density_function')
            if len(ev) != 1:
                return [("function_changed.one_call", z3.BoolVal(False))]
            f = ev[0].args[0]
            ok = isinstance(f, Obj) and z3.is_app(f.ref) and f.ref.decl().name().startswith('objop_Mult') and f.ref.num_args() == 2
            out.append(("function_changed.shape", z3.BoolVal(bool(ok))))
            if not ok:
                return out
            out.append(("function_changed.normalisation", f.ref.arg(0) == to_real(P.value(norm))))
            dist = Obj(f.ref.arg(1), dist_cls)
            out.append(("function_changed.distribution_stored", as_bool(P.eng.identical(dist, P.value("self._distribution")))))
            cons = [e for e in P.st.log if e.label == 'construct:' + dist_cls]
            out.append(("function_changed.distribution_constructed", z3.BoolVal(len(cons) == 1)))
            if len(cons) == 1:
                out.append(("function_changed.distribution_is_new", cons[0].result.ref == dist.ref))
                for i, a in enumerate(dist_args):
                    out.append(("function_changed.distribution_arg%d" % i, to_real(cons[0].args[i]) == to_real(P.value(a))))
            return out
        reg.contract(MP, cls + "._function_changed", PROP,
            externals=dict(SEDF, **{dist_cls + '()': {'kind': 'logged', 'result': 'ref:' + dist_cls, 'alloc': True, 'label': 'construct:' + dist_cls,
                                                     'doc': 'constructor of %s (its own methods are verified above)' % dist_cls}}),
            ensures=[("builder", post)])
    fc("ConstantBivariateGaussian", "ConstantBivariateGaussian3D", ["self._stddev_x", "self._stddev_y"],
       "self._pulse_energy / (SPEED_OF_LIGHT * self._pulse_length)")
    fc("TrivariateGaussian", "TrivariateGaussian3D", ["self._mean_z", "self._stddev_x", "self._stddev_y", "self._stddev_z"], "self._pulse_energy")
    fc("GaussianBeamAxisymmetric", "GaussianBeamModel", ["self._laser_wavelength", "self._waist_z", "self._stddev_waist"],
       "self._pulse_energy / (SPEED_OF_LIGHT * self._pulse_length)")
    reg.contract(MP, "TrivariateGaussian.pulse_length.setter", PROP, name='sigma_z', sorts={"value": "real"}, raises_any=["ValueError"],
        externals={'TrivariateGaussian._function_changed': logged_self('_function_changed')},
        # representation invariant sigma_z = c * tau: assumed on entry (established by the constructor, below), re-established on exit
        requires=["self._stddev_z == self._pulse_length * SPEED_OF_LIGHT"],
        ensures=[("sigma_z_is_c_tau", "self._stddev_z == value * SPEED_OF_LIGHT and self._pulse_length == value")])
    INIT_EXT = {'TrivariateGaussian._function_changed': logged_self('_function_changed'),
                'LaserProfile.__init__': {'kind': 'logged', 'result': 'none', 'label': 'super.__init__', 'doc': 'LaserProfile.__init__ (notifier, defaults)'},
                '.notify': {'kind': 'logged', 'result': 'none', 'label': 'notify', 'doc': 'Notifier.notify()'},
                'TrivariateGaussian.set_polarization': {'kind': 'logged', 'result': 'none', 'label': 'set_polarization', 'override': True, 'doc': 'polarisation function'},
                '.set_pointing_function': {'kind': 'logged', 'result': 'none', 'label': 'set_pointing_function', 'doc': 'pointing function'},
                'ConstantVector3D()': {'kind': 'fresh', 'result': 'ref:ConstantVector3D', 'alloc': True, 'doc': 'raysect constant vector function'},
                'Vector3D()': {'kind': 'fresh', 'result': 'ref:Vector3D', 'alloc': True, 'doc': 'raysect Vector3D'}}
    reg.contract(MP, "TrivariateGaussian.__init__", PROP, name='invariant', raises_any=["ValueError"], externals=INIT_EXT,
        sorts={"pulse_energy": "real", "pulse_length": "real", "mean_z": "real", "laser_length": "real", "laser_radius": "real",
               "stddev_x": "real", "stddev_y": "real", "polarization": "ref:Vector3D!"},
        ensures=[("establishes_sigma_z_is_c_tau", "self._stddev_z == self._pulse_length * SPEED_OF_LIGHT and self._pulse_length == pulse_length"),
                 ("parameters_stored", "self._pulse_energy == pulse_energy and self._stddev_x == stddev_x and self._stddev_y == stddev_y "
                  "and self._mean_z == mean_z and self._laser_radius == laser_radius and self._laser_length == laser_length")])

    # Laser.laser_profile setter: afterwards the laser's configure_geometry IS registered on the new profile's notifier - the registration is
    # made, and no later statement of the setter takes it off again (also when the new profile is the one already attached), and the
    # geometry is rebuilt after the profile is stored
    def profile_registration(P):
        adds = P.calls('notifier.add'); rems = P.calls('notifier.remove')
        out = [("registration.add", z3.BoolVal(len(adds) >= 1))]
        if not adds:
            return out
        la = adds[-1]
        from pyvc.values import BoundMethod as _BM
        cb = la.args[0] if la.args else None
        out.append(("registration.callback_is_configure_geometry", z3.BoolVal(bool(isinstance(cb, _BM) and cb.name == 'configure_geometry' and cb.obj.ref.eq(P.value("self").ref)))))
        out.append(("registration.on_new_profile_notifier", as_bool(P.eng.identical(la.recv, P.value("value.notifier")))))
        pos = P.st.log.index(la)
        later = [e for e in rems if P.st.log.index(e) > pos]
        out.append(("registration.not_removed_afterwards", z3.And(*[z3.Not(as_bool(P.eng.identical(e.recv, P.value("value.notifier")))) for e in later]) if later else z3.BoolVal(True)))
        out.append(("registration.profile_stored", as_bool(P.eng.identical(P.value("self._laser_profile"), P.value("value")))))
        cg = P.calls('configure_geometry')
        out.append(("registration.geometry_rebuilt_last", z3.BoolVal(bool(cg) and P.st.log.index(cg[-1]) > pos)))
        return out
    reg.contract("cherab/core/laser/node.pyx", "Laser.laser_profile.setter", PROP, name='registration', sorts={"value": "ref:LaserProfile!"},
        externals=dict(NOTIFY, **{'Laser.configure_geometry': logged_self('configure_geometry'),
                                  '.add': {'kind': 'logged', 'result': 'none', 'label': 'notifier.add', 'doc': 'Notifier.add'},
                                  '.remove': {'kind': 'logged', 'result': 'none', 'label': 'notifier.remove', 'doc': 'Notifier.remove'}}),
        requires=["not is_none(value.notifier)", "implies(not is_none(self._laser_profile), not is_none(self._laser_profile.notifier))",
                  # each profile owns its notifier
                  "implies(not is_none(self._laser_profile) and not same(self._laser_profile, value), not same(self._laser_profile.notifier, value.notifier))"],
        ensures=[("registered_on_new_profile", profile_registration)])

    # segmented cylinder
    CYL = {'Cylinder()': {'kind': 'logged', 'result': 'ref:Cylinder', 'alloc': True, 'label': 'Cylinder', 'doc': 'raysect Cylinder primitive'},
           'translate': {'kind': 'pure', 'result': 'ref:AffineMatrix3D', 'doc': 'raysect translate'}}
    reg.contract(MP, "generate_segmented_cylinder", PROP, sorts={"radius": "real", "length": "real"}, externals=CYL,
        requires=["radius > 0", "length > 0"],
        ghost={"ns()": "cint(floor(length / (2 * radius)))"},
        loops={0: dict(invariant=[])},
        ensures=[("segments", call_cases(['Cylinder'], [
            ("ns() > 1", [('Cylinder', [], dict(loop='k', lo='0', hi='ns()',
                                                 kwargs={"radius": "radius", "height": "length / ns()", "transform": "translate(0, 0, k * (length / ns()))"}))]),
            ("ns() <= 1", [('Cylinder', [], dict(kwargs={"radius": "radius", "height": "length"}))])]))])

    # ------------------------------------------------------------------ laser spectra
    for cls, file in (("LaserSpectrum", LS), ("ConstantSpectrum", MS), ("GaussianSpectrum", MS)):
        setter_contracts(reg, tree, file, cls, "_update_cache", sorts={"value": "real"})
        _common.constructor_contract(reg, PROP, tree, file, cls, "_update_cache",
                                     sorts={"min_wavelength": "real", "max_wavelength": "real", "bins": "int", "mean": "real", "stddev": "real"},
                                     externals={'Function1D.__init__': {'kind': 'pure', 'result': 'none', 'doc': 'raysect Function1D.__init__'}})
    for cls, file in (("ConstantSpectrum", MS), ("GaussianSpectrum", MS)):
        _common.accessor_contracts(reg, PROP, tree, file, cls, skip=("bins",),
                                   externals={'%s._update_cache' % c: logged_self('_update_cache') for c in ("LaserSpectrum", "ConstantSpectrum", "GaussianSpectrum")})
        _common.accessor_contracts(reg, PROP, tree, file, cls, skip=("min_wavelength", "max_wavelength", "mean", "stddev"), value_sort="int",
                                   externals={'%s._update_cache' % c: logged_self('_update_cache') for c in ("LaserSpectrum", "ConstantSpectrum", "GaussianSpectrum")})
    for cls in ("ConstantBivariateGaussian3D", "TrivariateGaussian3D", "GaussianBeamModel"):
        _common.accessor_contracts(reg, PROP, tree, MF, cls, externals={'%s._cache_constants' % cls: logged_self('_cache_constants')})
    for acc, attr in (("get_min_wavelenth", "_min_wavelength"), ("get_max_wavelenth", "_max_wavelength"), ("get_spectral_bins", "_bins"),
                      ("get_delta_wavelength", "_delta_wavelength")):
        reg.contract(LS, "LaserSpectrum." + acc, PROP, ensures=[("returns_named_attribute", "result == self.%s" % attr)], modifies=[])
    def np_zeros(eng, st, fr, recv, args, kwargs):
        from pyvc.values import to_int
        o = eng.new_obj(st, 'ndarray', 'arr', 'real', 1, name='zeros')
        st.heap['$len'] = z3.Store(eng.field(st, '$len'), o.ref, to_int(args[0]))
        st.heap['$d1:real'] = z3.Store(eng.field(st, '$d1:real'), o.ref, z3.K(z3.IntSort(), z3.RealVal(0)))
        return o
    ARR = {"_wavelengths": "arr:real:1", "_power_spectral_density": "arr:real:1", "_power": "arr:real:1"}
    reg.contract(LS, "LaserSpectrum._update_cache", PROP, attrs=ARR,
        externals={'zeros': {'kind': 'custom', 'fn': np_zeros, 'doc': 'numpy.zeros(n)'},
                   'LaserSpectrum._get_bin_power_spectral_density': {'kind': 'pure', 'result': 'real', 'override': True, 'fname': 'G_G_psd', 'exact_name': True,
                                                                     'doc': 'per-bin PSD of the concrete spectrum (virtual; verified per subclass)'}},
        consts={"G_psd": "fn:ref,real,real->real"},
        ghost={"dl()": "(self._max_wavelength - self._min_wavelength) / self._bins", "lo(k)": "self._min_wavelength + k * dl()"},
        requires=["self._bins >= 1"],
        loops={0: dict(invariant=["0 <= index", "forall(k, 0 <= k and k < index, self._wavelengths[k] == self._min_wavelength + (0.5 + k) * dl())",
                                  "length(self._wavelengths) == self._bins", "self._delta_wavelength == dl()", "not is_none(self._wavelengths)"]),
               1: dict(invariant=["0 <= index", "wvl_lower == self.wavelengths_mv[0] - delta_wvl_half + index * self._delta_wavelength",
                                  "delta_wvl_half == self._delta_wavelength * 0.5", "self._delta_wavelength == dl()",
                                  "forall(k, 0 <= k and k < index, self.power_spectral_density_mv[k] == G_psd(self, "
                                  "self.wavelengths_mv[0] - delta_wvl_half + k * self._delta_wavelength, "
                                  "self.wavelengths_mv[0] - delta_wvl_half + k * self._delta_wavelength + self._delta_wavelength))",
                                  "forall(k, 0 <= k and k < index, self.power_mv[k] == self.power_spectral_density_mv[k] * self._delta_wavelength)",
                                  "forall(k, 0 <= k and k < self._bins, self._wavelengths[k] == self._min_wavelength + (0.5 + k) * dl())",
                                  "same(self.wavelengths_mv, self._wavelengths) and same(self.power_spectral_density_mv, self._power_spectral_density) and same(self.power_mv, self._power)",
                                  "length(self._wavelengths) == self._bins and length(self._power_spectral_density) == self._bins and length(self._power) == self._bins",
                                  "not same(self._wavelengths, self._power_spectral_density) and not same(self._wavelengths, self._power) and not same(self._power, self._power_spectral_density)"])},
        ensures=[("delta", "self._delta_wavelength == dl()"),
                 ("bin_centres", "forall(k, 0 <= k and k < self._bins, self._wavelengths[k] == self._min_wavelength + (0.5 + k) * dl())"),
                 ("bin_power", "forall(k, 0 <= k and k < self._bins, self._power[k] == self._power_spectral_density[k] * dl())"),
                 ("bin_psd", "forall(k, 0 <= k and k < self._bins, self._power_spectral_density[k] == "
                  "G_psd(self, self._wavelengths[0] - dl() * 0.5 + k * dl(), self._wavelengths[0] - dl() * 0.5 + k * dl() + dl()))")])
    reg.contract(MS, "GaussianSpectrum.stddev.setter", PROP, name='constants', sorts={"value": "real"}, raises_any=["ValueError"],
        externals={'LaserSpectrum._update_cache': logged_self('_update_cache')},
        ensures=["self._stddev == value", "self._recip_stddev == 1 / value", "self._normalisation == 1 / (value * sqrt(2 * M_PI))",
                 "self._norm_cdf == 1 / (value * M_SQRT2)"])
    reg.contract(MS, "GaussianSpectrum._get_bin_power_spectral_density", PROP, sorts={"wavelength_lower": "real", "wavelength_upper": "real"},
        ensures=[("cdf_difference", "result == 0.5 * (erf((wavelength_upper - self._mean) * self._norm_cdf) - "
                  "erf((wavelength_lower - self._mean) * self._norm_cdf)) / self._delta_wavelength")], modifies=[])
    reg.contract(MS, "GaussianSpectrum.evaluate", PROP, sorts={"x": "real"},
        ensures=[("gaussian", "result == self._normalisation * exp(-0.5 * ((x - self._mean) * self._recip_stddev)**2)")], modifies=[])
    reg.contract(MS, "ConstantSpectrum.evaluate", PROP, sorts={"x": "real"},
        ensures=[("box", "result == ite(self._min_wavelength <= x and x <= self._max_wavelength, 1.0 / (self._max_wavelength - self._min_wavelength), 0)")],
        modifies=[])


def _lemmas(ctx):
    R = z3.Real
    L, n, k = R('L'), z3.Int('n'), z3.Int('k')
    seg = L / z3.ToReal(n)
    out = [lemma('tiling.contiguous', PROP, [n > 1, L > 0, k >= 0, k < n - 1], z3.ToReal(k) * seg + seg == z3.ToReal(k + 1) * seg,
                 'segment k ends where segment k+1 starts'),
           lemma('tiling.covers', PROP, [n > 1, L > 0], z3.And(z3.RealVal(0) * seg == 0, z3.ToReal(n - 1) * seg + seg == L),
                 'first segment starts at 0, last ends at L: the segments tile [0, L] exactly once')]
    # spectrum: per-bin power telescopes to the CDF difference
    E = z3.Function('m_erf', z3.RealSort(), z3.RealSort())
    T = z3.Function('T', z3.IntSort(), z3.RealSort())
    u = z3.Function('u', z3.IntSort(), z3.RealSort())
    j = z3.Int('j')
    out.append(lemma('spectrum.telescoping.step', PROP, [T(j) == 0.5 * (E(u(j)) - E(u(0))), T(j + 1) == T(j) + 0.5 * (E(u(j + 1)) - E(u(j)))],
                     T(j + 1) == 0.5 * (E(u(j + 1)) - E(u(0))), 'sum of bin powers = CDF difference over the covered range'))
    return out


LEMMAS = [_lemmas]


def native_replay(ctx, o):
    """Setter coherence and accessor obligations: mutate a real object, compare with a freshly constructed one."""
    from replaylib.native import run_native
    scen = None
    if ':stores]' in o.name and '.profile.' in o.name:
        # accessor obligations of the profile classes: set every scalar parameter in turn on a default object, compare all reported
        # parameters and the segment geometry with an object constructed with those values
        scen = '''
from cherab.core.model.laser import UniformEnergyDensity, ConstantBivariateGaussian, TrivariateGaussian, GaussianBeamAxisymmetric
CASES = {UniformEnergyDensity: dict(energy_density=2.0, laser_length=3.0, laser_radius=0.25),
         ConstantBivariateGaussian: dict(pulse_energy=2.0, pulse_length=3.0, stddev_x=0.02, stddev_y=0.03, laser_length=3.0, laser_radius=0.25),
         TrivariateGaussian: dict(pulse_energy=2.0, pulse_length=3.0, mean_z=0.5, stddev_x=0.02, stddev_y=0.03, laser_length=3.0, laser_radius=0.25),
         GaussianBeamAxisymmetric: dict(pulse_energy=2.0, pulse_length=3.0, waist_z=0.5, stddev_waist=0.02, laser_wavelength=900.0, laser_length=3.0, laser_radius=0.25)}
def desc(p):
    return [(type(g).__name__, round(g.height, 9), round(g.radius, 9)) for g in p.generate_geometry()]
bad = []
for cls, kw in CASES.items():
    for order in (sorted(kw), sorted(kw, reverse=True)):
        a = cls()
        for k in order:
            setattr(a, k, kw[k])
        b = cls(**kw)
        for k in kw:
            if getattr(a, k) != getattr(b, k):
                bad.append({"class": cls.__name__, "assigned_in_order": order, "parameter": k, "after_setters": getattr(a, k), "fresh_object": getattr(b, k)})
        if desc(a) != desc(b):
            bad.append({"class": cls.__name__, "assigned_in_order": order, "geometry_after_setters": desc(a)[:2], "geometry_fresh": desc(b)[:2]})
print(json.dumps({"bad": bad[:4], "equal": not bad}))
'''
    elif 'ConstantBivariateGaussian.pulse_energy' in o.name:
        scen = '''
from cherab.core.model.laser import ConstantBivariateGaussian
a = ConstantBivariateGaussian(pulse_energy=1.0, pulse_length=1e-9, stddev_x=0.01, stddev_y=0.01)
a.pulse_energy = 5.0
b = ConstantBivariateGaussian(pulse_energy=5.0, pulse_length=1e-9, stddev_x=0.01, stddev_y=0.01)
va, vb = a.get_energy_density(0.0, 0.0, 0.0), b.get_energy_density(0.0, 0.0, 0.0)
print(json.dumps({"after_setter": va, "fresh_object": vb, "equal": abs(va - vb) <= 1e-9 * abs(vb)}))
'''
    elif 'GaussianSpectrum.stddev' in o.name or 'GaussianSpectrum.mean' in o.name:
        which = 'stddev' if '.stddev.' in o.name else 'mean'
        scen = '''
import numpy as np
from cherab.core.model.laser import GaussianSpectrum
a = GaussianSpectrum(1000.0, 1100.0, 50, mean=1050.0, stddev=5.0)
setattr(a, %r, %r)
b = GaussianSpectrum(1000.0, 1100.0, 50, **dict(dict(mean=1050.0, stddev=5.0), **{%r: %r}))
pa, pb = np.array(a.power_spectral_density), np.array(b.power_spectral_density)
print(json.dumps({"max_abs_difference_of_binned_psd": float(np.abs(pa - pb).max()), "equal": bool(np.allclose(pa, pb))}))
''' % (which, 1060.0 if which == 'mean' else 8.0, which, 1060.0 if which == 'mean' else 8.0)
    elif 'Laser.laser_profile' in o.name:
        scen = '''
from raysect.optical import World
from cherab.core.laser import Laser
from cherab.core.model.laser import UniformEnergyDensity
def desc(laser):
    return [(type(g).__name__, round(g.height, 9), round(g.radius, 9)) for g in laser.get_geometry()]
w = World(); prof = UniformEnergyDensity(energy_density=1.0, laser_length=1.0, laser_radius=0.05)
laser = Laser(parent=w); laser.laser_profile = prof; laser.laser_profile = prof
prof.laser_length = 3.0; prof.laser_radius = 0.25
w2 = World(); p2 = UniformEnergyDensity(energy_density=1.0, laser_length=3.0, laser_radius=0.25); l2 = Laser(parent=w2); l2.laser_profile = p2
a, b = desc(laser), desc(l2)
print(json.dumps({"segments_after_history": len(a), "segments_fresh_laser": len(b), "first_segment_after_history": a[:1], "first_segment_fresh": b[:1], "equal": a == b}))
'''
    elif 'ConstantBivariateGaussian3D' in o.name or 'TrivariateGaussian3D' in o.name or 'GaussianBeamModel' in o.name:
        scen = '''
from cherab.core.model.laser.math_functions import ConstantBivariateGaussian3D, TrivariateGaussian3D, GaussianBeamModel
bad = []
def same(a, b): return abs(a - b) <= 1e-12 * max(abs(a), abs(b), 1e-300)
for sx in (1.0, 0.5, 2.0):
    for sy in (1.0, 0.3):
        f = ConstantBivariateGaussian3D(sx, sy)
        g = ConstantBivariateGaussian3D(sx * 3.0, sy * 2.0); g.stddev_x = sx; g.stddev_y = sy
        if not same(f(0.1, 0.2, 0.0), g(0.1, 0.2, 0.0)):
            bad.append({"class": "ConstantBivariateGaussian3D", "stddev_x": sx, "stddev_y": sy, "constructed": f(0.1, 0.2, 0.0), "reached_through_setters": g(0.1, 0.2, 0.0)})
        for sz in (1.0, 0.7):
            f = TrivariateGaussian3D(0.0, sx, sy, sz)
            g = TrivariateGaussian3D(0.5, sx * 3.0, sy * 2.0, sz * 5.0); g.mean_z = 0.0; g.stddev_x = sx; g.stddev_y = sy; g.stddev_z = sz
            if not same(f(0.1, 0.2, 0.3), g(0.1, 0.2, 0.3)):
                bad.append({"class": "TrivariateGaussian3D", "stddev": [sx, sy, sz], "constructed": f(0.1, 0.2, 0.3), "reached_through_setters": g(0.1, 0.2, 0.3)})
print(json.dumps({"bad": bad[:3], "equal": not bad}))
'''
    elif 'TrivariateGaussian' in o.name:
        scen = '''
from cherab.core.model.laser import TrivariateGaussian
bad = []
for tau in (1.0, 2.0, 1e-8, 0.5):
    for energy in (1.0, 3.0):
        a = TrivariateGaussian(pulse_energy=energy, pulse_length=tau, stddev_x=0.01, stddev_y=0.02)
        b = TrivariateGaussian(pulse_energy=7.0, pulse_length=tau * 3.0, stddev_x=0.01, stddev_y=0.02)
        b.pulse_length = tau; b.pulse_energy = energy
        va, vb = a.get_energy_density(0.001, 0.002, 0.3), b.get_energy_density(0.001, 0.002, 0.3)
        if not abs(va - vb) <= 1e-9 * abs(vb):
            bad.append({"pulse_length": tau, "pulse_energy": energy, "constructed": va, "reached_through_setters": vb})
print(json.dumps({"bad": bad[:3], "equal": not bad}))
'''
    elif 'get_max_wavelenth' in o.name:
        scen = '''
from cherab.core.model.laser import ConstantSpectrum
s = ConstantSpectrum(1000.0, 1100.0, 10)
v = s.get_max_wavelenth()
print(json.dumps({"get_max_wavelenth": v, "max_wavelength": s.max_wavelength, "equal": v == s.max_wavelength}))
'''
    if scen is None:
        return None
    out = run_native(ctx, scen)
    return {'confirmed': bool(out) and out.get('equal') is False, 'observed': out, 'expected': 'same value as a freshly constructed object / the named attribute'}
