"""C08 — ADF parsers return the file's numbers under the documented conventions."""
import ast
import z3
from .common import structural as _structural, as_bool


def structural(name, prop, ok, detail=''):
    tags = (('adf15/', 'adf15'), ('adf11/', 'adf11'), ('adf21/', 'adf21'), ('adf22/', 'adf21'), ('conversion/', 'adf21'))
    st = next((t for pre, t in tags if name.startswith(pre)), None)
    return _structural(name, prop, ok, detail, standin=st)
from pyvc.values import Obj, Ref, to_int, to_real

PROP = 'C08'
LEVEL = 'other'
EXPLANATION = ('Proved (deductive): readvalues (while-loop invariant over a ghost file = sequence of lines + cursor: value k is the k-th '
               '10-character field, exactly ceil(nb/n) lines are consumed - including counts that are not multiples of the values per line), '
               'parse_adas2x_rate (section order, header columns, unit conversions cm^-3 -> m^-3 and the normalisation factor), ADF12 _parse_block (13 '
               'fixed-length sections in the published order, each truncated to its own size entry).  Parse-tree '
               'obligations: charge-offset / 10** / unit conversions of the ADF11 notation converter, reshape((n_te, n_ne)) + swapaxes(0, 1), '
               'element-header check, absent-block error, ADF15 reshape, ADF12/21/22 key nesting.  The regular-expression layers of '
               'parse_adf11 / parse_adf15 cannot be brought into the verifier (bounded stand-in: independent ADF11 / ADF21 writers, random '
               'grid sizes) - hence level "other".')
U = "cherab/openadas/parse/utility.py"
ASSUMPTIONS = ['text-file model: readline() returns the next line of a fixed sequence of lines; string slicing, str.replace and float()/int() are '
               'uninterpreted functions (no string theory needed: the obligations are about which field of which line is converted)',
               'numpy array / reshape / swapaxes as documented']
NOT_APPLICABLE = ['unbounded correctness of the regular expressions of parse_adf11 / parse_adf15 (bounded stand-in only)']

LINE = z3.Function('G_G_line', Ref, z3.IntSort(), Ref)


def readline(eng, st, fr, recv, args, kwargs):
    cur = eng.read_attr(st, recv, '$cur', 'int')
    line = Obj(LINE(recv.ref, cur), 'Str')
    eng.write_attr(st, recv, '$cur', 'int', cur + 1)
    from pyvc.values import Event
    st.log.append(Event('readline', recv, [cur], {}, line))
    return line


FILE_EXT = {
    'TextFile.readline': {'kind': 'custom', 'fn': readline, 'doc': 'readline(): next line of the file (ghost cursor)'},
    '.replace': {'kind': 'pure', 'result': 'ref:Str', 'doc': 'str.replace as an uninterpreted function'},
    'array': {'kind': 'custom', 'fn': lambda eng, st, fr, recv, args, kwargs: args[0], 'doc': 'numpy.array(x): same contents'},
}


def register(reg):
    reg.contract(U, "readvalues", PROP,
        sorts={"file": "ref:TextFile!", "nb_values": "int", "values_per_line": "int", "type": "py:builtin:float", "output": "seq:real"},
        flags={'locals': {"line": "ref:Str"}}, externals=FILE_EXT,
        consts={"G_line": "fn:ref,int->ref:Str"},
        ghost={"c0()": "old(attr(file, '$cur', 'int'))", "n()": "values_per_line", "nbv()": "ite(nb_values > 0, nb_values, 0)",
               "val(l, r)": "float(G_line(file, l)[1 + r * 10:(r + 1) * 10].replace('D', 'E'))"},
        name='fields', requires=["values_per_line >= 1"],
        loops={0: dict(invariant=["0 <= nb_read", "nb_read <= nbv()", "length(output) == nb_read", "not is_none(output)",
                                  "attr(file, '$cur', 'int') == c0() + idiv(nb_read + n() - 1, n())",
                                  "implies(imod(nb_read, n()) != 0, same(line, G_line(file, c0() + idiv(nb_read, n()))))",
                                  "forall(k, 0 <= k and k < nb_read, output[k] == val(c0() + idiv(k, n()), imod(k, n())))"])},
        ensures=[("count", "length(result) == nbv()"),
                 ("fields", "forall(k, 0 <= k and k < nb_values, result[k] == val(c0() + idiv(k, n()), imod(k, n())))"),
                 ("lines_consumed", "attr(file, '$cur', 'int') == c0() + idiv(nbv() + n() - 1, n())")])

    # parse_adas2x_rate: readvalues as an opaque, logged callee
    def rv(eng, st, fr, recv, args, kwargs):
        from pyvc.values import Event
        f = args[0]
        cur = eng.read_attr(st, f, '$cur', 'int')
        n, per = to_int(args[1]), to_int(args[2])
        ty = kwargs.get('type')
        elem = 'int' if ty is not None and 'int' in repr(ty) else 'real'
        res = eng.new_obj(st, 'ndarray', 'arr', elem, 1, name='values')
        st.heap['$len'] = z3.Store(eng.field(st, '$len'), res.ref, n)
        eng.write_attr(st, f, '$cur', 'int', cur + (n + per - 1) / per)
        ev = Event('readvalues', None, [f, args[1], args[2], cur], {}, res)
        st.log.append(ev)
        return res
    EXT = dict(FILE_EXT, **{
        'readvalues': {'kind': 'custom', 'fn': rv, 'override': True, 'doc': 'readvalues (verified above): nb values from ceil(nb/per) lines'},
        'zeros': {'kind': 'logged', 'result': 'ref:ndarray', 'alloc': True, 'label': 'np.zeros', 'doc': 'numpy.zeros'},
        '.__setitem__': {'kind': 'logged', 'result': 'none', 'label': 'setitem', 'doc': 'column assignment sv[:, index] = values'},
    })
    reg.contract(U, "parse_adas2x_rate", PROP, sorts={"file": "ref:TextFile!", "normalisation": "real"}, externals=EXT,
        loops={0: dict(invariant=[])},
        ensures=[("layout", adas2x_post)])
    reg.contract("cherab/openadas/parse/adf12.py", "_parse_block", PROP, sorts={"file": "ref:TextFile!"}, externals=EXT,
        ensures=[("sections", adf12_post)])


def adas2x_post(P):
    """Section order and header columns of the ADF21/22 layout, and the unit conversions of the returned dictionary."""
    out = []
    rl = P.calls('readline')
    rvs = P.calls('readvalues')
    res = P.result
    ok = isinstance(res, dict) and len(rvs) == 5
    out.append(("adas2x.shape", z3.BoolVal(bool(ok))))
    if not ok:
        return out
    c0 = to_int(P.value("old(attr(file, '$cur', 'int'))"))
    # header lines read with readline(): first line (c0), separator, sizes line (c0 + 2), separator -> EB starts at c0 + 4
    out.append(("adas2x.first_header_line", to_int(rl[0].args[0]) == c0))
    out.append(("adas2x.energy_block_starts_after_two_headers_and_two_separators", to_int(rvs[0].args[3]) == c0 + 4))
    eb, dt, svcol, tt, svt = rvs
    out.append(("adas2x.eight_values_per_line", z3.And(*[to_int(r.args[2]) == 8 for r in rvs])))
    out.append(("adas2x.density_block_follows_energy_block", to_int(dt.args[3]) == to_int(eb.args[3]) + (to_int(eb.args[1]) + 7) / 8))
    out.append(("adas2x.sv_columns_have_neb_values", z3.And(bool(svcol.loop), to_int(svcol.args[1]) == to_int(eb.args[1]))))
    if svcol.loop:
        k, lo, hi, _ = svcol.loop[0]
        out.append(("adas2x.one_sv_column_per_density", z3.And(to_int(lo) == 0, to_int(hi) == to_int(dt.args[1]))))
    out.append(("adas2x.svt_has_ntt_values", to_int(svt.args[1]) == to_int(tt.args[1])))
    # dictionary entries
    def is_conv(v, src):
        # PerCm3ToPerM3.to is inlined from cherab/core/utility/conversion.py: x * 1e6
        return isinstance(v, Obj) and z3.is_app(v.ref) and v.ref.decl().name().startswith('objop_Mult') and v.ref.arg(0).eq(src.ref) \
            and z3.is_rational_value(v.ref.arg(1)) and v.ref.arg(1).as_fraction() == 10 ** 6
    out.append(("adas2x.e_is_energy_block", res['e'].ref == eb.result.ref))
    out.append(("adas2x.n_is_density_block_in_m3", z3.BoolVal(bool(is_conv(res['n'], dt.result)))))
    out.append(("adas2x.t_is_temperature_block", res['t'].ref == tt.result.ref))
    si = P.calls('setitem')
    zs = P.calls('np.zeros')
    oksen = len(si) == 1 and len(zs) == 1 and bool(si[0].loop) and len(si[0].args) == 3 and si[0].args[0] == ':'
    out.append(("adas2x.sv_column_store_shape", z3.BoolVal(bool(oksen))))
    if oksen:
        k = si[0].loop[0][0]
        out.append(("adas2x.sv_column_index_is_density_index", z3.And(to_int(si[0].args[1]) == to_int(k), si[0].recv.ref == zs[0].result.ref,
                                                                     si[0].args[2].ref == svcol.result.ref)))
        dims = zs[0].args[0]
        out.append(("adas2x.sv_shape_is_neb_by_ndt", z3.And(to_int(dims[0]) == to_int(eb.args[1]), to_int(dims[1]) == to_int(dt.args[1]))
                    if isinstance(dims, (tuple, list)) and len(dims) == 2 else z3.BoolVal(False)))
        sen = res['sen']
        oks = isinstance(sen, Obj) and z3.is_app(sen.ref) and sen.ref.decl().name().startswith('objop_Mult')
        out.append(("adas2x.sen_is_normalised_sv", z3.And(sen.ref.arg(0) == to_real(P.value("normalisation")), sen.ref.arg(1) == zs[0].result.ref) if oks else z3.BoolVal(False)))
    st_ = res['st']
    okst = isinstance(st_, Obj) and z3.is_app(st_.ref) and st_.ref.decl().name().startswith('objop_Mult')
    out.append(("adas2x.st_is_normalised_svt", z3.And(st_.ref.arg(0) == to_real(P.value("normalisation")), st_.ref.arg(1) == svt.result.ref) if okst else z3.BoolVal(False)))
    return out


ADF12_SECTIONS = [(1, 'QEFREF'), (5, 'refs'), (5, 'sizes'), (24, 'ENER'), (24, 'QENER'), (12, 'TIEV'), (12, 'QTIEV'), (24, 'DENSI'), (24, 'QDENSI'),
                  (12, 'ZEFF'), (12, 'QZEFF'), (12, 'BMAG'), (12, 'QBMAG')]
ADF12_SIZE_OF = {'ENER': 0, 'QENER': 0, 'TIEV': 1, 'QTIEV': 1, 'DENSI': 2, 'QDENSI': 2, 'ZEFF': 3, 'QZEFF': 3, 'BMAG': 4, 'QBMAG': 4}


def adf12_post(P):
    """Fixed-length ADF12 sections (24 / 12 values, 6 per line), read in the published order, each truncated to its own size entry."""
    out = []
    rvs = P.calls('readvalues')
    res = P.result
    ok = isinstance(res, (tuple, list)) and len(res) == 2 and isinstance(res[1], dict) and len(rvs) == len(ADF12_SECTIONS)
    out.append(("adf12.shape", z3.BoolVal(bool(ok))))
    if not ok:
        return out
    c0 = to_int(P.value("old(attr(file, '$cur', 'int'))"))
    out.append(("adf12.first_section_after_one_header_line", to_int(rvs[0].args[3]) == c0 + 1))
    out.append(("adf12.section_lengths_in_published_order", z3.And(*[z3.And(to_int(r.args[1]) == n, to_int(r.args[2]) == 6) for r, (n, _) in zip(rvs, ADF12_SECTIONS)])))
    rate = res[1]
    sizes = rvs[2].result
    eng = P.eng
    for pos, (n, key) in enumerate(ADF12_SECTIONS):
        if key not in ADF12_SIZE_OF:
            continue
        v = rate.get(key)
        good = isinstance(v, Obj) and z3.is_app(v.ref) and v.ref.decl().name().startswith('slice_of') and v.ref.arg(0).eq(rvs[pos].result.ref)
        if good:
            size = eng.arr_read(P.st, sizes, [ADF12_SIZE_OF[key]])
            out.append(("adf12.%s_is_section_%d_truncated_to_its_size" % (key, pos), z3.And(v.ref.arg(1) == 0, v.ref.arg(2) == to_int(size), z3.BoolVal(sizes.elem == 'int'))))
        else:
            out.append(("adf12.%s_is_section_%d_truncated_to_its_size" % (key, pos), z3.BoolVal(False)))
    refs = rvs[1].result
    for k, key in enumerate(['EBREF', 'TIREF', 'NIREF', 'ZEREF', 'BREF']):
        out.append(("adf12.%s_is_reference_value_%d" % (key, k), to_real(rate[key]) == to_real(eng.arr_read(P.st, refs, [k]))))
    out.append(("adf12.QEFREF_is_first_value", to_real(rate['QEFREF']) == to_real(eng.arr_read(P.st, rvs[0].result, [0]))))
    return out


# ---------------------------------------------------------------------------------------------- parse-tree obligations
def _statements(ctx, eng):
    tree = ctx['tree']
    out = []
    src = ' '.join(ast.unparse(tree.find_func("cherab/openadas/install.py", "_notation_adf11_adas2cherab")).split())
    out.append(structural('adf11/charge-offset-filetypes', PROP, "if filetype in ['scd', 'plt', 'pls']: charge_correction = int(-1) else: charge_correction = int(0)" in src,
                          'charge state shifted by -1 exactly for scd / plt / pls'))
    for key, expr in (("ne", "PerCm3ToPerM3.to(10 ** rate_adas[i][j]['ne'])"), ("te", "10 ** rate_adas[i][j]['te']"), ("rates", "Cm3ToM3.to(10 ** rate_adas[i][j]['rates'])")):
        out.append(structural('adf11/notation.%s' % key, PROP, "rate_cherab[i][j + charge_correction]['%s'] = %s" % (key, expr) in src, expr))
    src = ' '.join(ast.unparse(tree.find_func("cherab/openadas/parse/adf11.py", "parse_adf11")).split())
    out.append(structural('adf11/reshape-te-ne-then-swapaxes', PROP, ".reshape((n_temperatures, n_densities))" in src and
                          "rates[element][ion_charge]['rates'] = np.swapaxes(rates_table, 0, 1)" in src, 'file order (te, ne) -> documented (ne, te)'))
    out.append(structural('adf11/element-header-mismatch-raises', PROP,
                          "if element.atomic_number != z_nuclear or element.name != element_name: raise ValueError(" in src, 'ValueError on header mismatch'))
    out.append(structural('adf11/axis-split', PROP, "densities = tmp[:n_densities]" in src and "temperatures = tmp[n_densities:]" in src, 'densities first, then temperatures'))
    A15 = "cherab/openadas/parse/adf15.py"
    src = ' '.join(ast.unparse(tree.find_func(A15, "_extract_rate")).split())
    out.append(structural('adf15/block-lookup-by-isel', PROP, "if int(match.groups()[3]) == block_num:" in src, 'block selected by its /isel= number'))
    out.append(structural('adf15/sizes-from-block-header', PROP, "num_n = int(match.groups()[0])" in src and "num_t = int(match.groups()[1])" in src and "num_r = num_n * num_t" in src, 'n_ne, n_te, n_ne * n_te'))
    out.append(structural('adf15/reshape-ne-te', PROP, "rates = rates.reshape((num_n, num_t))" in src, 'documented (density, temperature) order'))
    out.append(structural('adf15/unit-conversions', PROP, "density = PerCm3ToPerM3.to(density)" in src and "rates = Cm3ToM3.to(rates)" in src and
                          "return {'ne': density, 'te': temperature, 'rate': rates}" in src, 'cm^-3 -> m^-3, cm^3 -> m^3'))
    fn = tree.find_func(A15, "_extract_rate")
    last = fn.body[-1]
    out.append(structural('adf15/absent-block-raises', PROP, isinstance(last, ast.Raise) and 'RuntimeError' in ast.unparse(last), 'absent block -> RuntimeError (last statement)'))
    for name in ("_scrape_metadata_hydrogen", "_scrape_metadata_hydrogen_like", "_scrape_metadata_full"):
        src = ' '.join(ast.unparse(tree.find_func(A15, name)).split())
        out.append(structural('adf15/%s.angstrom-to-nm' % name, PROP, "wavelength = float(match.groups()[1]) / 10" in src, 'Angstrom -> nm'))
        out.append(structural('adf15/%s.block-types' % name, PROP, all(("rate_type_adas == '%s': rate_type = '%s'" % (a, b)) in src for a, b in
                              (('EXCIT', 'excitation'), ('RECOM', 'recombination'), ('CHEXC', 'thermalcx'))), 'EXCIT / RECOM / CHEXC'))
        out.append(structural('adf15/%s.block-to-transition' % name, PROP, "config[rate_type][element][charge][upper_level, lower_level] = block_num" in src or
                              "config[rate_type][element][charge][(upper_level, lower_level)] = block_num" in src, 'transition -> block number'))
    fn = tree.find_func("cherab/openadas/install.py", "_thermalcx_adf15_2dto3d_converter")
    inner = [n for n in ast.walk(fn) if isinstance(n, ast.For) and not any(isinstance(m, ast.For) for m in ast.walk(n) if m is not n)]
    okc = len(inner) == 1 and any(isinstance(b, ast.Assign) and ast.unparse(b.targets[0]) == 'data' and 'np.empty(' in ast.unparse(b.value) for b in inner[0].body) \
        and "'rate': data" in ast.unparse(inner[0])
    out.append(structural('adf15/thermalcx-3d-array-allocated-per-transition', PROP, okc,
                          'the (ne, te, td) array is allocated inside the loop over transitions (one array per transition, never shared)'))
    A12 = "cherab/openadas/parse/adf12.py"
    src = ' '.join(ast.unparse(tree.find_func(A12, "parse_adf12")).split())
    for key, expr in (('ni', "PerCm3ToPerM3.to(np.array(rate['DENSI'], np.float64))"), ('qeb', "Cm3ToM3.to(np.array(rate['QENER'], np.float64))"),
                      ('qti', "Cm3ToM3.to(np.array(rate['QTIEV'], np.float64))"), ('qni', "Cm3ToM3.to(np.array(rate['QDENSI'], np.float64))"),
                      ('qz', "Cm3ToM3.to(np.array(rate['QZEFF'], np.float64))"), ('qb', "Cm3ToM3.to(np.array(rate['QBMAG'], np.float64))"),
                      ('eb', "np.array(rate['ENER'], np.float64)"), ('ti', "np.array(rate['TIEV'], np.float64)"), ('z', "np.array(rate['ZEFF'], np.float64)"),
                      ('b', "np.array(rate['BMAG'], np.float64)"), ('niref', "PerCm3ToPerM3.to(rate['NIREF'])"), ('qref', "Cm3ToM3.to(rate['QEFREF'])")):
        out.append(structural('adf12/entry.%s' % key, PROP, "'%s': %s" % (key, expr) in src, expr))
    out.append(structural('adf12/key-nesting', PROP, "rates[donor_ion][receiver_ion][receiver_charge][transition][donor_metastable] = {" in src, 'repository key order'))
    for mod, fnn, norm in (("adf21", "parse_adf21", "Cm3ToM3.conversion_factor"), ("adf22", "parse_adf22bmp", "1"), ("adf22", "parse_adf22bme", "Cm3ToM3.conversion_factor")):
        src = ' '.join(ast.unparse(tree.find_func("cherab/openadas/parse/%s.py" % mod, fnn)).split())
        want = "parse_adas2x_rate(file, normalisation=%s)" % norm
        out.append(structural('%s/%s.normalisation' % (mod, fnn), PROP, want in src, want))
    conv = tree.module("cherab/core/utility/conversion.py")
    vals = {}
    for node in conv.body:
        if isinstance(node, ast.ClassDef):
            for b in node.body:
                if isinstance(b, ast.Assign) and ast.unparse(b.targets[0]) == 'conversion_factor':
                    vals[node.name] = ast.unparse(b.value)
    out.append(structural('conversion/factors', PROP, vals.get('Cm3ToM3') == '1e-06' and vals.get('PerCm3ToPerM3') == '1000000.0', repr(vals)))
    return out


GENERATORS = [_statements]


def bounded_writers(ctx):
    """Bounded stand-in (NOT a proof): independent writers of the published ADF11 and ADF21 layouts drive the real parsers; sizes include
    counts that are not multiples of 8 values per line."""
    from replaylib.native import run_native
    n = 25 if ctx['tier'] == 'quick' else 200
    code = '''
import random, tempfile, os, numpy as np, io
from cherab.core.atomic import neon
from cherab.openadas.parse.adf11 import parse_adf11
from cherab.openadas.parse.utility import parse_adas2x_rate
rnd = random.Random(%d)
bad = []; cases = 0
def fmt8(vals, per=8, w=10):
    lines = []
    for i in range(0, len(vals), per):
        lines.append("".join("%%10.5f" %% v for v in vals[i:i+per]))
    return "\\n".join(lines) + "\\n"
d = tempfile.mkdtemp(prefix="verif_c08_")
for trial in range(%d):
    nne, nte, nz = rnd.randint(1, 19), rnd.randint(1, 23), rnd.randint(1, 10)
    ne = sorted(rnd.uniform(7, 15) for _ in range(nne)); te = sorted(rnd.uniform(-1, 4) for _ in range(nte))
    tabs = [[[rnd.uniform(-20, -5) for _ in range(nne)] for _ in range(nte)] for _ in range(nz)]
    txt = "%%5d%%5d%%5d%%5d%%5d     /NEON               /GCR PROJECT\\n" %% (10, nne, nte, 1, nz)
    txt += "-" * 80 + "\\n" + fmt8(ne) + fmt8(te)
    for z in range(nz):
        txt += "-" * 20 + "/ IPRT= 1  / IGRD= 1  /--------/ Z1= %%d   / DATE= 01/01/00\\n" %% (z + 1)
        flat = [v for row in tabs[z] for v in row]
        txt += fmt8(flat)
    txt += "C" + "-" * 79 + "\\nC\\n"
    p = os.path.join(d, "f%%d.dat" %% trial)
    open(p, "w").write(txt)
    try:
        r = parse_adf11(neon, p)[neon]
        for z in range(nz):
            cases += 1
            got = np.array(r[z + 1]["rates"])
            want = np.round(np.array(tabs[z]), 5).T
            if got.shape != (nne, nte) or not np.allclose(got, want, atol=2e-5): bad.append(("adf11", trial, z)); break
            gne, gte = np.array(r[z + 1]["ne"]), np.array(r[z + 1]["te"])
            if gne.shape != (nne,) or gte.shape != (nte,) or not np.allclose(gne, np.round(ne, 5), atol=2e-5) or not np.allclose(gte, np.round(te, 5), atol=2e-5):
                bad.append(("adf11-axes", {"n_densities": nne, "n_temperatures": nte, "first_log10_te": round(te[0], 5), "parsed_ne_shape": list(gne.shape), "parsed_te_shape": list(gte.shape)})); break
    except Exception as e:
        bad.append(("adf11-error", trial, repr(e)[:80]))
    # metastable-resolved ADF11: a line with the metastable counts after the header, several IPRT/IGRD blocks carrying the same Z1
    labels = []
    for z in range(1, nz + 1):
        labels += [z] * rnd.randint(1, 3)
    rtabs = [[[rnd.uniform(-20, -5) for _ in range(nne)] for _ in range(nte)] for _ in labels]
    txt = "%%5d%%5d%%5d%%5d%%5d     /NEON               /GCR PROJECT\\n" %% (10, nne, nte, 1, nz)
    txt += "-" * 80 + "\\n" + "".join("%%5d" %% labels.count(z) for z in range(1, nz + 1)) + "\\n" + "-" * 80 + "\\n" + fmt8(ne) + fmt8(te)
    for b, z in enumerate(labels):
        txt += "-" * 20 + "/ IPRT= %%d  / IGRD= %%d  /--------/ Z1= %%d   / DATE= 01/01/00\\n" %% (labels[:b + 1].count(z), 1, z)
        txt += fmt8([v for row in rtabs[b] for v in row])
    txt += "C" + "-" * 79 + "\\nC\\n"
    p = os.path.join(d, "r%%d.dat" %% trial)
    open(p, "w").write(txt)
    try:
        r = parse_adf11(neon, p)[neon]
        cases += 1
        if sorted(r.keys()) != sorted(set(labels)):
            bad.append(("adf11-resolved-charges", trial, sorted(r.keys()), sorted(set(labels))))
        else:
            for z in set(labels):
                last = max(b for b, zz in enumerate(labels) if zz == z)
                got = np.array(r[z]["rates"]); want = np.round(np.array(rtabs[last]), 5).T
                if got.shape != (nne, nte) or not np.allclose(got, want, atol=2e-5): bad.append(("adf11-resolved-table", trial, z)); break
    except Exception as e:
        bad.append(("adf11-resolved-error", trial, repr(e)[:80]))
    # ADF21-like block through parse_adas2x_rate
    neb, ndt, ntt = rnd.randint(1, 20), rnd.randint(1, 12), rnd.randint(1, 19)
    eb = [rnd.uniform(1e3, 1e5) for _ in range(neb)]; dt = [rnd.uniform(1e11, 1e14) for _ in range(ndt)]; tt = [rnd.uniform(1, 1e4) for _ in range(ntt)]
    sv = [[rnd.uniform(1e-8, 1e-6) for _ in range(neb)] for _ in range(ndt)]; svt = [rnd.uniform(1e-8, 1e-6) for _ in range(ntt)]
    e10 = lambda vals: "".join(" %%9.3E" %% v for v in vals)
    def blk(vals):
        return "".join(e10(vals[i:i + 8]) + "\\n" for i in range(0, len(vals), 8))
    def put(fields, width=70):
        b = [" "] * width
        for col, text in fields:
            b[col:col + len(text)] = list(text)
        return "".join(b).rstrip() + "\\n"
    # header columns as documented in the parser's own comments (the block structure, line wrapping and units are independent of it)
    t2 = put([(0, "ZT="), (3, "%%2d" %% 1), (7, "SVREF="), (13, "%%9.3E" %% 1e-7), (24, "SPEC="), (29, "H "), (33, "DATE="), (38, "01/01/00"), (48, "CODE="), (53, "TEST")]) + "-" * 70 + "\\n"
    t2 += put([(1, "%%4d" %% neb), (6, "%%4d" %% ndt), (12, "TREF="), (17, "%%9.3E" %% 2e3)]) + "-" * 70 + "\\n" + blk(eb) + blk(dt) + "-" * 70 + "\\n"
    for j in range(ndt): t2 += blk(sv[j])
    t2 += "-" * 70 + "\\n" + put([(1, "%%4d" %% ntt), (7, "EREF="), (12, "%%9.3E" %% 5e3), (23, "DREF="), (28, "%%9.3E" %% 1e13)]) + "-" * 70 + "\\n" + blk(tt) + "-" * 70 + "\\n" + blk(svt)
    try:
        r = parse_adas2x_rate(io.StringIO(t2))
        cases += 1
        ok = (np.allclose(r["e"], eb, rtol=2e-3, atol=0) and np.allclose(r["n"], np.array(dt) * 1e6, rtol=2e-3, atol=0) and np.allclose(r["t"], tt, rtol=2e-3, atol=0)
              and np.allclose(r["sen"], np.array(sv).T, rtol=2e-3, atol=0) and np.allclose(r["st"], svt, rtol=2e-3, atol=0) and r["sen"].shape == (neb, ndt))
        if not ok: bad.append(("adas2x", trial))
    except Exception as e:
        bad.append(("adas2x-error", trial, repr(e)[:80]))
import shutil; shutil.rmtree(d, ignore_errors=True)
print(json.dumps({"cases": cases, "bad": bad[:8]}))
''' % (ctx['seed'], n)
    out = run_native(ctx, code, timeout=600)
    return {'name': 'independent ADF11 / ADF21 writers vs the real parsers (BOUNDED stand-in, not counted as proved)', 'ok': bool(out) and out.get('bad') == [],
            'covers': ['adf11', 'adf21'],
            'detail': out, 'bound': '%d random files per format, grid sizes 1..23, seed %d' % (n, ctx['seed'])}


def bounded_adf15_roundtrip(ctx):
    """Bounded stand-in (NOT a proof): an independent writer of the ADF15 layout (hydrogen-format comment index; EXCIT / RECOM / CHEXC blocks;
    several blocks with the SAME grid sizes but different grid values and tables; counts that are not multiples of 8) -> parse_adf15 and
    install_adf15 + repository getters; every table, grid and wavelength is compared with the numbers written."""
    from replaylib.native import run_native
    n = 6 if ctx['tier'] == 'quick' else 40
    code = '''
import random, tempfile, os, shutil, numpy as np
from cherab.core.atomic import hydrogen
from cherab.openadas.parse.adf15 import parse_adf15
from cherab.openadas.install import install_adf15
from cherab.openadas import repository
rnd = random.Random(%d)
bad = []; cases = 0
def rows(vals, per=8):
    return "".join(" ".join("%%.5e" %% v for v in vals[i:i + per]) + "\\n" for i in range(0, len(vals), per))
d = tempfile.mkdtemp(prefix="verif_c08_adf15_")
try:
    for trial in range(%d):
        shapes = [(rnd.randint(2, 11), rnd.randint(2, 13))]
        kinds = ["EXCIT", "EXCIT", "RECOM", "CHEXC", "CHEXC", "CHEXC"]
        trans = [(3, 2), (4, 2), (3, 2), (3, 2), (4, 2), (5, 3)]
        blocks = []
        for k, (kind, tr) in enumerate(zip(kinds, trans)):
            nn, nt = shapes[0] if rnd.random() < 0.7 else (rnd.randint(2, 9), rnd.randint(2, 9))
            ne = sorted(rnd.uniform(1e10, 1e15) for _ in range(nn)); te = sorted(rnd.uniform(0.2, 1e4) for _ in range(nt))
            tab = [[rnd.uniform(1e-12, 1e-8) for _ in range(nt)] for _ in range(nn)]
            wl = 1000.0 * (k + 3) + rnd.uniform(0, 99)
            blocks.append((kind, tr, ne, te, tab, wl))
        txt = "%%5d    /H 0 PHOTON EMISSIVITY COEFFICIENTS/\\n" %% len(blocks)
        for k, (kind, tr, ne, te, tab, wl) in enumerate(blocks):
            txt += " %%8.1f A %%4d %%4d /FILMEM = test    /TYPE = %%s /INDM = T /ISEL =  %%d\\n" %% (wl, len(ne), len(te), kind, k + 1)
            txt += rows(ne) + rows(te)
            for row in tab: txt += rows(row)
        txt += "C" + "-" * 79 + "\\nC\\nC  ISEL  WAVELENGTH  TRANSITION  TYPE\\nC  ----  ----------  ----------  ----\\n"
        for k, (kind, tr, ne, te, tab, wl) in enumerate(blocks):
            txt += "C %%4d.  %%9.1f   N=%%2d - N=%%2d   %%s\\n" %% (k + 1, wl, tr[0], tr[1], kind)
        txt += "C" + "-" * 79 + "\\n"
        rel = "adf15/test/t%%d.dat" %% trial
        os.makedirs(os.path.join(d, "adas", "adf15", "test"), exist_ok=True)
        open(os.path.join(d, "adas", rel), "w").write(txt)
        repo = os.path.join(d, "repo%%d" %% trial)
        try:
            rates, wls = parse_adf15(hydrogen, 0, os.path.join(d, "adas", rel), header_format="hydrogen")
            install_adf15(hydrogen, 0, rel, repository_path=repo, adas_path=os.path.join(d, "adas"), header_format="hydrogen")
        except Exception as e:
            bad.append({"trial": trial, "error": repr(e)[:120]}); continue
        cls = {"EXCIT": "excitation", "RECOM": "recombination", "CHEXC": "thermalcx"}
        for k, (kind, tr, ne, te, tab, wl) in enumerate(blocks):
            cases += 1
            want_ne = np.array([float("%%.5e" %% v) for v in ne]) * 1e6; want_te = np.array([float("%%.5e" %% v) for v in te])
            want = np.array([[float("%%.5e" %% v) for v in row] for row in tab]) * 1e-6
            got = rates[cls[kind]][hydrogen][0][tr]
            okp = np.allclose(got["ne"], want_ne, rtol=1e-9, atol=0) and np.allclose(got["te"], want_te, rtol=1e-9, atol=0) and np.allclose(got["rate"], want, rtol=1e-9, atol=0)
            if kind == "EXCIT": back = repository.get_pec_excitation_rate(hydrogen, 0, tr, repository_path=repo)
            elif kind == "RECOM": back = repository.get_pec_recombination_rate(hydrogen, 0, tr, repository_path=repo)
            else: back = repository.get_pec_thermal_cx_rate(hydrogen, 0, hydrogen, 1, tr, repository_path=repo)
            rb = np.array(back["rate"]); rb = rb[:, :, 0] if rb.ndim == 3 else rb
            okr = np.allclose(back["ne"], want_ne, rtol=1e-9, atol=0) and np.allclose(back["te"], want_te, rtol=1e-9, atol=0) and np.allclose(rb, want, rtol=1e-9, atol=0)
            if not (okp and okr):
                bad.append({"trial": trial, "block": k + 1, "type": kind, "transition": list(tr), "parsed_ok": bool(okp), "installed_and_read_back_ok": bool(okr)})
finally:
    shutil.rmtree(d, ignore_errors=True)
print(json.dumps({"cases": cases, "bad": bad[:6]}))
''' % (ctx['seed'] + 5, n)
    out = run_native(ctx, code, timeout=900)
    return {'name': 'ADF15: independent writer vs parse_adf15 and install_adf15 + repository read-back (BOUNDED stand-in, not counted as proved)',
            'ok': bool(out) and out.get('bad') == [], 'detail': out, 'covers': ['adf15'],
            'bound': '%d random files, 6 blocks each (EXCIT/RECOM/CHEXC), several blocks sharing grid sizes, seed %d' % (n, ctx['seed'] + 5)}


BOUNDED = [bounded_writers, bounded_adf15_roundtrip]
