"""C06 — rate repository: last write wins per key, other keys untouched, no stray files.

Reach of this check (see DESIGN section 10/C06, revised): the add_* wrappers are verified with the engine (call target and
arguments: the matching update function of the SAME family receives the singleton nested dictionary and the repository path);
encode_transition / valid_charge have symbolic contracts; for the update_*/get_* bodies (nested dictionary iteration plus file
I/O) the obligations are stated on the parse tree: path templates of writer and reader coincide, every written path is
os.path.join(repository_path or DEFAULT, template), templates of different families are prefix-free and placeholder-delimited
(injective), validation precedes the write, existing file content is merged; every repository call of the install_* front ends
forwards repository_path."""
import ast
import itertools
import z3
from .common import structural as _structural, call_cases, as_bool


def structural(name, prop, ok, detail=''):
    """pins on the writer / reader templates are exercised by the bounded repository-histories stand-in"""
    return _structural(name, prop, ok, detail, standin='repository' if name.startswith(('writers/', 'paths/')) else None)

PROP = 'C06'
LEVEL = 'other'
EXPLANATION = ('add_* wrappers: deductive (engine) call-target and argument obligations for all inputs; encode_transition and '
               'valid_charge: symbolic contracts; update_*/get_*/install_*: obligations on the real parse trees (path-template '
               'agreement between writer and reader, path under the given repository, prefix-free and delimiter-separated templates, '
               'validate-before-write, merge-with-existing-content, repository_path forwarded).  The file-system ghost-state proof of '
               'DESIGN 10/C06 (loop invariants over nested dict iteration with assumed open/json contracts) is NOT built: those '
               'parse-tree obligations are syntactic and are reported as such, hence level "other".')
R = "cherab/openadas/repository/"
FILES = ['atomic.py', 'pec.py', 'radiated_power.py', 'wavelength.py', 'beam/cx.py', 'beam/stopping.py', 'beam/population.py', 'beam/emission.py']
INSTALL = "cherab/openadas/install.py"
ASSUMPTIONS = ['species symbols and transition strings contain neither "/" nor ".json" (path segments are delimited)',
               'os.path.join(a, rel) = a + "/" + rel for a relative rel; json round-trips finite float64 lists exactly',
               'update_* functions are treated as opaque (logged) callees when the add_* wrappers are verified']
NOT_APPLICABLE = ['bit-for-bit read-back through the json files and non-interference as a theorem over a ghost file system '
                  '(needs loop invariants over nested dict iteration and assumed open/json contracts; not built)']

# property level: which updater belongs to which add_ function, and the nested singleton it must receive
FAMILIES = [
    ('atomic.py', 'add_ionisation_rate', 'update_ionisation_rates', "{species: {charge: rate}}"),
    ('atomic.py', 'add_recombination_rate', 'update_recombination_rates', "{species: {charge: rate}}"),
    ('atomic.py', 'add_thermal_cx_rate', 'update_thermal_cx_rates', "{donor_element: {donor_charge: {receiver_element: rate}}}"),
    ('pec.py', 'add_pec_excitation_rate', 'update_pec_rates', "{'excitation': {element: {charge: {transition: rate}}}}"),
    ('pec.py', 'add_pec_recombination_rate', 'update_pec_rates', "{'recombination': {element: {charge: {transition: rate}}}}"),
    ('pec.py', 'add_pec_thermal_cx_rate', 'update_pec_thermal_cx_rates',
     "{donor_element: {donor_charge: {receiver_element: {receiver_charge: {transition: rate}}}}}"),
    ('radiated_power.py', 'add_line_power_rate', 'update_line_power_rates', "{species: {charge: rate}}"),
    ('radiated_power.py', 'add_continuum_power_rate', 'update_continuum_power_rates', "{species: {charge: rate}}"),
    ('radiated_power.py', 'add_cx_power_rate', 'update_cx_power_rates', "{species: {charge: rate}}"),
    ('wavelength.py', 'add_wavelength', 'update_wavelengths', "{element: {charge: {transition: wavelength}}}"),
    ('beam/cx.py', 'add_beam_cx_rate', 'update_beam_cx_rates',
     "{donor_ion: {receiver_ion: {receiver_charge: {transition: {donor_metastable: rate}}}}}"),
    ('beam/emission.py', 'add_beam_emission_rate', 'update_beam_emission_rates',
     "{beam_species: {target_ion: {target_charge: {transition: rate}}}}"),
]
UPDATERS = sorted({f[2] for f in FAMILIES} | {'update_beam_stopping_rates', 'update_beam_population_rates'})
EXTERNALS = {u: {'kind': 'logged', 'result': 'none', 'override': True, 'label': u, 'doc': 'repository updater (opaque here)'} for u in UPDATERS}


def register(reg):
    for f, add, upd, lit in FAMILIES:
        fn_sorts = {}
        for nm in ('species', 'element', 'donor_element', 'receiver_element', 'donor_ion', 'receiver_ion', 'beam_species', 'target_ion'):
            fn_sorts[nm] = 'ref:Element!'
        for nm in ('charge', 'donor_charge', 'receiver_charge', 'target_charge', 'donor_metastable'):
            fn_sorts[nm] = 'int'
        for nm in ('rate', 'transition', 'wavelength'):
            fn_sorts[nm] = 'ref!'
        fn_sorts['repository_path'] = 'ref'
        reg.contract(R + f, add, PROP, sorts=fn_sorts,
            ensures=[("routed_to_matching_family", call_cases(UPDATERS, [("True", [(upd, [lit, "repository_path"])])]))],
            modifies=[])
    U = R + "utility.py"
    reg.contract(U, "encode_transition", PROP, sorts={"transition": ("tuple", ["str", "str"])},
        ensures=[("lowercased_levels", "result == concat(str_lower(transition[0]), ' -> ', str_lower(transition[1]))")], modifies=[])
    reg.contract(U, "valid_charge", PROP, sorts={"element": "ref:Element!", "charge": "int"},
        ensures=["iff(result, charge <= element.atomic_number)"], modifies=[])


# ---------------------------------------------------------------------------------------------- parse-tree obligations
def _fmt_templates(fn):
    """[(template string, [argument source], Call node)] for '<...>.json'.format(...) calls in a function."""
    out = []
    for c in ast.walk(fn):
        if isinstance(c, ast.Call) and isinstance(c.func, ast.Attribute) and c.func.attr == 'format' \
                and isinstance(c.func.value, ast.Constant) and isinstance(c.func.value.value, str) and c.func.value.value.endswith('.json'):
            out.append((c.func.value.value, [ast.unparse(a) for a in c.args], c))
    return out


def _normalise(args):
    """Argument expressions with variable names abstracted to their role (x.symbol.lower() -> SYMBOL, other names -> INT/STR)."""
    out = []
    for a in args:
        if a.endswith('.symbol.lower()'):
            out.append('SYMBOL')
        else:
            out.append('VALUE')
    return out


PAIRS = [  # (file, writer function, reader function)
    ('atomic.py', 'update_ionisation_rates', 'get_ionisation_rate'), ('atomic.py', 'update_recombination_rates', 'get_recombination_rate'),
    ('atomic.py', 'update_thermal_cx_rates', 'get_thermal_cx_rate'),
    ('pec.py', 'update_pec_rates', '_get_pec_rate'), ('pec.py', 'update_pec_thermal_cx_rates', 'get_pec_thermal_cx_rate'),
    ('radiated_power.py', 'update_line_power_rates', 'get_line_radiated_power_rate'),
    ('radiated_power.py', 'update_continuum_power_rates', 'get_continuum_radiated_power_rate'),
    ('radiated_power.py', 'update_cx_power_rates', 'get_cx_radiated_power_rate'),
    ('wavelength.py', 'update_wavelengths', 'get_wavelength'),
    ('beam/cx.py', 'update_beam_cx_rates', 'get_beam_cx_rates'),
    ('beam/stopping.py', 'add_beam_stopping_rate', 'get_beam_stopping_rate'),
    ('beam/population.py', 'add_beam_population_rate', 'get_beam_population_rate'),
    ('beam/emission.py', 'update_beam_emission_rates', 'get_beam_emission_rate'),
]


def _templates(ctx, eng):
    tree = ctx['tree']
    out = []
    fam_templates = {}
    for f, w, r in PAIRS:
        wf, rf = tree.find_func(R + f, w), tree.find_func(R + f, r)
        wt, rt = _fmt_templates(wf), _fmt_templates(rf)
        ok = len(wt) == 1 and len(rt) == 1 and wt[0][0] == rt[0][0] and _normalise(wt[0][1]) == _normalise(rt[0][1])
        out.append(structural('paths/%s.writer-reader-template-agree' % w, PROP, ok,
                              'writer %s %s vs reader %s %s' % (w, [(t[0], t[1]) for t in wt], r, [(t[0], t[1]) for t in rt])))
        if wt:
            fam_templates[w] = wt[0][0]
        for fn_, name in ((wf, w), (rf, r)):
            # the path handed to open()/the writer helper is os.path.join(repository_path, <template>) and repository_path defaults
            src = ast.unparse(fn_)
            joins = [c for c in ast.walk(fn_) if isinstance(c, ast.Call) and ast.unparse(c.func) == 'os.path.join']
            good = bool(joins) and all(len(j.args) == 2 and ast.unparse(j.args[0]) == 'repository_path' for j in joins)
            dflt = 'repository_path = repository_path or DEFAULT_REPOSITORY_PATH' in src
            others = [ast.unparse(c) for c in ast.walk(fn_) if isinstance(c, ast.Name) and c.id == 'DEFAULT_REPOSITORY_PATH']
            out.append(structural('paths/%s.under-given-repository' % name, PROP, good and dflt and len(others) == 1,
                                  'every os.path.join starts at repository_path, which defaults to DEFAULT only when falsy'))
            opens = [c for c in ast.walk(fn_) if isinstance(c, ast.Call) and ast.unparse(c.func) == 'open']
            okopen = all(isinstance(o.args[0], ast.Name) and o.args[0].id == 'path' for o in opens)
            assigns = [n for n in ast.walk(fn_) if isinstance(n, ast.Assign) and ast.unparse(n.targets[0]) == 'path']
            okassign = all(isinstance(a.value, ast.Call) and ast.unparse(a.value.func) == 'os.path.join' for a in assigns) and len(assigns) >= 1
            out.append(structural('paths/%s.open-uses-joined-path' % name, PROP, okopen and okassign, 'open(path, ...) with path = os.path.join(...)'))
    # templates of different families: literal prefixes (up to the first placeholder) are pairwise not prefixes of each other, or the
    # templates have a different number of '/'-separated segments; placeholders are delimited by '/' or '.json'
    tl = sorted(set(fam_templates.values()))
    import re
    clash = []
    for a, b in itertools.combinations(tl, 2):
        pa, pb = re.split(r'\{\d*\}', a)[0], re.split(r'\{\d*\}', b)[0]
        seg_a, seg_b = a.count('/'), b.count('/')
        if (pa.startswith(pb) or pb.startswith(pa)) and seg_a == seg_b:
            la, lb = a.split('/'), b.split('/')
            differ = any(('{' not in x and '{' not in y and x != y) for x, y in zip(la, lb))
            if not differ:
                clash.append((a, b))
    out.append(structural('paths/templates-pairwise-disjoint', PROP, not clash and len(tl) >= 12, 'templates %s; clashes %s' % (tl, clash)))
    bad = [t for t in tl if not all(re.fullmatch(r'\{\d*\}(\.json)?|[a-z_]+', seg) for seg in t.split('/'))]
    out.append(structural('paths/placeholders-delimited', PROP, not bad, 'each segment is a literal or exactly one placeholder: %s' % bad))
    return out


def _writers(ctx, eng):
    """Writers: existing content is loaded and merged (siblings kept), validation (raise) precedes the write of that file."""
    tree = ctx['tree']
    out = []
    writers = [('atomic.py', '_update_and_write_adf11'), ('radiated_power.py', '_update_and_write_adf11'), ('pec.py', 'update_pec_rates'),
               ('pec.py', 'update_pec_thermal_cx_rates'), ('wavelength.py', 'update_wavelengths'), ('beam/cx.py', 'update_beam_cx_rates'),
               ('beam/emission.py', 'update_beam_emission_rates')]
    for f, w in writers:
        fn_ = tree.find_func(R + f, w)
        src = ast.unparse(fn_)
        merge = 'content = RecursiveDict.from_dict(json.load(f))' in src and 'except FileNotFoundError:\n' in src and 'content = RecursiveDict()' in src
        out.append(structural('writers/%s.%s.merges-existing-content' % (f, w), PROP, merge, 'existing file loaded, FileNotFoundError -> empty'))
        dumps = [n for n in ast.walk(fn_) if isinstance(n, ast.Call) and ast.unparse(n.func) == 'json.dump']
        okdump = len(dumps) == 1 and ast.unparse(dumps[0].args[0]) in ('content', 'content.freeze()')
        out.append(structural('writers/%s.%s.dumps-merged-content' % (f, w), PROP, okdump, 'json.dump(content, ...) once'))
    # the assumed contract of json.dump ("serialises every dictionary of lists of float64 - non-finite values included - completely, or not
    # at all") only holds for the formatting options: an option that makes the serialiser REJECT representable data (allow_nan=False,
    # default=, cls=, skipkeys, check_circular) turns a write of such data into an exception raised AFTER open(path, 'w') has truncated the
    # file, and every sibling key of that file is lost.  Stated for EVERY json.dump call of the eight repository modules.
    ndump = 0
    for f in FILES:
        mod = tree.module(R + f)
        for fn_ in [n for n in mod.body if isinstance(n, ast.FunctionDef)]:
            k_ = 0
            for c in sorted([n for n in ast.walk(fn_) if isinstance(n, ast.Call) and ast.unparse(n.func) in ('json.dump', 'json.dumps', 'dump')],
                            key=lambda n: (n.lineno, n.col_offset)):
                ndump += 1
                kws = sorted(k.arg or '**' for k in c.keywords)
                ok = all(k in ('indent', 'sort_keys', 'separators') for k in kws) and len(c.args) == 2
                out.append(structural('writers/%s.%s.json-dump#%d.total-on-float64' % (f, fn_.name, k_), PROP, ok,
                                      'json.dump called with (obj, file) and formatting options only; found: %s' % ast.unparse(c)[:120]))
                k_ += 1
    out.append(structural('writers/json-dump-calls-found', PROP, ndump >= 9, '%d json.dump calls in the repository modules' % ndump))
    return out


def _install(ctx, eng):
    """Every repository call of an install_* front end forwards repository_path."""
    tree = ctx['tree']
    mod = tree.module(INSTALL)
    out = []
    n = 0
    for fn_ in mod.body:
        if not (isinstance(fn_, ast.FunctionDef) and fn_.name.startswith('install_')):
            continue
        ordn = {}
        for c in sorted([x for x in ast.walk(fn_) if isinstance(x, ast.Call)], key=lambda x: (x.lineno, x.col_offset)):
            if isinstance(c, ast.Call) and isinstance(c.func, ast.Attribute) and ast.unparse(c.func.value) == 'repository' \
                    and (c.func.attr.startswith('update_') or c.func.attr.startswith('add_')):
                n += 1
                k_ = ordn.get(c.func.attr, 0)
                ordn[c.func.attr] = k_ + 1
                passed = (len(c.args) >= 2 and ast.unparse(c.args[-1]) == 'repository_path') or \
                    any(k.arg == 'repository_path' and ast.unparse(k.value) == 'repository_path' for k in c.keywords)
                out.append(structural('install/%s.%s#%d.forwards-repository_path' % (fn_.name, c.func.attr, k_), PROP, passed,
                                      ast.unparse(c)[:120]))
            if isinstance(c, ast.Call) and isinstance(c.func, ast.Name) and c.func.id.startswith('install_adf'):
                passed = any(k.arg == 'repository_path' and ast.unparse(k.value) == 'repository_path' for k in c.keywords)
                out.append(structural('install/%s.%s.forwards-repository_path' % (fn_.name, c.func.id), PROP, passed, ast.unparse(c)[:120]))
    out.append(structural('install/calls-found', PROP, n >= 12, '%d repository calls in install_* functions' % n))
    return out


GENERATORS = [_templates, _writers, _install]


def native_replay(ctx, o):
    """add_* routed to the wrong family: write through the real add function into a temporary repository, read back through the
    matching get function (radiated-power families)."""
    import re
    m = re.search(r'radiated_power\.(add_(line|continuum|cx)_power_rate)/', o.name)
    if not m:
        return None
    add, fam = m.group(1), m.group(2)
    from replaylib.native import run_native
    code = '''
import tempfile, shutil, os
from cherab.core.atomic import neon
from cherab.openadas.repository import radiated_power as rp
d = tempfile.mkdtemp(prefix="verif_c06_")
try:
    rate = {"ne": [1e18, 1e19], "te": [1.0, 10.0, 100.0], "rates": [[1e-30, 2e-30, 3e-30], [4e-30, 5e-30, 6e-30]]}
    getattr(rp, %r)(neon, 1, rate, repository_path=d)
    files = sorted(os.path.relpath(os.path.join(r, f), d) for r, _, fs in os.walk(d) for f in fs)
    try:
        getattr(rp, "get_%s_radiated_power_rate")(neon, 1, repository_path=d)
        err = None
    except RuntimeError as e:
        err = repr(e)[:200]
finally:
    shutil.rmtree(d, ignore_errors=True)
print(json.dumps({"written_files": files, "read_back_error": err}))
''' % (add, fam)
    out = run_native(ctx, code)
    return {'confirmed': bool(out and out.get('read_back_error')), 'input': '%s(neon, 1, rate, repository_path=tmp) then get_%s_radiated_power_rate(neon, 1, tmp)' % (add, fam),
            'observed': out, 'expected': 'the rate just written is read back'}


def bounded_repository_histories(ctx):
    """Bounded stand-in (NOT a proof) for the file-system theorem that is not built: random histories of add_* calls over fourteen rate families
    in a fresh temporary repository (new files and updates of existing files interleaved, overwrites of the same key), mirrored in a plain
    dictionary; afterwards EVERY key of the universe is read through the public get_* functions: a written key returns the numbers of its
    last write bit for bit, a never-written key raises RuntimeError; nothing is created outside the repository directory."""
    from replaylib.native import run_native
    n = 12 if ctx['tier'] == 'quick' else 150
    code = '''
import random, tempfile, shutil, os, numpy as np
from cherab.core.atomic import helium, carbon, neon, deuterium
from cherab.openadas import repository as R
rnd = random.Random(%d)
bad = []; cases = 0
EL = [helium, carbon, neon]
TR = [(3, 2), (4, 2), ("2s1 2p1 1P1.0", "2s2 1S0.0")]
def table(nd=2):
    ne = sorted(rnd.uniform(1e17, 1e21) for _ in range(rnd.randint(2, 4))); te = sorted(rnd.uniform(1, 1e4) for _ in range(rnd.randint(2, 5)))
    d = {"ne": ne, "te": te}
    if nd == 3:
        d["td"] = sorted(rnd.uniform(0.1, 1e3) for _ in range(2)); d["rate"] = np.array([[[rnd.uniform(1e-20, 1e-12) for _ in d["td"]] for _ in te] for _ in ne])
    else:
        d["rate"] = np.array([[rnd.uniform(1e-20, 1e-12) for _ in te] for _ in ne])
    return d
FAM = {
 "ionisation": (lambda k, v, p: R.add_ionisation_rate(k[0], k[1], v, repository_path=p), lambda k, p: R.get_ionisation_rate(k[0], k[1], repository_path=p), lambda: (rnd.choice(EL), rnd.randint(1, 2)), 2),
 "recombination": (lambda k, v, p: R.add_recombination_rate(k[0], k[1], v, repository_path=p), lambda k, p: R.get_recombination_rate(k[0], k[1], repository_path=p), lambda: (rnd.choice(EL), rnd.randint(1, 2)), 2),
 "thermal_cx": (lambda k, v, p: R.add_thermal_cx_rate(k[0], k[1], k[2], {k[3]: v}, repository_path=p), lambda k, p: R.get_thermal_cx_rate(k[0], k[1], k[2], k[3], repository_path=p),
                lambda: (deuterium, 0, rnd.choice(EL), rnd.randint(1, 2)), 2),
 "pec_excitation": (lambda k, v, p: R.add_pec_excitation_rate(k[0], k[1], k[2], v, repository_path=p), lambda k, p: R.get_pec_excitation_rate(k[0], k[1], k[2], repository_path=p),
                    lambda: (rnd.choice(EL), rnd.randint(0, 1), rnd.choice(TR)), 2),
 "pec_recombination": (lambda k, v, p: R.add_pec_recombination_rate(k[0], k[1], k[2], v, repository_path=p), lambda k, p: R.get_pec_recombination_rate(k[0], k[1], k[2], repository_path=p),
                       lambda: (rnd.choice(EL), rnd.randint(0, 1), rnd.choice(TR)), 2),
 "pec_thermal_cx": (lambda k, v, p: R.add_pec_thermal_cx_rate(k[0], k[1], k[2], k[3], k[4], v, repository_path=p), lambda k, p: R.get_pec_thermal_cx_rate(k[0], k[1], k[2], k[3], k[4], repository_path=p),
                    lambda: (deuterium, 0, rnd.choice(EL), rnd.randint(1, 2), rnd.choice(TR)), 3),
 "line_power": (lambda k, v, p: R.add_line_power_rate(k[0], k[1], v, repository_path=p), lambda k, p: R.get_line_radiated_power_rate(k[0], k[1], repository_path=p), lambda: (rnd.choice(EL), rnd.randint(0, 1)), 2),
 "continuum_power": (lambda k, v, p: R.add_continuum_power_rate(k[0], k[1], v, repository_path=p), lambda k, p: R.get_continuum_radiated_power_rate(k[0], k[1], repository_path=p), lambda: (rnd.choice(EL), rnd.randint(1, 2)), 2),
 "cx_power": (lambda k, v, p: R.add_cx_power_rate(k[0], k[1], v, repository_path=p), lambda k, p: R.get_cx_radiated_power_rate(k[0], k[1], repository_path=p), lambda: (rnd.choice(EL), rnd.randint(1, 2)), 2),
}
# beam families: one file per (donor / target ...) holding several keys (transition -> {donor metastable: rate}; or one rate per file)
def beam_table():
    e = sorted(rnd.uniform(1e3, 1e5) for _ in range(3)); n = sorted(rnd.uniform(1e17, 1e20) for _ in range(2)); t = sorted(rnd.uniform(1, 1e4) for _ in range(4))
    return {"e": e, "n": n, "t": t, "sen": np.array([[rnd.uniform(1e-14, 1e-12) for _ in n] for _ in e]), "st": np.array([rnd.uniform(1e-14, 1e-12) for _ in t]),
            "eref": float(e[1]), "nref": float(n[0]), "tref": float(t[2]), "sref": rnd.uniform(1e-14, 1e-12)}
def cx_table():
    d = {"qref": rnd.uniform(1e-16, 1e-14)}
    for ax in ("eb", "ti", "ni", "z", "b"):
        k = rnd.randint(1, 4); d[ax] = sorted(rnd.uniform(1, 1e4) for _ in range(k)); d["q" + ("z" if ax == "z" else ("b" if ax == "b" else ax))] = [rnd.uniform(1e-16, 1e-14) for _ in range(k)]
    return d
def universe(fam):
    ks = set()
    for _ in range(400): ks.add(FAM[fam][2]())
    return sorted(ks, key=repr)
def same(got, want):
    return all(np.array_equal(np.asarray(got[f]), np.asarray(want[f])) for f in want)
home_before = set(os.listdir(os.path.expanduser("~/.cherab"))) if os.path.isdir(os.path.expanduser("~/.cherab")) else None
for trial in range(%d):
    d = tempfile.mkdtemp(prefix="verif_c06_")
    try:
        model = {}
        for step in range(rnd.randint(4, 14)):
            fam = rnd.choice(sorted(FAM)); key = FAM[fam][2](); val = table(FAM[fam][3])
            arg = {k: (v.copy() if hasattr(v, "copy") else list(v)) for k, v in val.items()}
            if not fam.startswith("pec_"):
                arg["rates"] = arg.pop("rate")          # the ADF11-type families take the table under the key 'rates' and return it as 'rate'
            FAM[fam][0](key, arg, d)
            model[(fam, key)] = val
            if rnd.random() < 0.3:
                key2 = (fam, key)
                w = float(rnd.uniform(300, 900)); R.add_wavelength(key[0] if fam != "thermal_cx" and fam != "pec_thermal_cx" else key[2], 1, (3, 2), w, repository_path=d)
                model[("wavelength", (key[0] if fam != "thermal_cx" and fam != "pec_thermal_cx" else key[2], 1, (3, 2)))] = w
        # beam CX: several donor metastables under one (donor, receiver, charge, transition); stopping / population / emission: one rate per key
        bmodel = {}
        plan = [("cx", None)] * 2 + [(rnd.choice(("cx", "cx", "stopping", "population", "emission")), None) for _ in range(rnd.randint(3, 9))]
        pin = (rnd.choice(EL), rnd.randint(1, 2), rnd.choice(TR[:2]))      # the first two writes: same key, metastable 1 then 2, separate calls
        for step, (kind, _) in enumerate(plan):
            tgt, q = rnd.choice(EL), rnd.randint(1, 2)
            if kind == "cx":
                tr, ms = rnd.choice(TR[:2]), rnd.randint(1, 3); val = cx_table()
                if step < 2:
                    tgt, q, tr = pin; ms = step + 1
                R.add_beam_cx_rate(deuterium, ms, tgt, q, tr, {k: (list(v) if isinstance(v, list) else v) for k, v in val.items()}, repository_path=d)
                bmodel[("cx", tgt, q, tr, ms)] = val
            elif kind == "stopping":
                val = beam_table(); R.add_beam_stopping_rate(deuterium, tgt, q, dict(val), repository_path=d); bmodel[("stopping", tgt, q)] = val
            elif kind == "population":
                ms = rnd.randint(2, 3); val = beam_table(); R.add_beam_population_rate(deuterium, ms, tgt, q, dict(val), repository_path=d); bmodel[("population", tgt, q, ms)] = val
            else:
                tr = rnd.choice(TR[:2]); val = beam_table(); R.add_beam_emission_rate(deuterium, tgt, q, tr, dict(val), repository_path=d); bmodel[("emission", tgt, q, tr)] = val
        for tgt in EL:
            for q in (1, 2):
                for tr in TR[:2]:
                    cases += 1
                    want = {ms: v for (k0, t0, q0, tr0, ms), v in ((k, v) for k, v in bmodel.items() if k[0] == "cx") if t0 is tgt and q0 == q and tr0 == tr}
                    try:
                        got = R.get_beam_cx_rates(deuterium, tgt, q, tr, repository_path=d)
                    except RuntimeError:
                        got = []
                    gm = {int(m): r for m, r in got}
                    if sorted(gm) != sorted(want) or any(not all(np.array_equal(np.asarray(gm[m][f]), np.asarray(want[m][f])) for f in want[m]) for m in want):
                        bad.append({"family": "beam_cx", "key": repr((tgt.name, q, tr)), "stored_metastables": sorted(gm), "written_metastables": sorted(want)})
                    for fam, getter, key in (("emission", lambda: R.get_beam_emission_rate(deuterium, tgt, q, tr, repository_path=d), ("emission", tgt, q, tr)),):
                        cases += 1
                        try: g = getter()
                        except RuntimeError: g = None
                        w = bmodel.get(key)
                        if (w is None) != (g is None) or (w is not None and not all(np.array_equal(np.asarray(g[f]), np.asarray(w[f])) for f in w)):
                            bad.append({"family": fam, "key": repr((tgt.name, q, tr)), "written": w is not None, "readable": g is not None})
                cases += 1
                try: g = R.get_beam_stopping_rate(deuterium, tgt, q, repository_path=d)
                except RuntimeError: g = None
                w = bmodel.get(("stopping", tgt, q))
                if (w is None) != (g is None) or (w is not None and not all(np.array_equal(np.asarray(g[f]), np.asarray(w[f])) for f in w)):
                    bad.append({"family": "stopping", "key": repr((tgt.name, q)), "written": w is not None, "readable": g is not None})
                for ms in (2, 3):
                    cases += 1
                    try: g = R.get_beam_population_rate(deuterium, ms, tgt, q, repository_path=d)
                    except RuntimeError: g = None
                    w = bmodel.get(("population", tgt, q, ms))
                    if (w is None) != (g is None) or (w is not None and not all(np.array_equal(np.asarray(g[f]), np.asarray(w[f])) for f in w)):
                        bad.append({"family": "population", "key": repr((tgt.name, q, ms)), "written": w is not None, "readable": g is not None})
        for fam in sorted(FAM):
            for key in universe(fam):
                cases += 1
                try:
                    got = FAM[fam][1](key, d); err = None
                except RuntimeError as e:
                    got = None; err = "RuntimeError"
                except Exception as e:
                    got = None; err = type(e).__name__
                want = model.get((fam, key))
                if want is None and err != "RuntimeError":
                    bad.append({"family": fam, "key": repr(key), "never_written_but": err or "data returned"})
                elif want is not None and (got is None or not same(got, want)):
                    bad.append({"family": fam, "key": repr(key), "written_but": err or "different numbers returned"})
        for el in EL + [deuterium]:
            cases += 1
            want = model.get(("wavelength", (el, 1, (3, 2))))
            try:
                got = R.get_wavelength(el, 1, (3, 2), repository_path=d)
            except RuntimeError:
                got = None
            if got != want:
                bad.append({"family": "wavelength", "key": el.name, "got": got, "written": want})
    finally:
        shutil.rmtree(d, ignore_errors=True)
    if len(bad) > 6: break
# NON-FINITE float64 values (NaN, +inf, -inf are float64 values like any other): a finite key first, then a SIBLING key of the same file with
# non-finite entries; both must read back afterwards (the second with NaN == NaN), and the first must be unharmed whatever the second write did
nan, inf = float("nan"), float("inf")
def eqnan(a, b):
    a, b = np.asarray(a, dtype=float), np.asarray(b, dtype=float)
    return a.shape == b.shape and bool(np.all((a == b) | (np.isnan(a) & np.isnan(b))))
for fam in sorted(FAM):
    for special in (nan, inf, -inf):
        d = tempfile.mkdtemp(prefix="verif_c06_")
        try:
            uni = universe(fam)
            k1 = uni[0]; k2 = [k for k in uni[1:] if repr(k[0]) == repr(k1[0]) or fam.endswith("thermal_cx")][0]
            v1, v2 = table(FAM[fam][3]), table(FAM[fam][3])
            v2["rate"] = v2["rate"].copy(); v2["rate"].flat[rnd.randrange(v2["rate"].size)] = special
            outcome = "accepted"
            for k, v in ((k1, v1), (k2, v2)):
                arg = {kk: (vv.copy() if hasattr(vv, "copy") else list(vv)) for kk, vv in v.items()}
                if not fam.startswith("pec_"): arg["rates"] = arg.pop("rate")
                try:
                    FAM[fam][0](k, arg, d)
                except Exception as e:
                    outcome = type(e).__name__
            cases += 1
            try:
                g1 = FAM[fam][1](k1, d)
                if not same(g1, v1): bad.append({"family": fam, "non_finite_sibling": repr(special), "first_key": "different numbers", "second_write": outcome})
            except Exception as e:
                bad.append({"family": fam, "non_finite_sibling": repr(special), "first_key_unreadable": type(e).__name__, "second_write": outcome})
            if outcome == "accepted":
                cases += 1
                try:
                    g2 = FAM[fam][1](k2, d)
                    if not all(eqnan(g2[f], v2[f]) for f in v2): bad.append({"family": fam, "non_finite_value": repr(special), "read_back": "different numbers"})
                except Exception as e:
                    bad.append({"family": fam, "non_finite_value": repr(special), "read_back": type(e).__name__})
        finally:
            shutil.rmtree(d, ignore_errors=True)
for special in (nan, inf):
    d = tempfile.mkdtemp(prefix="verif_c06_")
    try:
        R.add_wavelength(carbon, 1, (3, 2), 500.25, repository_path=d)
        try: R.add_wavelength(carbon, 1, (4, 2), special, repository_path=d)
        except Exception as e: pass
        cases += 1
        try:
            if R.get_wavelength(carbon, 1, (3, 2), repository_path=d) != 500.25: bad.append({"family": "wavelength", "non_finite_sibling": repr(special), "first_key": "changed"})
        except Exception as e:
            bad.append({"family": "wavelength", "non_finite_sibling": repr(special), "first_key_unreadable": type(e).__name__})
    finally:
        shutil.rmtree(d, ignore_errors=True)
home_after = set(os.listdir(os.path.expanduser("~/.cherab"))) if os.path.isdir(os.path.expanduser("~/.cherab")) else None
if home_before != home_after:
    bad.append({"stray_files_in_default_repository": sorted((home_after or set()) ^ (home_before or set()))[:5]})
print(json.dumps({"cases": cases, "bad": bad[:6]}))
''' % (ctx['seed'] + 6, n)
    out = run_native(ctx, code, timeout=900)
    return {'name': 'repository add/get histories vs a dictionary model, fourteen families (BOUNDED stand-in, not counted as proved)',
            'ok': bool(out) and out.get('bad') == [], 'detail': out, 'covers': ['repository'],
            'bound': '%d random histories of 4..14 writes, every key of the universe read back, seed %d' % (n, ctx['seed'] + 6)}


def bounded_install_frontends(ctx):
    """Bounded stand-in (NOT a proof) for the ADF11 install_* front-ends named in the statement: an independent writer of the published
    ADF11 layout produces scd/acd/ccd/plt/prb/prc files for helium and neon (random grid sizes, one block per charge state); each is
    installed into a fresh temporary repository through its install_adf11* function (thermal CX interleaved with a direct
    update_thermal_cx_rates of one key) and EVERY charge from -1 to Z+1 is read back: block Z1=k must be found under the charge of the
    documented convention (k-1 for scd/plt, k otherwise) with the file's numbers after unit conversion, every other charge raises
    RuntimeError, and nothing appears under ~/.cherab (HOME redirected)."""
    from replaylib.native import run_native
    n = 2 if ctx['tier'] == 'quick' else 12
    code = '''
import os, random, tempfile, shutil, contextlib, io
import numpy as np
home = tempfile.mkdtemp(prefix="verif_c06_home_"); os.environ["HOME"] = home
from cherab.core.atomic import neon, hydrogen, helium
from cherab.openadas import repository as R
from cherab.openadas import install as I
rnd = random.Random(%d)
bad = []; cases = 0
def fmt8(vals):
    return "".join("".join("%%10.5f" %% v for v in vals[i:i + 8]) + "\\n" for i in range(0, len(vals), 8))
def write_adf11(path, name, z0, nne, nte, tabs, ne, te):
    txt = "%%5d%%5d%%5d%%5d%%5d     /%%-19s/GCR PROJECT\\n" %% (z0, nne, nte, 1, len(tabs), name.upper())
    txt += "-" * 80 + "\\n" + fmt8(ne) + fmt8(te)
    for z in range(len(tabs)):
        txt += "-" * 20 + "/ IPRT= 1  / IGRD= 1  /--------/ Z1= %%d   / DATE= 01/01/00\\n" %% (z + 1)
        txt += fmt8([v for row in tabs[z] for v in row])
    txt += "C" + "-" * 79 + "\\nC\\n"
    open(path, "w").write(txt)
def expect(tab, ne, te):
    return {"ne": 10 ** np.round(np.array(ne), 5) * 1e6, "te": 10 ** np.round(np.array(te), 5), "rate": 10 ** np.round(np.array(tab), 5).T * 1e-6}
def same(got, want):
    return all(np.asarray(got[k]).shape == want[k].shape and np.allclose(np.asarray(got[k]), want[k], rtol=1e-9, atol=0) for k in want)
def rd(f, *a):
    try:
        return f(*a)
    except RuntimeError:
        return None
# file type -> (installer, reader(charge), offset: block Z1=k is stored under charge k + offset)
KINDS = {
    "scd": (lambda el, fp, rp, ap: I.install_adf11scd(el, fp, repository_path=rp, adas_path=ap), lambda el, q, rp: rd(R.get_ionisation_rate, el, q, rp), -1),
    "acd": (lambda el, fp, rp, ap: I.install_adf11acd(el, fp, repository_path=rp, adas_path=ap), lambda el, q, rp: rd(R.get_recombination_rate, el, q, rp), 0),
    "ccd": (lambda el, fp, rp, ap: I.install_adf11ccd(hydrogen, 0, el, fp, repository_path=rp, adas_path=ap), lambda el, q, rp: rd(R.get_thermal_cx_rate, hydrogen, 0, el, q, rp), 0),
    "plt": (lambda el, fp, rp, ap: I.install_adf11plt(el, fp, repository_path=rp, adas_path=ap), lambda el, q, rp: rd(R.get_line_radiated_power_rate, el, q, rp), -1),
    "prb": (lambda el, fp, rp, ap: I.install_adf11prb(el, fp, repository_path=rp, adas_path=ap), lambda el, q, rp: rd(R.get_continuum_radiated_power_rate, el, q, rp), 0),
    "prc": (lambda el, fp, rp, ap: I.install_adf11prc(el, fp, repository_path=rp, adas_path=ap), lambda el, q, rp: rd(R.get_cx_radiated_power_rate, el, q, rp), 0),
}
for trial in range(%d):
    for el, z0 in ((helium, 2), (neon, 10)):
        rp = tempfile.mkdtemp(prefix="verif_c06_repo_"); ap = tempfile.mkdtemp(prefix="verif_c06_adas_")
        try:
            nne, nte = rnd.randint(2, 11), rnd.randint(2, 13)
            ne = sorted(rnd.uniform(7, 15) for _ in range(nne)); te = sorted(rnd.uniform(-1, 4) for _ in range(nte))
            for kind, (inst, read, off) in KINDS.items():
                tabs = [[[rnd.uniform(-20, -5) for _ in range(nne)] for _ in range(nte)] for _ in range(z0)]
                write_adf11(os.path.join(ap, kind + ".dat"), el.name, z0, nne, nte, tabs, ne, te)
                with contextlib.redirect_stdout(io.StringIO()):
                    inst(el, kind + ".dat", rp, ap)
                cases += 1
                if kind == "ccd" and z0 >= 2:
                    # interleaving with a direct write: update charge z0 afterwards; every other charge keeps the file's tables
                    t2 = [[rnd.uniform(-20, -5) for _ in range(nne)] for _ in range(nte)]
                    e2 = expect(t2, ne, te)
                    R.update_thermal_cx_rates({hydrogen: {0: {el: {z0: {"ne": e2["ne"], "te": e2["te"], "rates": e2["rate"]}}}}}, repository_path=rp)
                    tabs[z0 - 1] = t2
                for q in range(-1, z0 + 2):
                    k = q - off          # block Z1 = k
                    got = read(el, q, rp)
                    if 1 <= k <= z0:
                        if got is None or not same(got, expect(tabs[k - 1], ne, te)):
                            bad.append({"file_type": kind, "element": el.name, "charge_read": q, "expected_block_Z1": k,
                                        "observed": "no such key" if got is None else "other tables (first rate %%.6e, block's first rate %%.6e)" %% (np.asarray(got["rate"]).flat[0], expect(tabs[k - 1], ne, te)["rate"].flat[0])})
                    elif got is not None:
                        bad.append({"file_type": kind, "element": el.name, "charge_read": q, "expected": "RuntimeError (no block of the file maps to this charge)", "observed": "tables returned"})
            stray = [os.path.join(dp, f) for dp, _, fs in os.walk(os.path.join(home, ".cherab")) for f in fs]
            if stray:
                bad.append({"stray_files_under_home": stray[:3]})
        except Exception as e:
            bad.append({"error": repr(e)[:200], "element": el.name})
        finally:
            shutil.rmtree(rp, ignore_errors=True); shutil.rmtree(ap, ignore_errors=True)
shutil.rmtree(home, ignore_errors=True)
print(json.dumps({"cases": cases, "bad": bad[:5], "nbad": len(bad)}))
''' % (ctx['seed'] + 66, n)
    out = run_native(ctx, code, timeout=900)
    return {'name': 'ADF11 install front-ends vs an independent writer and the charge convention (BOUNDED stand-in, not counted as proved)',
            'ok': bool(out) and out.get('bad') == [], 'detail': out, 'covers': ['repository'],
            'bound': '%d random files per type and element (He, Ne), six ADF11 types, seed %d' % (n, ctx['seed'] + 66)}


BOUNDED = [bounded_repository_histories, bounded_install_frontends]
