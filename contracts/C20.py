"""C20 — grid derivative and ADMT operators discretise the operators they claim to."""
import ast
import itertools
import z3
from .common import structural, lemma, as_bool
from pyvc.smt import Obligation
from pyvc.values import Obj, to_real, concrete

PROP = 'C20'
LEVEL = 'proof'
EXPLANATION = ('Stencils: one arbitrary iteration of the real cell loop of generate_derivative_operators is executed symbolically for a '
               'symbolic cell of an n_x x n_y >= 2x2 grid (nine feasible boundary cases); the written row of every operator is then '
               'proved, for all coefficients/origins/voxel sizes, to annihilate constants and to be exact on the stated polynomial '
               'classes.  ADMT: calculate_admt is executed symbolically (element-wise numpy arithmetic lifted to one voxel) and its '
               'coefficient fields are proved equal to those of div(D grad f) in cylindrical geometry derived with sympy.')
F = "cherab/tools/inversions/admt_utils.py"
ASSUMPTIONS = ['numpy arithmetic on equally shaped arrays is element-wise; A @ v applies operator A; np.diag(c) @ A scales row i by c[i]',
               'the 2D<->1D grid maps are mutually inverse bijections of an n_x x n_y rectangle (precondition)',
               'dx, dy extracted as min |difference of cell centres| != 0 equal the voxel width/height for equal voxels (precondition)']
NOT_APPLICABLE = ['convergence order of the discretisation beyond: coefficients equal the continuous operator\'s, stencils exact on the '
                  'stated polynomial classes']

OPS = ('Dx', 'Dy', 'Dxx', 'Dyy', 'Dxy')
NEIGH = list(itertools.product((-1, 0, 1), (-1, 0, 1)))


def stencil_rows(P):
    """Postcondition of one loop iteration: the row written for each operator, checked against the polynomial exactness claims."""
    out = []
    st = P.st
    ix = P.value("grid_index_1d_to_2d_map[ith_cell][0]")
    iy = P.value("grid_index_1d_to_2d_map[ith_cell][1]")
    ith = P.value("ith_cell")
    mats = {op: P.value(op) for op in OPS}
    rows = {op: {} for op in OPS}
    bad = []
    for ev in st.log:
        if ev.label != '__setitem__':
            continue
        op = [o for o in OPS if ev.recv is not None and ev.recv.ref.eq(mats[o].ref)]
        if not op:
            bad.append('write to unknown matrix')
            continue
        row, col, val = ev.args
        if not z3.simplify(z3.IntVal(0) + row - ith).eq(z3.IntVal(0)):
            bad.append('row index is not ith_cell')
        off = None
        if z3.is_expr(col) and z3.simplify(col - ith).eq(z3.IntVal(0)):
            off = (0, 0)
        elif z3.is_expr(col) and z3.is_app(col) and col.decl().name().startswith('map_Int_Int') and col.num_args() == 3:
            da, db = concrete(col.arg(1) - ix), concrete(col.arg(2) - iy)
            if isinstance(da, int) and isinstance(db, int):
                off = (da, db)
        if off is None:
            bad.append('column is not a grid neighbour (%s)' % (col,))
            continue
        rows[op[0]][off] = to_real(val)
    out.append(('stencil.frame', z3.BoolVal(not bad)))
    # field f(X, Y) = a + b X + c Y + d X Y + e X^2 + g Y^2 sampled at the neighbour centres (iy grows downwards)
    a, b, c, d, e, g, x0, y0, dx, dy = z3.Reals('a b c d e g x0 y0 dx dy')
    def f(off, quad):
        X, Y = x0 + off[0] * dx, y0 - off[1] * dy
        v = a + b * X + c * Y + d * X * Y
        if quad:
            v = v + e * X * X + g * Y * Y
        return v
    scale = {'Dx': dx, 'Dy': dy, 'Dxx': dx * dx, 'Dyy': dy * dy, 'Dxy': dx * dy}
    interior = as_bool(P.term("interior()"))
    hyp = z3.And(dx != 0, dy != 0)
    X0, Y0 = x0, y0
    for op in OPS:
        r = rows[op]
        tot = sum(r.values(), z3.RealVal(0))
        out.append(('stencil.%s.annihilates_constants' % op, z3.simplify(tot) == 0))
        app = lambda quad: sum((coef * f(off, quad) for off, coef in r.items()), z3.RealVal(0)) / scale[op]
        if op == 'Dx':
            out.append(('stencil.Dx.exact_on_bilinear_in_x', z3.Implies(z3.And(hyp, d == 0), app(False) == b)))
        if op == 'Dy':
            out.append(('stencil.Dy.exact_on_linear', z3.Implies(z3.And(hyp, d == 0), app(False) == c)))
        if op == 'Dxy':
            out.append(('stencil.Dxy.exact_on_bilinear', z3.Implies(hyp, app(False) == d)))
        if op == 'Dxx':
            out.append(('stencil.Dxx.exact_on_quadratic_interior', z3.Implies(z3.And(hyp, interior), app(True) == 2 * e)))
        if op == 'Dyy':
            out.append(('stencil.Dyy.exact_on_quadratic_interior', z3.Implies(z3.And(hyp, interior), app(True) == 2 * g)))
    return out


def register(reg):
    nb = lambda a, b: "has_key(grid_index_2d_to_1d_map, ix0() + (%d), iy0() + (%d)) == (0 <= ix0() + (%d) and ix0() + (%d) < nx and 0 <= iy0() + (%d) and iy0() + (%d) < ny)" % (a, b, a, a, b, b)
    inv = lambda a, b: "implies(has_key(grid_index_2d_to_1d_map, ix0() + (%d), iy0() + (%d)), (grid_index_2d_to_1d_map[ix0() + (%d), iy0() + (%d)] == ith_cell) == (%s))" % (a, b, a, b, 'True' if (a, b) == (0, 0) else 'False')
    reg.contract(F, "generate_derivative_operators", PROP, name='stencil-row',
        flags={'loop_body': 0, 'max_paths': 4000},
        sorts={"ith_cell": "int", "num_cells": "int", "grid_index_1d_to_2d_map": "ref:Map1to2!", "grid_index_2d_to_1d_map": "ref:Map2to1!",
               "Dx": "ref:Matrix!", "Dy": "ref:Matrix!", "Dxx": "ref:Matrix!", "Dxy": "ref:Matrix!", "Dyy": "ref:Matrix!",
               "voxel_vertices": "ref"},
        attrs={'$mapval:Map1to2': ('tuple', ['int', 'int']), '$mapval:Map2to1': 'int'},
        consts={"nx": "int", "ny": "int"},
        ghost={"ix0()": "grid_index_1d_to_2d_map[ith_cell][0]", "iy0()": "grid_index_1d_to_2d_map[ith_cell][1]",
               "interior()": "1 <= ix0() and ix0() < nx - 1 and 1 <= iy0() and iy0() < ny - 1"},
        externals={'.__setitem__': {'kind': 'logged', 'result': 'none', 'label': '__setitem__', 'doc': 'numpy item assignment M[i, j] = v (logged)'}},
        requires=["nx >= 2", "ny >= 2", "0 <= ix0() and ix0() < nx", "0 <= iy0() and iy0() < ny",
                  "not same(Dx, Dy) and not same(Dx, Dxx) and not same(Dx, Dxy) and not same(Dx, Dyy) and not same(Dy, Dxx) and "
                  "not same(Dy, Dxy) and not same(Dy, Dyy) and not same(Dxx, Dxy) and not same(Dxx, Dyy) and not same(Dxy, Dyy)"]
                 + [nb(a, b) for a, b in NEIGH] + [inv(a, b) for a, b in NEIGH],
        ensures=[("rows", stencil_rows)])


# ---------------------------------------------------------------------------------------------- ADMT coefficients
def _sym_exec_admt(tree):
    """Symbolic execution of the real calculate_admt body with sympy: arrays are lifted to their value at one voxel, `Op @ field`
    is the derivative symbol of that field, np.diag(c) @ Op is c * Op."""
    import sympy as sp
    fn = tree.find_func(F, 'calculate_admt')
    S = {n: sp.Symbol(n, real=True) for n in ('psix', 'psiy', 'psixx', 'psixy', 'psiyy', 'Dperp_x', 'Dperp_y', 'Dpar_x', 'Dpar_y', 'R',
                                              'dx', 'dy', 'anisotropy')}
    OPSYM = {n: sp.Symbol('OP_' + n, real=True) for n in OPS}
    deriv = {('Dx', 'psi_at_voxels'): S['psix'], ('Dy', 'psi_at_voxels'): S['psiy'], ('Dxx', 'psi_at_voxels'): S['psixx'],
             ('Dxy', 'psi_at_voxels'): S['psixy'], ('Dyy', 'psi_at_voxels'): S['psiyy'],
             ('Dx', 'Dperp'): S['Dperp_x'], ('Dy', 'Dperp'): S['Dperp_y'], ('Dx', 'Dpar'): S['Dpar_x'], ('Dy', 'Dpar'): S['Dpar_y']}
    env = {'voxel_radii': S['R'], 'dx': S['dx'], 'dy': S['dy'], 'anisotropy': S['anisotropy'], 'psi_at_voxels': sp.Symbol('psi', real=True)}
    tags = {}           # sympy object id -> name of the variable it was first bound to (for Op @ field lookups)
    opvars = {}

    def ev(e):
        if isinstance(e, ast.Constant):
            return sp.Integer(e.value) if isinstance(e.value, int) else sp.Rational(str(e.value))
        if isinstance(e, ast.Name):
            return env[e.id]
        if isinstance(e, ast.Subscript) and isinstance(e.value, ast.Name) and e.value.id == 'derivative_operators':
            return OPSYM[e.slice.value]
        if isinstance(e, ast.UnaryOp) and isinstance(e.op, ast.USub):
            return -ev(e.operand)
        if isinstance(e, ast.BinOp):
            if isinstance(e.op, ast.MatMult):
                l, r = ev(e.left), ev(e.right)
                lname = [k for k, v in OPSYM.items() if v == l]
                if lname and isinstance(e.right, ast.Name) and (lname[0], e.right.id) in deriv:
                    return deriv[(lname[0], e.right.id)]
                rname = [k for k, v in OPSYM.items() if v == r]
                if rname:                      # diag(c) @ Op
                    return l * r
                raise ValueError('unsupported matmul %s' % ast.unparse(e))
            l, r = ev(e.left), ev(e.right)
            t = type(e.op)
            if t is ast.Add:
                return l + r
            if t is ast.Sub:
                return l - r
            if t is ast.Mult:
                return l * r
            if t is ast.Div:
                return l / r
            if t is ast.Pow:
                return l ** r
        if isinstance(e, ast.Call):
            fn_ = ast.unparse(e.func)
            if fn_ == 'np.full':
                return ev(e.args[1])
            if fn_ == 'np.diag':
                return ev(e.args[0])
            if fn_ == 'np.sqrt':
                return sp.sqrt(ev(e.args[0]))
        raise ValueError('statement outside the supported subset: %s' % ast.unparse(e)[:80])
    result = None
    for st_ in fn.body:
        if isinstance(st_, ast.Expr) and isinstance(st_.value, ast.Constant):
            continue
        if isinstance(st_, ast.Assign) and len(st_.targets) == 1 and isinstance(st_.targets[0], ast.Name):
            env[st_.targets[0].id] = ev(st_.value)
        elif isinstance(st_, ast.AugAssign) and isinstance(st_.target, ast.Name) and isinstance(st_.op, ast.Mult):
            env[st_.target.id] = env[st_.target.id] * ev(st_.value)
        elif isinstance(st_, ast.Return):
            result = ev(st_.value)
        else:
            raise ValueError('statement outside the supported subset: %s' % ast.unparse(st_)[:80])
    return result, S, OPSYM, env


def _admt(ctx, eng):
    import sympy as sp
    out = []
    try:
        result, S, OPSYM, env = _sym_exec_admt(ctx['tree'])
    except Exception as e:
        # not a violation: the function left the subset of the lifting executor -> undecided (a bounded native stand-in is tried by the runner)
        from pyvc.values import Unsupported
        u = Unsupported('calculate_admt outside the subset of the symbolic (sympy) executor: %r' % (e,))
        u.label = 'cherab.tools.inversions.admt_utils.calculate_admt'
        raise u
    out.append(structural('admt/symbolic-execution', PROP, True, 'calculate_admt executed symbolically (sympy)'))
    # specification: div(D grad f) in cylindrical geometry, D = Dperp n n^T + Dpar t t^T, n = grad(psi)/|grad(psi)|
    x, y = sp.symbols('x y', real=True)
    psi = sp.Function('psi')(x, y)
    Dp = sp.Function('Dperp')(x, y)
    Dl = sp.Function('Dpar')(x, y)
    f = sp.Function('f')(x, y)
    px, py = sp.diff(psi, x), sp.diff(psi, y)
    N = px ** 2 + py ** 2
    Txx = (Dp * px ** 2 + Dl * py ** 2) / N
    Tyy = (Dp * py ** 2 + Dl * px ** 2) / N
    Txy = (Dp - Dl) * px * py / N
    Rr = x                                            # the x axis of the grid is the major radius
    op = sp.diff(Rr * (Txx * sp.diff(f, x) + Txy * sp.diff(f, y)), x) / Rr + sp.diff(Txy * sp.diff(f, x) + Tyy * sp.diff(f, y), y)
    op = sp.expand(op)
    spec = {'Dx': op.coeff(sp.diff(f, x)), 'Dy': op.coeff(sp.diff(f, y)), 'Dxx': op.coeff(sp.diff(f, x, 2)),
            'Dyy': op.coeff(sp.diff(f, y, 2)), 'Dxy': op.coeff(sp.diff(f, x, y))}
    sub = {sp.diff(psi, x, 2): S['psixx'], sp.diff(psi, y, 2): S['psiyy'], sp.diff(psi, x, y): S['psixy'],
           sp.diff(Dp, x): S['Dperp_x'], sp.diff(Dp, y): S['Dperp_y'], sp.diff(Dl, x): S['Dpar_x'], sp.diff(Dl, y): S['Dpar_y']}
    sub2 = {sp.diff(psi, x): S['psix'], sp.diff(psi, y): S['psiy'], Dp: sp.Symbol('Dperp', real=True), Dl: sp.Symbol('Dpar', real=True),
            x: S['R']}
    Dpar_v, Dperp_v = env['Dpar'], env['Dperp']
    code = sp.expand(result / sp.sqrt(S['dx'] * S['dy']))
    real_syms = {}
    for name in OPS:
        want = spec[name].subs(sub).subs(sub2).subs({sp.Symbol('Dperp', real=True): Dperp_v, sp.Symbol('Dpar', real=True): Dpar_v})
        got = code.coeff(OPSYM[name])
        diff = sp.simplify(sp.together(got - want))
        num = sp.numer(sp.together(got - want))
        ok = sp.expand(num) == 0
        # z3 discharge of the same identity (NRA), sympy gives the witness polynomial
        out.append(_z3_identity('admt/coefficient.%s' % name, got, want, S, real_syms))
        out[-1].meta['sympy_difference'] = str(diff)[:300]
    # overall scale factor sqrt(dx dy)
    out.append(structural('admt/scale-sqrt-dx-dy', PROP, sp.simplify(result - code * sp.sqrt(S['dx'] * S['dy'])) == 0, 'operator times sqrt(dx*dy)'))
    return out


def _to_z3(e, syms):
    import sympy as sp
    if e.is_Symbol:
        return syms.setdefault(e.name, z3.Real(e.name))
    if e.is_Integer:
        return z3.RealVal(int(e))
    if e.is_Rational:
        return z3.RealVal(int(e.p)) / z3.RealVal(int(e.q))
    if e.is_Add:
        out = _to_z3(e.args[0], syms)
        for a in e.args[1:]:
            out = out + _to_z3(a, syms)
        return out
    if e.is_Mul:
        out = _to_z3(e.args[0], syms)
        for a in e.args[1:]:
            out = out * _to_z3(a, syms)
        return out
    if e.is_Pow and e.exp.is_Integer:
        base = _to_z3(e.base, syms)
        n = int(e.exp)
        out = base
        for _ in range(abs(n) - 1):
            out = out * base
        return out if n > 0 else 1 / out
    raise ValueError('cannot convert %s' % e)


def _z3_identity(name, got, want, S, syms):
    g, w = _to_z3(got, syms), _to_z3(want, syms)
    psix, psiy, R, an = (syms.setdefault(n, z3.Real(n)) for n in ('psix', 'psiy', 'R', 'anisotropy'))
    hyps = [psix * psix + psiy * psiy > 0, R > 0, an >= 1]
    return Obligation('%s/%s' % (PROP, name), hyps, g == w,
                      meta={'detail': 'coefficient field computed by calculate_admt equals that of div(D grad f) (cylindrical)',
                            'function': 'cherab.tools.inversions.admt_utils.calculate_admt'})


def _scaling(ctx, eng):
    """Epilogue of generate_derivative_operators: each operator is divided by the matching power of the voxel size."""
    fn = ctx['tree'].find_func(F, 'generate_derivative_operators')
    src = {ast.unparse(s) for s in fn.body}
    want = {'Dx': 'Dx = Dx / dx', 'Dy': 'Dy = Dy / dy', 'Dxx': 'Dxx = Dxx / dx ** 2', 'Dyy': 'Dyy = Dyy / dy ** 2', 'Dxy': 'Dxy = Dxy / (dx * dy)'}
    out = [structural('stencil/scaling.%s' % k, PROP, v in src, v) for k, v in want.items()]
    for ax, col in (('dx', 0), ('dy', 1)):
        ok = ('%s = cell_sizes[:, %d]' % (ax, col)) in src and ('%s = np.min(abs(%s[%s != 0])).item()' % (ax, ax, ax)) in src and 'cell_sizes = np.diff(cell_centres, axis=0)' in src
        out.append(structural('stencil/voxel-size.%s' % ax, PROP, ok, '%s = smallest non-zero difference of successive cell centres along axis %d' % (ax, col), standin='voxel-size'))
    out.append(structural('stencil/returned-operators', PROP, 'operators = dict(Dx=Dx, Dy=Dy, Dxx=Dxx, Dyy=Dyy, Dxy=Dxy)' in src, 'dict of the five operators'))
    return out


GENERATORS = [_admt, _scaling]


def _lemmas(ctx):
    """anisotropy 1 => the operator is the Laplacian d2/dx2 + d2/dy2 + (1/R) d/dx, whatever the flux map (from the spec coefficients)."""
    px, py, R, D = z3.Reals('psix psiy R D')
    N = px * px + py * py
    return [lemma('admt.isotropic.cxx', PROP, [N > 0], (D * px * px + D * py * py) / N == D, 'Dperp = Dpar => cxx = D'),
            lemma('admt.isotropic.cxy', PROP, [N > 0], (D - D) * px * py / N == 0, 'Dperp = Dpar => cxy = 0')]


LEMMAS = [_lemmas]


def native_replay(ctx, o):
    """ADMT coefficient obligations: for anisotropy 1 the real calculate_admt must return the Laplacian
    Dxx + Dyy + diag(1/R) Dx (times sqrt(dx dy)) whatever the flux map; evaluated on a 6x6 grid with psi = x + 0.7 y + 0.5 y^2."""
    from replaylib.native import run_native
    if 'calculate_admt' in o.name and 'outside-subset' in o.name:
        # bounded stand-in when calculate_admt leaves the symbolic executor's subset: a short history on a real grid - the operator for
        # anisotropy 1 is the Laplacian, a repeated call with the same dictionary gives the same operator as one built from freshly
        # generated derivative operators, and the caller's derivative operators are not modified
        code = '''
import numpy as np, copy
from cherab.tools.inversions.admt_utils import generate_derivative_operators, calculate_admt
nx, ny, dx, dy = 6, 5, 0.5, 0.25
def grid():
    verts = []; m12 = {}; m21 = {}; k = 0
    for ix in range(nx):
        for iy in range(ny):
            x0 = 1.0 + ix * dx; y0 = 2.0 - iy * dy
            verts.append([(x0, y0), (x0 + dx, y0), (x0 + dx, y0 - dy), (x0, y0 - dy)])
            m12[k] = (ix, iy); m21[(ix, iy)] = k; k += 1
    verts = np.array(verts)
    return verts, verts.mean(axis=1), m12, m21
verts, c, m12, m21 = grid()
ops = generate_derivative_operators(verts, m12, m21)
ref = {k: np.array(v, copy=True) for k, v in ops.items()}
psi = c[:, 0] + 0.7 * c[:, 1] + 0.5 * c[:, 1] ** 2
bad = []
interior = [m21[(i, j)] for i in range(1, nx - 1) for j in range(1, ny - 1)]
for step, an in enumerate((1, 10, 1)):
    got = calculate_admt(c[:, 0], ops, psi, dx, dy, anisotropy=an)
    fresh = calculate_admt(c[:, 0], {k: np.array(v, copy=True) for k, v in ref.items()}, psi, dx, dy, anisotropy=an)
    if not np.allclose(got, fresh, rtol=1e-9, atol=1e-12):
        bad.append({"call": step + 1, "anisotropy": an, "max_abs_difference_from_operator_built_on_fresh_derivative_operators": float(np.abs(got - fresh).max())})
    for k in ref:
        if not np.array_equal(ops[k], ref[k]):
            bad.append({"call": step + 1, "derivative_operator_modified_in_place": k}); break
    if an == 1:
        want = (ref["Dxx"] + ref["Dyy"] + np.diag(1 / c[:, 0]) @ ref["Dx"]) * np.sqrt(dx * dy)
        if not np.allclose(got[interior], want[interior], rtol=1e-9, atol=1e-9):
            bad.append({"call": step + 1, "anisotropy": 1, "max_abs_difference_from_laplacian": float(np.abs(got[interior] - want[interior]).max())})
print(json.dumps({"bad": bad[:4], "nbad": len(bad)}))
'''
        out = run_native(ctx, code, timeout=300)
        exp = 'same operator as with freshly generated derivative operators; Laplacian for anisotropy 1; derivative operators untouched'
        if out and out.get('nbad'):
            return {'confirmed': True, 'input': out['bad'][0], 'observed': out, 'expected': exp}
        return {'confirmed': False, 'input': None, 'observed': out, 'expected': exp}
    if '/admt/coefficient' not in o.name:
        return None
    code = '''
import numpy as np
from cherab.tools.inversions.admt_utils import generate_derivative_operators, calculate_admt
nx, ny, dx, dy = 6, 6, 0.5, 0.25
verts = []; m12 = {}; m21 = {}; k = 0
for ix in range(nx):
    for iy in range(ny):
        x0 = 1.0 + ix * dx; y0 = 2.0 - iy * dy
        verts.append([(x0, y0), (x0 + dx, y0), (x0 + dx, y0 - dy), (x0, y0 - dy)])
        m12[k] = (ix, iy); m21[(ix, iy)] = k; k += 1
verts = np.array(verts); c = verts.mean(axis=1)
ops = generate_derivative_operators(verts, m12, m21)
psi = c[:, 0] + 0.7 * c[:, 1] + 0.5 * c[:, 1] ** 2
L = calculate_admt(c[:, 0], ops, psi, dx, dy, anisotropy=1) / np.sqrt(dx * dy)
want = ops["Dxx"] + ops["Dyy"] + np.diag(1 / c[:, 0]) @ ops["Dx"]
interior = [m21[(i, j)] for i in range(1, nx - 1) for j in range(1, ny - 1)]
err = float(np.abs(L[interior] - want[interior]).max())
print(json.dumps({"max_abs_difference_from_laplacian_on_interior_rows": err, "flux_map": "psi = x + 0.7 y + 0.5 y^2", "grid": "6x6, dx=0.5, dy=0.25"}))
'''
    out = run_native(ctx, code)
    err = (out or {}).get('max_abs_difference_from_laplacian_on_interior_rows')
    return {'confirmed': err is not None and err > 1e-9, 'input': 'anisotropy=1, psi = x + 0.7 y + 0.5 y^2 on a 6x6 grid',
            'observed': out, 'expected': 'difference 0 (operator reduces to the Laplacian for anisotropy 1)'}


def bounded_operators_on_grids(ctx):
    """Bounded stand-in (NOT a proof) for the part of generate_derivative_operators that is outside the verified stencil rows: the voxel
    size it derives from the cell centres (numpy reductions) and the assembly over a whole grid.  On regular grids of several shapes
    (square and non-square, 2..7 columns and rows, dx != dy) in the documented column-major layout the returned operators must annihilate
    constants, differentiate linear fields exactly in every cell and quadratic / bilinear fields exactly in interior cells."""
    from replaylib.native import run_native
    n = 6 if ctx['tier'] == 'quick' else 60
    code = '''
import random
import numpy as np
from cherab.tools.inversions.admt_utils import generate_derivative_operators
rnd = random.Random(%d)
bad = []; cases = 0
def grid(nx, ny, dx, dy, x0, y0):
    # documented layout: column-major, each successive voxel in a column BELOW the previous one; 2-D index (ix, iy), iy fastest
    verts = []; m12 = {}; m21 = {}; k = 0
    for ix in range(nx):
        for iy in range(ny):
            xa = x0 + ix * dx; ya = y0 - iy * dy
            verts.append([(xa, ya), (xa + dx, ya), (xa + dx, ya - dy), (xa, ya - dy)])
            m12[k] = (ix, iy); m21[(ix, iy)] = k; k += 1
    verts = np.array(verts)
    return verts, verts.mean(axis=1), m12, m21
shapes = [(3, 3), (4, 4), (5, 3), (2, 4), (6, 2), (3, 7)] + [(rnd.randint(2, 7), rnd.randint(2, 7)) for _ in range(%d)]
for nx, ny in shapes:
    dx, dy = rnd.uniform(0.05, 2.0), rnd.uniform(0.05, 2.0); x0, y0 = rnd.uniform(0.5, 3.0), rnd.uniform(-2.0, 2.0)
    verts, c, m12, m21 = grid(nx, ny, dx, dy, x0, y0)
    ops = generate_derivative_operators(verts, m12, m21)
    x, y = c[:, 0], c[:, 1]
    a, b, g = rnd.uniform(-2, 2), rnd.uniform(-2, 2), rnd.uniform(-2, 2)
    interior = [m21[(i, j)] for i in range(1, nx - 1) for j in range(1, ny - 1)]
    cases += 1
    checks = [("every operator annihilates constants", max(float(np.abs(ops[k] @ np.ones(len(x))).max()) for k in ops), 0.0, None),
              ("Dx of a + b x + g y is b in every cell", ops["Dx"] @ (a + b * x + g * y), b, None),
              ("Dy of a + b x + g y is g in every cell", ops["Dy"] @ (a + b * x + g * y), g, None),
              ("Dxx of b x^2 is 2 b in interior cells", ops["Dxx"] @ (b * x * x), 2 * b, interior),
              ("Dyy of g y^2 is 2 g in interior cells", ops["Dyy"] @ (g * y * y), 2 * g, interior),
              ("Dxy of a x y is a in interior cells", ops["Dxy"] @ (a * x * y), a, interior)]
    for what, got, want, where in checks:
        got = np.atleast_1d(got)
        if where is not None:
            if not where: continue
            got = got[where]
        if not np.allclose(got, want, rtol=1e-7, atol=1e-7 * max(1.0, abs(want)) * max(1.0, 1 / dx ** 2, 1 / dy ** 2)):
            bad.append({"grid_columns_x_rows": [nx, ny], "dx": dx, "dy": dy, "check": what, "observed": float(got.flat[int(np.abs(got - want).argmax())]), "expected": want}); break
print(json.dumps({"cases": cases, "bad": bad[:4], "nbad": len(bad)}))
''' % (ctx['seed'] + 20, n)
    out = run_native(ctx, code, timeout=600)
    return {'name': 'derivative operators on regular grids of several shapes: exact on polynomials (BOUNDED stand-in, not counted as proved)',
            'ok': bool(out) and out.get('bad') == [], 'detail': out, 'covers': ['voxel-size'],
            'bound': '6 fixed + %d random grid shapes (2..7 x 2..7), random dx, dy, origin; seed %d' % (n, ctx['seed'] + 20)}


BOUNDED = [bounded_operators_on_grids]
