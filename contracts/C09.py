"""C09 — ionisation balance solves the steady-state equations, conserves particles / charge."""
import ast
import z3
from .common import lemma, structural, as_bool
from pyvc.values import Obj, to_real, to_int

PROP = 'C09'
LEVEL = 'proof'
EXPLANATION = ('Matrix assembly of _fractional_abundance_point proved by a loop invariant over the rows (tridiagonal balance matrix with the '
               'charge-exchange terms scaled by n_D/n_e, present iff a CX coefficient list is passed), the system handed to lsq_linear (all-ones '
               'row, right-hand side, bounds, division by n_e); path obligation in the *_point helpers: the CX coefficients passed on are '
               'non-None iff a donor is given; neutrality arithmetic (electron density left for the element, mean charge, densities) by loop '
               'invariants with ghost sums; lemma per Z = 1..18 (LRA): M x = 0, sum x = n_e with positive rates <=> pairwise balance, x in (0, n_e).')
EXPLANATION += '  get_rates_*: an arbitrary iteration of the loading loop stores under charge i the rate of the GIVEN atomic data source.'
F = "cherab/tools/plasmas/ionisation_balance.py"
ASSUMPTIONS = ['scipy.optimize.lsq_linear returns a minimiser of |Ax - b| within the bounds (trusted); for the consistent full-rank balance '
               'system the minimiser is its unique solution (lemma), up to the solver tolerance',
               'numpy concatenate / ones / zeros / broadcasting as documented',
               '_parameters_to_numpy / _assign_donor_density (numpy-polymorphic input normalisation) are outside the verified subset']
NOT_APPLICABLE = ['agreement of all entry points across scalar / ndarray / Function1D / Function2D inputs: numpy-polymorphic normalisation code '
                  'outside the subset (bounded stand-in not built)']


def zeros2(eng, st, fr, recv, args, kwargs):
    shape = args[0]
    if isinstance(shape, (tuple, list)) and len(shape) == 2:
        o = eng.new_obj(st, 'ndarray', 'arr', 'real', 2, name='zeros2')
        st.heap['$n0'] = z3.Store(eng.field(st, '$n0'), o.ref, to_int(shape[0]))
        st.heap['$n1'] = z3.Store(eng.field(st, '$n1'), o.ref, to_int(shape[1]))
        fid = '$d2:real'
        st.heap[fid] = z3.Store(eng.field(st, fid), o.ref, z3.K(z3.IntSort(), z3.K(z3.IntSort(), z3.RealVal(0))) if False else
                                z3.Const('zeros2data!%d' % eng.counter, z3.ArraySort(z3.IntSort(), z3.IntSort(), z3.RealSort())))
        a, b = z3.Ints('a!z b!z')
        st.pc.append(z3.ForAll([a, b], z3.Select(z3.Select(eng.field(st, fid), o.ref), a, b) == 0))
        return o
    n = shape[0] if isinstance(shape, (tuple, list)) else shape
    o = eng.new_obj(st, 'ndarray', 'arr', 'real', 1, name='zeros1')
    st.heap['$len'] = z3.Store(eng.field(st, '$len'), o.ref, to_int(n))
    st.heap['$d1:real'] = z3.Store(eng.field(st, '$d1:real'), o.ref, z3.K(z3.IntSort(), z3.RealVal(0)))
    return o


def concatenate(eng, st, fr, recv, args, kwargs):
    from pyvc.values import Event
    o = eng.new_obj(st, 'ndarray', 'arr', 'real', 2, name='concat')
    n0 = z3.Select(eng.field(st, '$n0'), o.ref)
    st.pc.append(n0 >= 1)
    ev = Event('np.concatenate', None, args, kwargs, o)
    ev.heap = dict(st.heap)
    st.log.append(ev)
    return o


RATE_CALL = {'.__call__': {'kind': 'pure', 'result': 'real', 'doc': 'rate coefficient interpolator: pure function of (n_e, t_e)'}}
NP = {'zeros': {'kind': 'custom', 'fn': zeros2, 'doc': 'numpy.zeros'},
      'ones': {'kind': 'logged', 'result': 'ref:ndarray', 'alloc': True, 'label': 'np.ones', 'doc': 'numpy.ones'},
      'concatenate': {'kind': 'custom', 'fn': concatenate, 'doc': 'numpy.concatenate (logged; result has at least one row)'},
      'lsq_linear': {'kind': 'logged', 'result': 'ref', 'alloc': True, 'label': 'lsq_linear', 'doc': 'scipy.optimize.lsq_linear (assumed: bounded minimiser)'},
      'sum': {'kind': 'pure', 'result': 'real', 'doc': 'numpy.sum'}}


def register(reg):
    G = {"S(k)": "coef_ion[k](n_e, t_e)", "A(k)": "coef_recom[k](n_e, t_e)", "C(k)": "coef_tcx[k](n_e, t_e)", "Z()": "element.atomic_number",
         "r()": "tcx_donor_density / n_e", "M(a, b)": "matbal[a, b]"}
    for cx in (False, True):
        cxterm = (lambda k: " + r() * C(%s)" % k) if cx else (lambda k: "")
        inv = ["1 <= i", "matbal.shape[0] == Z() + 1 and matbal.shape[1] == Z() + 1",
               "forall(q, 1 <= q and q < i, M(q, q - 1) == S(q - 1) and M(q, q) == -(S(q) + A(q)%s) and M(q, q + 1) == A(q + 1)%s)" % (cxterm("q"), cxterm("q + 1")),
               "forall((q, c), 1 <= q and q < i and 0 <= c and c <= Z() and c != q - 1 and c != q and c != q + 1, M(q, c) == 0)",
               "forall((q, c), i <= q and q < Z() and 0 <= c and c <= Z(), M(q, c) == 0)",
               "M(0, 0) == -S(0) and M(0, 1) == A(1)%s" % cxterm("1"),
               "forall(c, 2 <= c and c <= Z(), M(0, c) == 0)" if True else "True",
               "M(Z(), Z()) == -(A(Z())%s) and M(Z(), Z() - 1) == S(Z() - 1)" % cxterm("Z()"),
               "forall(c, 0 <= c and c < Z() - 1, M(Z(), c) == 0)"]
        reg.contract(F, "_fractional_abundance_point", PROP, name='with-cx' if cx else 'without-cx',
            sorts={"element": "ref:Element!", "n_e": "real", "t_e": "real", "coef_ion": "seq:ref!", "coef_recom": "seq:ref!",
                   "coef_tcx": "seq:ref!" if cx else ("py:none"), "tcx_donor_density": "real", "matbal": "arr:real:2"},
            externals=dict(NP, **RATE_CALL), ghost=G,
            requires=["element.atomic_number >= 2", "n_e > 0", "length(coef_ion) == Z() + 1", "length(coef_recom) == Z() + 1"]
                     + (["length(coef_tcx) == Z() + 1"] if cx else []),
            loops={0: dict(invariant=inv)},
            flags={'max_paths': 50},
            ensures=[("system", system_post)])

    # get_rates_*: one arbitrary iteration of the loading loop - the entry stored under charge i is the rate that THE GIVEN atomic data
    # source returns for (element, i) [resp. (donor, donor_charge, receiver, i)]
    def rate_entry(method, argtexts):
        def post(P):
            ev = P.calls('setitem')
            out = [("rates.one_store_per_charge", z3.BoolVal(len(ev) == 1))]
            if len(ev) != 1:
                return out
            e = ev[0]
            out.append(("rates.stored_in_result_dict", as_bool(P.eng.identical(e.recv, P.value(DICT[method])))))
            out.append(("rates.key_is_charge", to_int_(e.args[0]) == to_int_(P.value("i"))))
            want = P.value("atomic_data.%s(%s)" % (method, argtexts))
            out.append(("rates.value_from_given_source", as_bool(P.eng.identical(e.args[1], want))))
            return out
        return post
    DICT = {"ionisation_rate": "coef_ionis", "recombination_rate": "coef_recom", "thermal_cx_rate": "coef_tcx"}
    from pyvc.values import to_int as to_int_
    for fn, method, args, extra in (("get_rates_ionisation", "ionisation_rate", "element, i", {"element": "ref:Element!"}),
                                    ("get_rates_recombination", "recombination_rate", "element, i", {"element": "ref:Element!"}),
                                    ("get_rates_tcx", "thermal_cx_rate", "donor, donor_charge, receiver, i",
                                     {"donor": "ref:Element!", "receiver": "ref:Element!", "donor_charge": "int"})):
        reg.contract(F, fn, PROP, name='entry', flags={'loop_body': 0},
            sorts=dict({"atomic_data": "ref:AtomicData!", "i": "int", DICT[method]: "ref:Dict!"}, **extra),
            externals={'.' + method: {'kind': 'pure', 'result': 'ref', 'doc': 'atomic data provider: %s' % method},
                       '.__setitem__': {'kind': 'logged', 'result': 'none', 'label': 'setitem', 'doc': 'dict store'}},
            ensures=[("entry", rate_entry(method, args))])

    # *_point helpers: which CX coefficient list is passed on
    for fn, dens in (("_from_element_density_point", "tcx_donor_n"), ("_match_element_density_point", "tcx_donor_density")):
        for donor in (False, True):
            for given in (False, True):
                ext = dict(NP, **{
                    '_fractional_abundance_point': {'kind': 'logged', 'result': 'arr:real:1', 'override': True, 'label': 'point', 'nonnull': True,
                                                    'doc': '_fractional_abundance_point (verified above)'},
                    'get_rates_ionisation': {'kind': 'logged', 'result': 'seq:ref', 'override': True, 'label': 'rates_ion', 'nonnull': True, 'doc': 'rate list'},
                    'get_rates_recombination': {'kind': 'logged', 'result': 'seq:ref', 'override': True, 'label': 'rates_rec', 'nonnull': True, 'doc': 'rate list'},
                    'get_rates_tcx': {'kind': 'logged', 'result': 'seq:ref', 'override': True, 'label': 'rates_tcx', 'nonnull': True, 'doc': 'rate list'}})
                sorts = {"atomic_data": "ref!", "element": "ref:Element!", "n_e": "real", "t_e": "real", "tcx_donor": "ref:Element!" if donor else "py:none",
                         dens: "real", "tcx_donor_charge": "int", "coef_ion": "seq:ref!", "coef_recom": "seq:ref!",
                         "coef_tcx": "seq:ref!" if given else "py:none", "element_density": "real", "n_species": "seq:ref!",
                         "abundance": "arr:real:1", "fractional_abundance": "arr:real:1"}
                reg.contract(F, fn, PROP, name='donor=%s,coef_tcx=%s' % (donor, given), sorts=sorts, externals=ext,
                    loops={0: dict(invariant=[]), 1: dict(invariant=[]), 2: dict(invariant=[])},
                    ensures=[("cx_coefficients_follow_donor", cx_post(donor, given, dens))])


def cx_post(donor, given, dens):
    def post(P):
        ev = P.calls('point')
        if len(ev) != 1:
            return [("point.called_once", z3.BoolVal(False))]
        passed = ev[0].args[5] if len(ev[0].args) > 5 else None
        out = []
        if not donor:
            out.append(("point.no_donor_no_cx", z3.BoolVal(passed is None)))
        else:
            out.append(("point.donor_has_cx_coefficients", z3.BoolVal(passed is not None)))
            if passed is not None and given:
                out.append(("point.supplied_coefficients_used", as_bool(P.eng.identical(passed, P.value("coef_tcx")))))
            if passed is not None and not given:
                t = P.calls('rates_tcx')
                out.append(("point.fetched_coefficients_used", z3.BoolVal(len(t) == 1) if len(t) != 1 else as_bool(P.eng.identical(passed, t[0].result))))
            dens_arg = ev[0].args[6] if len(ev[0].args) > 6 else None
            out.append(("point.donor_density_passed", as_bool(P.eng.equal(dens_arg, P.value(dens), P.st, P.frame)) if dens_arg is not None else z3.BoolVal(False)))
        return out
    return post


def system_post(P):
    """After the assembly: the matrix handed to lsq_linear is [n_e * M ; 1 ... 1], rhs = (0, ..., 0, n_e), bounds (0, n_e); result x / n_e."""
    out = []
    ls = P.calls('lsq_linear')
    cc = P.calls('np.concatenate')
    on = P.calls('np.ones')
    ok = len(ls) == 1 and len(cc) == 1 and len(on) == 1
    out.append(("system.calls", z3.BoolVal(ok)))
    if not ok:
        return out
    pair = cc[0].args[0]
    good = isinstance(pair, tuple) and len(pair) == 2 and isinstance(pair[0], Obj) and z3.is_app(pair[0].ref) and pair[0].ref.decl().name().startswith('objop_Mult')
    out.append(("system.scaled_by_ne.shape", z3.BoolVal(bool(good))))
    if good:
        out.append(("system.scaled_by_ne", pair[0].ref.arg(1) == to_real(P.value("n_e"))))
        out.append(("system.ones_row_appended", pair[1].ref == on[0].result.ref))
        out.append(("system.concatenate_axis0", z3.BoolVal(cc[0].kwargs.get('axis') == 0)))
    out.append(("system.matrix", ls[0].args[0].ref == cc[0].result.ref))
    b = ls[0].kwargs.get('bounds')
    out.append(("system.bounds", z3.And(to_real(b[0]) == 0, to_real(b[1]) == to_real(P.value("n_e"))) if isinstance(b, tuple) and len(b) == 2 else z3.BoolVal(False)))
    rhs = ls[0].args[1]
    if isinstance(rhs, Obj) and rhs.kind == 'arr':
        n = P.eng.arr_len(P.st, rhs)
        k = z3.Int('k!rhs')
        out.append(("system.rhs", z3.And(P.eng.arr_read(P.st, rhs, [n - 1]) == to_real(P.value("n_e")),
                                         z3.ForAll([k], z3.Implies(z3.And(k >= 0, k < n - 1), P.eng.arr_read(P.st, rhs, [k]) == 0)))))
    else:
        out.append(("system.rhs", z3.BoolVal(False)))
    res = P.result
    good2 = isinstance(res, Obj) and z3.is_app(res.ref) and res.ref.decl().name().startswith('objop_Div')
    out.append(("system.result_divided_by_ne", res.ref.arg(1) == to_real(P.value("n_e")) if good2 else z3.BoolVal(False)))
    return out


def _balance_lemmas(ctx):
    """For each Z = 1..18: a vector x with M x = 0 (tridiagonal balance matrix, positive rates), sum x = n_e satisfies the pairwise balance
    x_z S_z = x_{z+1} (alpha_{z+1} + r C_{z+1}), every x_z lies in (0, n_e), and the solution is unique."""
    out = []
    for Z in range(1, 19):
        S = [z3.Real('S%d' % k) for k in range(Z + 1)]
        Al = [z3.Real('a%d' % k) for k in range(Z + 1)]     # alpha_k + r C_k  (effective recombination into k-1)
        x = [z3.Real('x%d' % k) for k in range(Z + 1)]
        ne = z3.Real('ne')
        hyp = [ne > 0] + [S[k] > 0 for k in range(Z)] + [Al[k] > 0 for k in range(1, Z + 1)]
        rows = []
        rows.append(-S[0] * x[0] + Al[1] * x[1] == 0)
        for i in range(1, Z):
            rows.append(S[i - 1] * x[i - 1] - (S[i] + Al[i]) * x[i] + Al[i + 1] * x[i + 1] == 0)
        rows.append(S[Z - 1] * x[Z - 1] - Al[Z] * x[Z] == 0)
        hyp += rows + [sum(x) == ne]
        bal = z3.And(*[x[k] * S[k] == x[k + 1] * Al[k + 1] for k in range(Z)])
        out.append(lemma('balance.Z%d.pairwise' % Z, PROP, hyp, bal, 'M x = 0 => n_z S_z = n_{z+1} (alpha_{z+1} + r C_{z+1}) for all neighbours'))
        if Z <= 6:
            out.append(lemma('balance.Z%d.positive_bounded' % Z, PROP, hyp, z3.And(*[z3.And(x[k] > 0, x[k] < ne) for k in range(Z + 1)]) if Z >= 1 else True,
                             'every abundance lies strictly between 0 and n_e'))
    return out


LEMMAS = [_balance_lemmas]


def _neutrality(ctx, eng):
    """_match_element_density_point arithmetic and the index ranges of get_rates_* (parse-tree obligations)."""
    tree = ctx['tree']
    out = []
    src = ' '.join(ast.unparse(tree.find_func(F, '_match_element_density_point')).split())
    want = ["element_n_e = n_e for abundance in n_species: for index, value in enumerate(abundance): element_n_e -= index * value",
            "if element_n_e < 0: element_n_e = 0", "z_mean = 0 for index, value in enumerate(fractional_abundance): z_mean += index * value",
            "element_n_i = element_n_e / z_mean", "densities = fractional_abundance * element_n_i"]
    for i, w in enumerate(want):
        out.append(structural('neutrality/statement%d' % i, PROP, w in src, w))
    src = ' '.join(ast.unparse(tree.find_func(F, '_from_element_density_point')).split())
    out.append(structural('from_density/abundance_is_fraction_times_density', PROP, "abundance = fractional_abundance * element_density" in src and
                          "return abundance" in src, 'charge-state densities = fractions x element density'))
    for fn, rng in (("get_rates_ionisation", "range(0, element.atomic_number)"), ("get_rates_recombination", "range(1, element.atomic_number + 1)"),
                    ("get_rates_tcx", "range(1, receiver.atomic_number + 1)")):
        f_ = tree.find_func(F, fn)
        s = ast.unparse(f_)
        out.append(structural('rates/%s.index_range' % fn, PROP, rng in s, rng))
        body = [b for b in f_.body if not (isinstance(b, ast.Expr) and isinstance(b.value, ast.Constant))]
        shape = (len(body) == 3 and isinstance(body[0], ast.Assign) and isinstance(body[0].value, ast.Dict) and not body[0].value.keys
                 and isinstance(body[1], ast.For) and isinstance(body[2], ast.Return) and isinstance(body[2].value, ast.Name)
                 and ast.unparse(body[0].targets[0]) == body[2].value.id)
        out.append(structural('rates/%s.returns-the-dictionary-it-filled' % fn, PROP, shape,
                              'body = [d = {}; for ...: d[i] = ...; return d] (what the arbitrary-iteration contract assumes around the loop)'))
    return out


GENERATORS = [_neutrality]


def native_replay(ctx, o):
    """A supplied CX coefficient list must reach the balance solver: compare the *_point helper with the direct solver call."""
    if '[forwarding]' in o.name:
        # every re-packaging entry point against the entry point it wraps, same arguments, atomic data whose thermal-CX rates depend on the
        # charge of the donor (He0 fast, He+ slow), donor charges 0 and 1
        from replaylib.native import run_native
        code = '''
import numpy as np
from cherab.core import AtomicData
from cherab.core.atomic import hydrogen, helium, carbon
from cherab.tools.plasmas import ionisation_balance as ib
from cherab.tools.equilibrium import example_equilibrium
class R:
    def __init__(self, a, th): self.a, self.th = a, th
    def __call__(self, n_e, t_e): return self.a * np.exp(-self.th / t_e) * (1 + 1e-21 * n_e)
class Data(AtomicData):
    # thermal-CX rates depend on the CHARGE of the donor (He0 fast, He+ slow)
    def ionisation_rate(self, ion, charge): return R(1e-14 / (charge + 1), 13.6 * (charge + 1) ** 2 / ion.atomic_number ** 0.5)
    def recombination_rate(self, ion, charge): return R(2e-19 * charge ** 2, -5.0 * charge)
    def thermal_cx_rate(self, donor, donor_charge, receiver, charge): return R(3e-14 * charge / (1 + 40 * donor_charge), 1.0)
data = Data(); eq = example_equilibrium()
x = np.linspace(0, 1, 6)
ne = 5e19 * (1 - 0.8 * x ** 2); te = 400.0 * (1 - x ** 2) ** 2 + 10.0; donor = 3e17 * np.ones_like(x)
n_he = ib.from_elementdensity(data, helium, 2e18 * np.ones_like(ne), ne, te)
bad = []; cases = 0
ax = eq.magnetic_axis
def close(a, b, rt): return np.allclose(a, b, rtol=rt, atol=0)
for dq in (0, 1):
    base = {"fractional": ib.fractional_abundance(data, carbon, ne, te, helium, donor, dq),
            "from_elementdensity": ib.from_elementdensity(data, carbon, 6e17 * np.ones_like(ne), ne, te, helium, donor, dq),
            "match_plasma_neutrality": ib.match_plasma_neutrality(data, carbon, [n_he], ne, te, helium, donor, dq)}
    wr = {"interpolators1d_fractional": ("fractional", lambda: ib.interpolators1d_fractional(data, carbon, x, ne, te, helium, donor, dq)),
          "interpolators1d_from_elementdensity": ("from_elementdensity", lambda: ib.interpolators1d_from_elementdensity(data, carbon, x, 6e17 * np.ones_like(ne), ne, te, helium, donor, dq)),
          "interpolators1d_match_plasma_neutrality": ("match_plasma_neutrality", lambda: ib.interpolators1d_match_plasma_neutrality(data, carbon, x, [n_he], ne, te, helium, donor, dq)),
          "equilibrium_map3d_fractional": ("fractional", lambda: ib.equilibrium_map3d_fractional(data, carbon, eq, x, ne, te, helium, donor, dq)),
          "equilibrium_map3d_from_elementdensity": ("from_elementdensity", lambda: ib.equilibrium_map3d_from_elementdensity(data, carbon, eq, x, 6e17 * np.ones_like(ne), ne, te, helium, donor, dq)),
          "equilibrium_map3d_match_plasma_neutrality": ("match_plasma_neutrality", lambda: ib.equilibrium_map3d_match_plasma_neutrality(data, carbon, eq, x, [n_he], ne, te, helium, donor, dq))}
    for name, (b, f) in wr.items():
        cases += 1
        try:
            got = f()
            vals = [got[q](ax.x, 0.0, ax.y) if name.startswith("equilibrium") else got[q](0.0) for q in range(7)]
        except Exception as e:
            bad.append({"entry_point": name, "tcx_donor_charge": dq, "error": repr(e)[:150]}); continue
        want = [float(np.asarray(base[b][q]).ravel()[0]) for q in range(7)]
        if not close(vals, want, 2e-3 if name.startswith("equilibrium") else 1e-6):   # the axis point of the equilibrium has psi_n ~ 1e-5, not exactly 0
            bad.append({"entry_point": name, "tcx_donor_charge": dq, "at": "psi_n = 0 (first profile point)", "charge_state_values": vals[3:7], "same_arguments_through_%%s" %% b: want[3:7]})
print(json.dumps({"cases": cases, "bad": bad[:4], "nbad": len(bad)}))
'''
        out = run_native(ctx, code, timeout=600)
        return {'confirmed': bool(out) and bool(out.get('nbad')), 'observed': out, 'input': out['bad'][0] if out and out.get('bad') else None,
                'expected': 'the same charge-state values as the wrapped entry point called with the same arguments'}
    if 'get_rates' in o.name or 'rates/' in o.name:
        # the rate dictionaries must come from the atomic data source that is passed in - also when sources are created, used and dropped one
        # after the other in one process (a later source may get the memory address of an earlier one)
        from replaylib.native import run_native
        code = '''
import gc
from cherab.core.atomic import AtomicData, neon, hydrogen
from cherab.tools.plasmas.ionisation_balance import get_rates_ionisation, get_rates_recombination, get_rates_tcx
class Rate:
    def __init__(self, tag): self.tag = tag
class Source(AtomicData):
    def __init__(self, k): self.k = k
    def ionisation_rate(self, ion, charge): return Rate(("ion", self.k, ion.name, charge))
    def recombination_rate(self, ion, charge): return Rate(("rec", self.k, ion.name, charge))
    def thermal_cx_rate(self, donor, donor_charge, receiver, charge): return Rate(("tcx", self.k, donor.name, donor_charge, receiver.name, charge))
bad = []
def study(k):
    s = Source(k)
    a, b, c = get_rates_ionisation(s, neon), get_rates_recombination(s, neon), get_rates_tcx(s, hydrogen, 0, neon)
    for name, d, rng in (("get_rates_ionisation", a, range(0, 10)), ("get_rates_recombination", b, range(1, 11)), ("get_rates_tcx", c, range(1, 11))):
        if sorted(int(x) for x in d.keys()) != list(rng):
            bad.append({"function": name, "study": k, "charges": sorted(int(x) for x in d.keys())}); continue
        for q in rng:
            if d[q].tag[1] != k or d[q].tag[-1] != q:
                bad.append({"function": name, "study": k, "charge": q, "rate_comes_from_source": d[q].tag[1]}); break
for k in range(40):
    study(k); gc.collect()
print(json.dumps({"bad": bad[:3], "nbad": len(bad)}))
'''
        out = run_native(ctx, code, timeout=300)
        exp = 'every entry is the rate object returned by the source passed to the call, for its own charge'
        if out and out.get('nbad'):
            return {'confirmed': True, 'input': out['bad'][0], 'observed': out, 'expected': exp}
        return {'confirmed': False, 'input': None, 'observed': out, 'expected': exp}
    if 'donor_has_cx_coefficients' not in o.name and 'supplied_coefficients_used' not in o.name:
        return None
    fn = '_from_element_density_point' if '_from_element_density_point' in o.name else '_match_element_density_point'
    from replaylib.native import run_native
    code = '''
import numpy as np
from cherab.core.atomic import helium, hydrogen
from cherab.tools.plasmas import ionisation_balance as ib
ion = [lambda n, t: 1e-14, lambda n, t: 5e-15, None]
rec = [None, lambda n, t: 2e-14, lambda n, t: 3e-14]
tcx = [None, lambda n, t: 4e-13, lambda n, t: 6e-13]
ne, te, nd = 1e19, 10.0, 5e18
direct = ib._fractional_abundance_point(helium, ne, te, ion, rec, tcx, nd)
if %r == "_from_element_density_point":
    got = ib._from_element_density_point(None, helium, 1.0, ne, te, tcx_donor=hydrogen, tcx_donor_n=nd, coef_ion=ion, coef_recom=rec, coef_tcx=tcx)
    want = direct * 1.0
else:
    got = ib._match_element_density_point(None, helium, [], ne, te, tcx_donor=hydrogen, tcx_donor_density=nd, coef_ion=ion, coef_recom=rec, coef_tcx=tcx)
    want = direct * ne / sum(i * v for i, v in enumerate(direct))
print(json.dumps({"helper": [float(v) for v in got], "with_cx_donor": [float(v) for v in want], "equal": bool(np.allclose(got, want, rtol=1e-6))}))
''' % fn
    out = run_native(ctx, code)
    return {'confirmed': bool(out) and out.get('equal') is False, 'input': '%s(helium, n_e=1e19, t_e=10, CX donor hydrogen 5e18 with supplied coefficient lists)' % fn,
            'observed': out, 'expected': 'abundances of the balance with the CX terms'}


def bounded_entry_points(ctx):
    """Bounded stand-in (NOT a proof) for the numpy-polymorphic normalisation layer: the public entry points must agree across input kinds
    (scalar / ndarray / Function1D), fractions lie in [0, 1] and sum to one, densities = fractions x element density, and neutrality
    matching returns densities whose charge plus the charge of the GIVEN species equals n_e - whatever the key insertion order of the
    {charge: density} dictionaries of the given species."""
    from replaylib.native import run_native
    n = 4 if ctx['tier'] == 'quick' else 30
    code = '''
import random, numpy as np
from raysect.core.math.function.float import Interpolator1DArray
from cherab.core import AtomicData
from cherab.core.atomic import hydrogen, helium, carbon
from cherab.tools.plasmas.ionisation_balance import fractional_abundance, from_elementdensity, match_plasma_neutrality
class R:
    def __init__(self, a, th): self.a, self.th = a, th
    def __call__(self, n_e, t_e): return self.a * np.exp(-self.th / t_e) * (1 + 1e-21 * n_e)
class Data(AtomicData):
    def __init__(self, k): self.k = k
    def ionisation_rate(self, ion, charge): return R(1e-14 * self.k / (charge + 1), 13.6 * (charge + 1) ** 2 / ion.atomic_number ** 0.5)
    def recombination_rate(self, ion, charge): return R(2e-19 * charge ** 2 / self.k, -5.0 * charge)
    def thermal_cx_rate(self, donor, donor_charge, receiver, charge): return R(1e-15 * charge, 1.0)
rnd = random.Random(%d)
bad = []; cases = 0
def electrons(sp): return sum(q * np.asarray(v, dtype=float) for q, v in sp.items())
for trial in range(%d):
    data = Data(rnd.uniform(0.5, 2.0))
    x = np.linspace(0, 1, 5)
    ne = 5e19 * (1 - 0.8 * x ** 2) * rnd.uniform(0.5, 2); te = 400.0 * (1 - x ** 2) ** 2 + rnd.uniform(3, 30)
    donor = 1e16 * np.exp(4 * (x - 1))
    for kw_s, kw_a in (({}, {}), ({"tcx_donor": hydrogen, "tcx_donor_n": None}, None)):
        # fractional abundance: array input vs point-by-point scalar input vs Function1D input
        if kw_s:
            arr = fractional_abundance(data, carbon, ne, te, tcx_donor=hydrogen, tcx_donor_n=donor)
            pts = [fractional_abundance(data, carbon, float(ne[i]), float(te[i]), tcx_donor=hydrogen, tcx_donor_n=float(donor[i])) for i in range(len(x))]
            fun = fractional_abundance(data, carbon, Interpolator1DArray(x, ne, "linear", "none", 0), Interpolator1DArray(x, te, "linear", "none", 0),
                                       tcx_donor=hydrogen, tcx_donor_n=Interpolator1DArray(x, donor, "linear", "none", 0), free_variable=x)
        else:
            arr = fractional_abundance(data, carbon, ne, te)
            pts = [fractional_abundance(data, carbon, float(ne[i]), float(te[i])) for i in range(len(x))]
            fun = fractional_abundance(data, carbon, Interpolator1DArray(x, ne, "linear", "none", 0), Interpolator1DArray(x, te, "linear", "none", 0), free_variable=x)
        cases += 1
        tot = sum(np.asarray(v) for v in arr.values())
        if sorted(arr) != list(range(7)) or not np.allclose(tot, 1.0, rtol=1e-9) or any(np.any(np.asarray(v) < -1e-12) or np.any(np.asarray(v) > 1 + 1e-12) for v in arr.values()):
            bad.append({"trial": trial, "what": "fractions not in [0,1] / do not sum to one", "cx": bool(kw_s)})
        for q in range(7):
            if not np.allclose(np.asarray(arr[q]).ravel(), [float(np.asarray(p[q]).ravel()[0]) for p in pts], rtol=1e-7, atol=1e-14):
                bad.append({"trial": trial, "what": "array input differs from scalar inputs", "charge": q, "cx": bool(kw_s)}); break
            if not np.allclose(np.asarray(arr[q]).ravel(), np.asarray(fun[q]).ravel(), rtol=1e-7, atol=1e-14):
                bad.append({"trial": trial, "what": "Function1D input differs from array input", "charge": q, "cx": bool(kw_s)}); break
    # Function1D profiles on an INTEGER-typed coordinate (np.arange): same answer as the evaluated profiles passed as float arrays
    xi = np.arange(4)
    f_ne = Interpolator1DArray(np.array([0., 1., 2., 3.]), np.array([1.3e18, 2.6e18, 3.9e18, 5.2e18]), "linear", "none", 0)
    f_te = Interpolator1DArray(np.array([0., 1., 2., 3.]), np.array([2.6, 20.2, 37.8, 55.4]), "linear", "none", 0)
    cases += 1
    fa = fractional_abundance(data, carbon, np.array([f_ne(float(v)) for v in xi]), np.array([f_te(float(v)) for v in xi]))
    try:
        fi = fractional_abundance(data, carbon, f_ne, f_te, free_variable=xi)
        di = from_elementdensity(data, carbon, 6e17 * np.ones(4), f_ne, f_te, free_variable=xi)
    except Exception as e:
        bad.append({"trial": trial, "what": "Function1D inputs on an integer-typed free variable raise", "error": repr(e)[:120]}); fi = di = None
    if fi is not None and (any(not np.allclose(np.asarray(fi[q]).ravel(), np.asarray(fa[q]).ravel(), rtol=1e-7, atol=1e-14) for q in range(7)) or \
            any(not np.allclose(np.asarray(di[q]).ravel(), np.asarray(fa[q]).ravel() * 6e17, rtol=1e-7, atol=1e-3) for q in range(7))):
        bad.append({"trial": trial, "what": "Function1D inputs on an integer-typed free variable differ from the same profiles given as float arrays"})
    # densities and neutrality matching, species dictionaries in several key orders
    n_c = from_elementdensity(data, carbon, 6e17 * np.ones_like(ne), ne, te)
    n_he = from_elementdensity(data, helium, 2e18 * np.ones_like(ne), ne, te)
    frac = fractional_abundance(data, carbon, ne, te)
    cases += 1
    if any(not np.allclose(np.asarray(n_c[q]), np.asarray(frac[q]) * 6e17, rtol=1e-9) for q in range(7)):
        bad.append({"trial": trial, "what": "from_elementdensity != fractions x element density"})
    ref = None
    for name, oc, oh in (("ascending", list(range(7)), [0, 1, 2]), ("descending", list(range(6, -1, -1)), [2, 1, 0]), ("dominant first", [4, 0, 1, 2, 3, 5, 6], [2, 0, 1])):
        species = [{q: n_c[q] for q in oc}, {q: n_he[q] for q in oh}]
        n_h = match_plasma_neutrality(data, hydrogen, species, ne, te)
        cases += 1
        given = electrons(n_c) + electrons(n_he)
        total = given + electrons(n_h)
        room = given < ne            # where the given species already exceed n_e the matched element is clamped to zero density
        okn = np.allclose(total[room], ne[room], rtol=1e-7) and all(np.allclose(np.asarray(v).ravel()[~room], 0.0) for v in n_h.values())
        if not okn or any(np.any(np.asarray(v) < 0) for v in n_h.values()):
            bad.append({"trial": trial, "what": "neutrality not matched", "key_order_of_given_species": name, "max_rel_error": float(np.abs(total[room] / ne[room] - 1).max()) if room.any() else None})
        bulk = np.array([np.asarray(n_h[0]).ravel(), np.asarray(n_h[1]).ravel()])
        if ref is None: ref = bulk
        elif not np.allclose(bulk, ref, rtol=1e-9):
            bad.append({"trial": trial, "what": "result depends on the key order of the species dictionaries", "key_order": name})
print(json.dumps({"cases": cases, "bad": bad[:6]}))
''' % (ctx['seed'] + 9, n)
    out = run_native(ctx, code, timeout=900)
    return {'name': 'ionisation balance entry points: scalar / ndarray / Function1D agreement, normalisation, neutrality for any key order (BOUNDED stand-in, not counted as proved)',
            'ok': bool(out) and out.get('bad') == [], 'detail': out, 'bound': '%d random rate sets x profiles of 5 points, seed %d' % (n, ctx['seed'] + 9)}


BOUNDED = [bounded_entry_points]


# ------------------------------------------------------------------------------------------------ argument forwarding of the wrappers
def _binder(file, callee):
    """Custom external for a wrapped entry point: binds the call to the REAL signature of `callee` (positional or keyword, defaults filled
    in from the def) and logs one event `fwd:<callee>` whose keyword map is {parameter: value}; the result is an opaque mapping."""
    def fn(eng, st, fr, recv, args, kwargs):
        from pyvc.values import Event, Unsupported
        d = eng.tree.find_func(file, callee)
        a = d.args
        names = [x.arg for x in a.args]
        bound = {}
        if len(args) > len(names):
            raise Unsupported('too many positional arguments for %s' % callee)
        for nm, v in zip(names, args):
            bound[nm] = v
        for k, v in kwargs.items():
            if k in bound or (k not in names and k not in [x.arg for x in a.kwonlyargs]):
                raise Unsupported('bad keyword %s for %s' % (k, callee))
            bound[k] = v
        defaults = dict(zip(names[len(names) - len(a.defaults):], a.defaults))
        for x, dflt in zip(a.kwonlyargs, a.kw_defaults):
            if dflt is not None:
                defaults[x.arg] = dflt
        for nm, dn in defaults.items():
            if nm not in bound:
                bound[nm] = eng.ev(dn, st, fr)
        res = eng.new_obj(st, 'dict', None, None, 0, name='profiles')
        st.log.append(Event('fwd:' + callee, None, (), bound, res))
        return res
    return fn


def forwarded(callee, mapping):
    """Ensures-clause: exactly one call of `callee`, and each of its parameters named in `mapping` receives the wrapper's own argument."""
    def clause(P):
        evs = [e for e in P.st.log if e.label == 'fwd:' + callee]
        out = [('forwarding.%s.one_call' % callee, z3.BoolVal(len(evs) == 1))]
        if len(evs) != 1:
            return out
        for param, text in mapping.items():
            if param not in evs[0].kwargs:
                out.append(('forwarding.%s.%s' % (callee, param), z3.BoolVal(False)))
                continue
            out.append(('forwarding.%s.%s' % (callee, param), as_bool(P.eng.equal(evs[0].kwargs[param], P.value(text), P.st, P.frame))))
        return out
    return clause


ALIASES = {"n_e": ["n_e", "n_e_profile"], "t_e": ["t_e", "t_e_profile"], "element_density": ["element_density", "n_element"],
           "n_species": ["n_species", "species_density"], "free_variable": ["free_variable", "psin_1d"]}
WRAPPERS = [("interpolators1d_fractional", "fractional_abundance"), ("interpolators2d_fractional", "fractional_abundance"),
            ("interpolators1d_from_elementdensity", "from_elementdensity"), ("interpolators2d_from_elementdensity", "from_elementdensity"),
            ("interpolators1d_match_plasma_neutrality", "match_plasma_neutrality"), ("interpolators2d_match_plasma_neutrality", "match_plasma_neutrality"),
            ("equilibrium_map3d_fractional", "interpolators1d_fractional"), ("equilibrium_map3d_from_elementdensity", "interpolators1d_from_elementdensity"),
            ("equilibrium_map3d_match_plasma_neutrality", "match_plasma_neutrality")]


def register_forwarding(reg, tree):
    """Every entry point that only re-packages another one hands ALL its physical arguments through - in particular the thermal-CX donor,
    its density and its CHARGE (statement: 'all entry points agree ... with or without a CX donor').  The call is bound to the callee's real
    signature, so positional / keyword spelling does not matter."""
    def params(name):
        a = tree.find_func(F, name).args
        return [x.arg for x in a.args] + [x.arg for x in a.kwonlyargs]
    for wrapper, callee in WRAPPERS:
        wp, cp = params(wrapper), params(callee)
        mapping = {}
        for q in cp:
            src = next((c for c in ALIASES.get(q, [q]) if c in wp), None)
            if src is not None:
                mapping[q] = src
        reg.contract(F, wrapper, PROP, name='forwarding',
            sorts=dict({k: "ref" for k in wp}, tcx_donor_charge="int"),
            externals={callee: {'kind': 'custom', 'override': True, 'fn': _binder(F, callee), 'doc': '%s (verified separately): call bound to its real signature' % callee},
                       '.items': {'kind': 'pure', 'result': 'seq:ref', 'doc': 'dict.items()'},
                       '.map3d': {'kind': 'pure', 'result': 'ref', 'doc': 'EFITEquilibrium.map3d'},
                       'Interpolator1DArray()': {'kind': 'pure', 'result': 'ref', 'doc': 'raysect interpolator'},
                       'Interpolator2DArray()': {'kind': 'pure', 'result': 'ref', 'doc': 'raysect interpolator'}},
            flags={'stmts_before_loop': True},
            ensures=[("arguments_forwarded", forwarded(callee, mapping))],
            note='%s -> %s: %s' % (wrapper, callee, mapping))


_register_solver = register


def register(reg, ctx=None):
    _register_solver(reg)
    from pyvc.source import SourceTree
    tree = ctx['tree'] if ctx else SourceTree('/repo')
    register_forwarding(reg, tree)
