"""Helpers shared by the contract modules."""
import z3
from pyvc.smt import Obligation
from pyvc.values import Obj, to_real, to_ref, is_z3


def as_bool(t):
    return z3.BoolVal(t) if isinstance(t, bool) else t


def call_cases(labels, cases, name='calls'):
    """Ensures-clause (callable) over the call log of one path.

    labels: the call labels that are observed (all other log entries are ignored).
    cases:  list of (when, expected) with `when` a clause on the entry state and `expected` a list of
            (label, [argument expressions or None], optional dict(loop='k', lo=expr, hi=expr, cond=expr)).
    For each case the obligation is  when ==> the observed calls are exactly the expected ones, with equal arguments
    (if the number or labels of the calls on this path differ, the obligation degenerates to `not when`)."""
    def clause(P):
        evs = [e for e in P.st.log if e.label in labels or e.label.split('.')[-1] in labels]
        out = []
        for ci, (when, expected) in enumerate(cases):
            w = as_bool(P.term(when))
            ok = len(evs) == len(expected) and all(
                (e.label == x[0] or e.label.split('.')[-1] == x[0]) for e, x in zip(evs, expected))
            tag = '%s.case%d' % (name, ci)
            if not ok:
                out.append((tag + '.shape', z3.Not(w)))
                continue
            results = {'r%d' % j: ev.result for j, ev in enumerate(evs)}
            for j, (ev, exp) in enumerate(zip(evs, expected)):
                opts = exp[2] if len(exp) > 2 else {}
                bind = dict(results)
                conj = []
                if opts.get('loop'):
                    if not ev.loop:
                        out.append((tag + '.call%d.loop' % j, z3.Not(w)))
                        continue
                    k, lo, hi, _ = ev.loop[0]
                    bind[opts['loop']] = k
                    conj.append(as_bool(P.eng.equal(lo, P.value(opts['lo'], **bind), P.st, P.frame)))
                    conj.append(as_bool(P.eng.equal(hi, P.value(opts['hi'], **bind), P.st, P.frame)))
                    if ev.cond and not opts.get('cond'):
                        # call happens only on some iterations but the spec says on all
                        conj.append(z3.And(*ev.cond))
                elif ev.loop:
                    out.append((tag + '.call%d.loop' % j, z3.Not(w)))
                    continue
                hyp_k = []
                if ev.loop:
                    k, lo, hi, _ = ev.loop[0]
                    hyp_k = [k >= lo, k < hi]

                def wrapg(goal):
                    if hyp_k:
                        goal = z3.Implies(z3.And(*hyp_k), goal)
                    return z3.Implies(w, goal)
                if conj:
                    out.append((tag + '.call%d.loop' % j, wrapg(z3.And(*conj))))
                if opts.get('recv'):
                    out.append((tag + '.call%d.recv' % j, wrapg(as_bool(P.eng.identical(ev.recv, P.value(opts['recv'], **bind))))))
                for ai, text in enumerate(exp[1]):
                    if text is None:
                        continue
                    want = P.value(text, **bind)
                    got = ev.args[ai] if ai < len(ev.args) else None
                    out.append((tag + '.call%d.arg%d' % (j, ai), wrapg(as_bool(P.eng.equal(got, want, P.st, P.frame)))))
                for kw, text in (opts.get('kwargs') or {}).items():
                    if kw not in ev.kwargs:
                        out.append((tag + '.call%d.kw_%s' % (j, kw), z3.Not(w)))
                        continue
                    want = P.value(text, **bind)
                    out.append((tag + '.call%d.kw_%s' % (j, kw), wrapg(as_bool(P.eng.equal(ev.kwargs[kw], want, P.st, P.frame)))))
                if 'kwargs' in opts and opts.get('exact_kwargs', True):
                    extra_kw = sorted(set(ev.kwargs) - set(opts['kwargs']) - {'name'})
                    if extra_kw:
                        out.append((tag + '.call%d.unexpected_kwargs' % j, z3.Not(w)))
        return out
    clause.__doc__ = 'call-argument obligations for %s' % (labels,)
    return clause


def exhaustive(whens, name='cases.exhaustive'):
    def clause(P):
        ts = [as_bool(P.term(w)) for w in whens]
        return [(name, z3.Or(*ts))]
    return clause


def lemma(name, prop, hyps, goal, detail=''):
    return Obligation('%s/lemma/%s' % (prop, name), hyps, goal, meta={'detail': detail, 'function': 'lemma:' + name})


def structural(name, prop, ok, detail='', standin=None):
    """Obligation on the parse tree itself (decided without a solver but reported uniformly).  It PINS a statement: when it fails the code
    has changed, which is a violation only if the behaviour changed.  `standin` names the bounded native stand-in (a BOUNDED check with the
    same tag in its 'covers' list) that exercises the pinned code: if that stand-in ran and found no failing input, the failed pin is
    reported as UNDECIDED (a behaviour-preserving rewrite), not as a violation."""
    return Obligation('%s/%s' % (prop, name), [], z3.BoolVal(bool(ok)), meta={'detail': detail, 'pin': True, 'standin': standin})


# ---------------------------------------------------------------------------------------------- coherence (derived state)
import ast as _ast


def self_attrs_read(fn):
    """Attributes `self.<a>` loaded in a function body (the read set of a builder)."""
    out = set()
    for n in _ast.walk(fn):
        if isinstance(n, _ast.Attribute) and isinstance(n.value, _ast.Name) and n.value.id == 'self' and isinstance(n.ctx, _ast.Load):
            out.add(n.attr)
    return out


def self_attrs_written(fn):
    out = set()
    for n in _ast.walk(fn):
        if isinstance(n, _ast.Attribute) and isinstance(n.value, _ast.Name) and n.value.id == 'self' and isinstance(n.ctx, _ast.Store):
            out.add(n.attr)
    return out


def class_setters(tree, file, cls):
    """{property name: setter FunctionDef} of a class (parse tree)."""
    mod = tree.module(file)
    out = {}
    for c in mod.body:
        if isinstance(c, _ast.ClassDef) and c.name == cls:
            for n in c.body:
                if isinstance(n, _ast.FunctionDef):
                    for d in n.decorator_list:
                        u = _ast.unparse(d)
                        if u.endswith('.setter'):
                            out[u[:-7]] = n
    return out


def rebuilt_after_writes(label, attrs, recv="self", name=None, strict=False):
    """Ensures-clause: the derived state is rebuilt from the FINAL parameter values - the last logged call `label` (the builder, or
    a notification) has receiver `recv` and none of the attributes `attrs` of self was written after it."""
    def clause(P):
        tag = name or ('coherence.' + label)
        evs = [e for e in P.st.log if e.label == label or e.label.split('.')[-1] == label]
        if not evs and strict:
            # constructors: there is no earlier consistent state to fall back on - the builder must have run
            return [(tag, z3.BoolVal(False))]
        if not evs:
            # no rebuild on this path: coherent iff nothing the derived state depends on was changed since entry (the invariant held on entry)
            me = P.value("self")
            from pyvc.values import sortkey
            conj = []
            for a in sorted(attrs):
                fid = '%s:%s' % (a, sortkey(P.eng.attr_spec(P.frame, me, a)))
                conj.append(P.eng.field(P.st, fid)[me.ref] == P.eng.field(P.entry, fid)[me.ref])
            return [(tag, z3.And(*conj) if conj else z3.BoolVal(False))]
        ev = evs[-1]
        if ev.loop:
            return [(tag, z3.BoolVal(False))]
        conj = [as_bool(P.eng.identical(ev.recv, P.value(recv)))]
        me = P.value("self")
        for a in sorted(attrs):
            spec = P.eng.attr_spec(P.frame, me, a)
            from pyvc.values import sortkey
            fid = '%s:%s' % (a, sortkey(spec))
            cur = P.eng.field(P.st, fid)
            then = ev.heap.get(fid) if ev.heap is not None else None
            if then is None:
                then = P.eng.heap0.get(fid, cur)
            conj.append(cur[me.ref] == then[me.ref])
        return [(tag, z3.And(*conj))]
    clause.__doc__ = 'derived state rebuilt (%s) after the last write to %s' % (label, sorted(attrs))
    return clause


def logged_self(name, result='none'):
    return {'kind': 'logged', 'result': result, 'override': True, 'label': name, 'doc': 'builder %s (verified by its own contract)' % name}


def method_reads(tree, file, cls, name, depth=2):
    """Read set of a method: attributes of self it loads, transitively through methods of self it calls (resolved along the MRO)."""
    ci, fn = tree.lookup_method(cls, name)
    if fn is None:
        return set()
    out = set(self_attrs_read(fn))
    if depth > 0:
        for n in _ast.walk(fn):
            if isinstance(n, _ast.Call) and isinstance(n.func, _ast.Attribute) and isinstance(n.func.value, _ast.Name) and n.func.value.id == 'self':
                out |= method_reads(tree, file, cls, n.func.attr, depth - 1)
    # properties of self read by the method (self.bins -> _bins)
    for a in list(out):
        ci2, prop = tree.lookup_property(cls, a)
        if prop is not None and 'get' in prop:
            out |= self_attrs_read(prop['get'])
    return out


def setter_contracts(reg, PROP, tree, file, cls, builder, label=None, recv="self", extra_depends=(), externals=None, sorts=None, skip=()):
    """For every setter of `cls` that writes an attribute in the read set of `builder`: it must end with the builder (logged) run after
    its last write; a rejected value raises ValueError and changes nothing."""
    tree.prefer_stem = tree.abspath(file).rsplit('.', 1)[0]
    depends = (method_reads(tree, file, cls, builder) if builder else set()) | set(extra_depends)
    label = label or builder
    ext = dict(externals or {})
    if builder:
        ext['%s.%s' % (cls, builder)] = logged_self(builder)
        for nm in tree.mro(cls)[1:]:
            if tree.lookup_method(nm, builder)[1] is not None:
                ext['%s.%s' % (nm, builder)] = logged_self(builder)
    n = 0
    for nm in tree.mro(cls):
        ci = tree.class_info(nm)
        if ci is None:
            continue
        for prop, fn in class_setters(tree, ci.file, nm).items():
            if prop in skip:
                continue
            writes = self_attrs_written(fn)
            if not (writes & depends):
                continue
            n += 1
            reg.contract(ci.file, "%s.%s.setter" % (nm, prop), PROP, name='%s:%s' % (cls, label), self_cls=cls, sorts=dict(sorts or {}),
                externals=ext, raises_any=["ValueError"],
                ensures=[("coherent", rebuilt_after_writes(label, sorted(writes & depends), recv=recv,
                                                           name='coherence.%s.%s' % (prop, label)))],
                note='setter %s writes %s which %s reads' % (prop, sorted(writes & depends), label))
    return depends, n




def class_getters(tree, file, cls):
    """{property name: backing attribute} for the getters of a class whose body is exactly `return self.<attr>` (parse tree)."""
    mod = tree.module(file)
    out = {}
    for c in mod.body:
        if isinstance(c, _ast.ClassDef) and c.name == cls:
            for n in c.body:
                if isinstance(n, _ast.FunctionDef) and any(_ast.unparse(d) == 'property' for d in n.decorator_list):
                    body = [b for b in n.body if not (isinstance(b, _ast.Expr) and isinstance(b.value, _ast.Constant))]
                    if len(body) == 1 and isinstance(body[0], _ast.Return) and isinstance(body[0].value, _ast.Attribute) \
                            and isinstance(body[0].value.value, _ast.Name) and body[0].value.value.id == 'self':
                        out[n.name] = body[0].value.attr
    return out


def accessor_contracts(reg, PROP, tree, file, cls, externals=None, sorts=None, skip=(), value_sort="real"):
    """'Reported parameters track what was set': for every property of `cls` (own or inherited, most derived definition) whose getter is
    `return self._a` and which has a setter, the setter - when it returns normally - leaves `self._a == value`, and the backing attribute
    of every OTHER such property of pre-existing objects is unchanged (frame).  Attributes that back no getter may be written freely."""
    tree.prefer_stem = tree.abspath(file).rsplit('.', 1)[0]
    backing, setters = {}, {}
    for nm in tree.mro(cls):
        ci = tree.class_info(nm)
        if ci is None:
            continue
        g = class_getters(tree, ci.file, nm)
        st = class_setters(tree, ci.file, nm)
        for prop, attr in g.items():
            backing.setdefault(prop, attr)
        for prop, fn in st.items():
            setters.setdefault(prop, (ci.file, nm, fn))
    n = 0
    for prop, (f, nm, fn) in sorted(setters.items()):
        if prop in skip or prop not in backing:
            continue
        own = backing[prop]
        others = {a for p_, a in backing.items() if p_ != prop} - {own}
        allowed = sorted((self_attrs_written(fn) - others) | {own})
        n += 1
        reg.contract(f, "%s.%s.setter" % (nm, prop), PROP, name='%s:stores' % cls, self_cls=cls, sorts=dict(sorts or {}, value=value_sort),
            externals=dict(externals or {}), raises_any=["ValueError", "TypeError"],
            ensures=[("reported_value", "self.%s == value" % own)], modifies=allowed,
            note='setter %s: getter returns self.%s; other reported parameters %s untouched' % (prop, own, sorted(others)))
    return n


def constructor_contract(reg, PROP, tree, file, cls, builder, label=None, recv="self", extra_depends=(), externals=None, sorts=None, raises_any=("ValueError",)):
    """The constructor establishes the coherence invariant: on every normal exit the builder (or notification) `label` has run AFTER the
    last write to any attribute it depends on - including the placeholder values a constructor assigns before it calls the setters."""
    tree.prefer_stem = tree.abspath(file).rsplit('.', 1)[0]
    depends = (method_reads(tree, file, cls, builder) if builder else set()) | set(extra_depends)
    label = label or builder
    ext = dict(externals or {})
    if builder:
        for nm in tree.mro(cls):
            if tree.lookup_method(nm, builder)[1] is not None:
                ext['%s.%s' % (nm, builder)] = logged_self(builder)
    ci, fn = tree.lookup_method(cls, '__init__')
    if fn is None:
        return 0
    reg.contract(ci.file, "%s.__init__" % ci.name, PROP, name='ctor:%s:%s' % (cls, label), self_cls=cls, sorts=dict(sorts or {}), externals=ext,
        raises_any=list(raises_any),
        ensures=[("established", rebuilt_after_writes(label, sorted(depends), recv=recv, name='coherence.__init__.%s' % label, strict=True))],
        note='constructor of %s must leave %s consistent with %s' % (cls, label, sorted(depends)))
    return 1


def bounded_conversions(ctx):
    """Bounded stand-in (NOT a proof) for cherab/core/utility/conversion.py (used by the beam, rate and parser properties): every conversion
    class against an independent formula with CODATA constants, forward and inverse, on scalars and arrays, incl. round trips."""
    from replaylib.native import run_native
    code = '''
import numpy as np, random
from cherab.core.utility import conversion as C
e, amu, h, c = 1.602176634e-19, 1.66053906660e-27, 6.62607015e-34, 299792458.0
rnd = random.Random(4)
bad = []; cases = 0
def close(a, b): return np.allclose(a, b, rtol=1e-7, atol=0)      # CODATA revisions differ at the 1e-9 level
for trial in range(60):
    x = rnd.choice([rnd.uniform(1e-3, 1e6), np.array([rnd.uniform(1e-3, 1e6) for _ in range(3)])]); w = rnd.uniform(100, 2000)
    checks = [("EvAmuToMS.to", C.EvAmuToMS.to(x), np.sqrt(2 * np.asarray(x) * e / amu)), ("EvAmuToMS.inv", C.EvAmuToMS.inv(x), np.asarray(x) ** 2 * amu / (2 * e)),
              ("PhotonToJ.to", C.PhotonToJ.to(x, w), np.asarray(x) * h * c / (w * 1e-9)), ("PhotonToJ.inv", C.PhotonToJ.inv(x, w), np.asarray(x) * (w * 1e-9) / (h * c)),
              ("AmuToKg.to", C.AmuToKg.to(x), np.asarray(x) * amu), ("AmuToKg.inv", C.AmuToKg.inv(x), np.asarray(x) / amu),
              ("EvToJ.to", C.EvToJ.to(x), np.asarray(x) * e), ("EvToJ.inv", C.EvToJ.inv(x), np.asarray(x) / e),
              ("Cm3ToM3.to", C.Cm3ToM3.to(x), np.asarray(x) * 1e-6), ("Cm3ToM3.inv", C.Cm3ToM3.inv(x), np.asarray(x) * 1e6),
              ("PerCm3ToPerM3.to", C.PerCm3ToPerM3.to(x), np.asarray(x) * 1e6), ("PerCm3ToPerM3.inv", C.PerCm3ToPerM3.inv(x), np.asarray(x) * 1e-6),
              ("AngstromToNm.to", C.AngstromToNm.to(x), np.asarray(x) * 0.1), ("AngstromToNm.inv", C.AngstromToNm.inv(x), np.asarray(x) * 10.0),
              ("EvAmuToMS round trip", C.EvAmuToMS.inv(C.EvAmuToMS.to(x)), np.asarray(x)), ("PhotonToJ round trip", C.PhotonToJ.inv(C.PhotonToJ.to(x, w), w), np.asarray(x))]
    for name, got, want in checks:
        cases += 1
        if not close(got, want):
            bad.append({"conversion": name, "x": np.asarray(x).tolist(), "got": np.asarray(got).tolist(), "expected": np.asarray(want).tolist()})
    # the conversions are pure functions of their arguments: a value close to an earlier result must not be "snapped" to it
    for delta in (0.0, 1e-9, 1e-6, -3e-6, 4e-5):
        E = rnd.uniform(1e3, 1e5); v = C.EvAmuToMS.to(E); vv = v * (1 + delta); cases += 1
        got = C.EvAmuToMS.inv(vv); want = vv ** 2 / C.EvAmuToMS.conversion_factor
        if not np.allclose(got, want, rtol=1e-12, atol=0):
            bad.append({"conversion": "EvAmuToMS.inv after EvAmuToMS.to(%r)" % E, "x": vv, "got": float(got), "expected": float(want)})
        p = C.PhotonToJ.to(E, w); pp = p * (1 + delta); cases += 1
        got = C.PhotonToJ.inv(pp, w); want = pp * w / C.PhotonToJ.conversion_factor
        if not np.allclose(got, want, rtol=1e-12, atol=0):
            bad.append({"conversion": "PhotonToJ.inv after PhotonToJ.to", "x": pp, "got": float(got), "expected": float(want)})
    if bad: break
print(json.dumps({"cases": cases, "bad": bad[:4]}))
'''
    out = run_native(ctx, code, timeout=300)
    return {'name': 'unit conversions vs independent formulas with CODATA 2018 constants (BOUNDED stand-in, not counted as proved)',
            'ok': bool(out) and out.get('bad') == [], 'detail': out, 'covers': ['conversion'], 'bound': '60 random scalars / arrays per conversion, fixed seed'}
