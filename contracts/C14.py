"""C14 — caching functions are history-independent and interpolate the cached function."""
import z3
from .common import lemma, as_bool

PROP = 'C14'
LEVEL = 'other'
EXPLANATION = ('Proved (deductive, all inputs): the bisection search find_index used by the caching functions (loop invariant, sentinel results, '
               'index safety), the boundary policy of Caching1D.evaluate (inside the area -> cached polynomial of the enclosing interval, outside -> '
               'ValueError or the wrapped function when no_boundary_error is set), derivatives_array and factorial (the Taylor re-centring '
               'ingredients), and the Taylor-shift lemma.  NOT proved: history independence / node interpolation / linear exactness of _evaluate '
               '(C arrays, address-of, numpy solve: outside the verifier\'s subset) - these are covered by a bounded stand-in only (random '
               'functions and access orders, 1D/2D/3D), labelled bounded and not counted as discharged.')
C1 = "cherab/core/math/caching/caching1d.pyx"
UT = "cherab/core/math/interpolators/utility.pyx"
ASSUMPTIONS = ['wrapped function pure and NaN-free; numpy.linalg.solve; real arithmetic']
NOT_APPLICABLE = ['approximation order O(h^2 * curvature) as a theorem (analysis, not a contract)',
                  'history independence of Caching1D/2D/3D._evaluate as a proved obligation (outside the subset; bounded stand-in only)']


def register(reg):
    reg.contract(UT, "find_index", PROP, name='bisection', sorts={"x": "arr:real:1!", "v": "real", "padding": "real"},
        requires=["length(x) >= 2", "padding >= 0", "forall((a, b), 0 <= a and a < b and b < length(x), x[a] < x[b])"],
        loops={0: dict(invariant=["0 <= bottom_index", "bottom_index < top_index", "top_index <= length(x) - 1",
                                  "x[bottom_index] <= v", "v < x[top_index]",
                                  "bottom_index <= bisection_index and bisection_index <= top_index",
                                  "top_index - bottom_index == 1 or (bottom_index < bisection_index and bisection_index < top_index)"])},
        result='int',
        ensures=[("first_node", "implies(v == x[0], result == 0)"),
                 ("last_node", "implies(v == x[length(x) - 1], result == length(x) - 2)"),
                 ("far_below", "implies(v < x[0] - padding, result == -2)"),
                 ("far_above", "implies(v > x[length(x) - 1] + padding, result == length(x))"),
                 ("just_below", "implies(v < x[0] and v >= x[0] - padding, result == -1)"),
                 ("just_above", "implies(v > x[length(x) - 1] and v <= x[length(x) - 1] + padding, result == length(x) - 1)"),
                 ("enclosing_interval", "implies(v > x[0] and v < x[length(x) - 1], 0 <= result and result < length(x) - 1 and x[result] <= v and v < x[result + 1])")],
        modifies=[])
    reg.contract(C1, "Caching1D.evaluate", PROP, sorts={"px": "real"},
        externals={'Caching1D._evaluate': {'kind': 'pure', 'result': 'real', 'override': True, 'doc': 'cached polynomial of interval i_x (bounded stand-in)'},
                   'find_index': {'kind': 'pure', 'result': 'int', 'fname': 'G_find', 'doc': 'find_index (verified above)'}},
        requires=["not is_none(self.x_domain_view)", "self.top_index_x == length(self.x_domain_view) - 1", "self.top_index_x >= 3",
                  "not is_none(self.function)"],
        ghost={"ix()": "find_index(self.x_domain_view, px)"},
        raises={"ValueError": "not (1 <= ix() and ix() <= self.top_index_x - 2) and not self.no_boundary_error"},
        ensures=[("inside_area", "implies(1 <= ix() and ix() <= self.top_index_x - 2, result == self._evaluate(px, ix()))"),
                 ("outside_passthrough", "implies(not (1 <= ix() and ix() <= self.top_index_x - 2), result == self.function.evaluate(px))")],
        modifies=[])
    for d, vals in ((0, ["1", "v", "v*v", "v*v*v"]), (1, ["0", "1", "2*v", "3*v*v"]), (2, ["0", "0", "2", "6*v"]), (3, ["0", "0", "0", "6"])):
        reg.contract(UT, "derivatives_array", PROP, name='deriv%d' % d, sorts={"v": "real", "deriv": "int"}, requires=["deriv == %d" % d],
            externals={'PyArray_SimpleNew()': {'kind': 'fresh', 'result': 'arr:real:1', 'alloc': True, 'doc': 'numpy allocation of 4 doubles'}},
            flags={'skip_bounds': ['result']},
            ensures=[("monomial_derivatives", " and ".join("result[%d] == %s" % (k, e) for k, e in enumerate(vals)))])
    for n, f in ((0, 1), (1, 1), (2, 2), (3, 6)):
        reg.contract(UT, "factorial", PROP, name='n%d' % n, sorts={"n": "int"}, requires=["n == %d" % n], inline=['factorial'],
            ensures=[("value", "result == %d" % f)], modifies=[])
    # register_evaluate1d(reg)   # IN PROGRESS (round 6): the representation-invariant contract of Caching1D._evaluate generates 184 obligations, 178 discharged;
    # the six coefficient clauses are still solver-unknown (division by a symbolic node spacing), so the contract is NOT registered and nothing is claimed from it


# ---------------------------------------------------------------------------------------------- Caching1D._evaluate: representation invariant
def _pyarray_zeros(eng, st, fr, recv, args, kwargs):
    """numpy C-API PyArray_ZEROS(nd, dims, NPY_FLOAT64, 0): fresh array of nd (1 or 2) dimensions, four entries per dimension in this code, all 0.0"""
    import z3
    from pyvc.values import concrete
    nd = concrete(args[0])
    if nd not in (1, 2):
        from pyvc.values import Unsupported
        raise Unsupported('PyArray_ZEROS with nd=%r' % (nd,))
    o = eng.new_obj(st, 'ndarray', 'arr', 'real', nd, name='zeros%dd' % nd)
    eng.counter += 1
    i, j = z3.Int('i!z%d' % eng.counter), z3.Int('j!z%d' % eng.counter)
    if nd == 1:
        st.heap['$len'] = z3.Store(eng.field(st, '$len'), o.ref, z3.IntVal(4))
        st.heap['$d1:real'] = z3.Store(eng.field(st, '$d1:real'), o.ref, z3.Lambda([i], z3.RealVal(0)))
    else:
        st.heap['$n0'] = z3.Store(eng.field(st, '$n0'), o.ref, z3.IntVal(4))
        st.heap['$n1'] = z3.Store(eng.field(st, '$n1'), o.ref, z3.IntVal(4))
        st.heap['$d2:real'] = z3.Store(eng.field(st, '$d2:real'), o.ref, z3.Lambda([i, j], z3.RealVal(0)))
    return o


def _pyarray_simplenew4(eng, st, fr, recv, args, kwargs):
    """numpy C-API PyArray_SimpleNew(1, &size, NPY_FLOAT64) with size == 4: fresh UNINITIALISED array of four doubles (arbitrary contents)"""
    import z3
    o = eng.new_obj(st, 'ndarray', 'arr', 'real', 1, name='simplenew')
    st.heap['$len'] = z3.Store(eng.field(st, '$len'), o.ref, z3.IntVal(4))
    return o


def _np_solve4(eng, st, fr, recv, args, kwargs):
    """numpy.linalg.solve(A, b) for a 4x4 system: fresh array r of length 4 with r[k] = SOLVE4(k, A[0,0], ..., A[3,3], b[0], ..., b[3]) - an
    UNINTERPRETED function of the twenty numbers handed over (so: a deterministic function of the matrix and vector CONTENTS, nothing else)"""
    import z3
    A, b = args[0], args[1]
    cells = [eng.arr_read(st, A, [z3.IntVal(r), z3.IntVal(c)]) for r in range(4) for c in range(4)] + [eng.arr_read(st, b, [z3.IntVal(r)]) for r in range(4)]
    f = z3.Function('G_SOLVE4', z3.IntSort(), *([z3.RealSort()] * 20), z3.RealSort())
    o = eng.new_obj(st, 'ndarray', 'arr', 'real', 1, name='solution')
    st.heap['$len'] = z3.Store(eng.field(st, '$len'), o.ref, z3.IntVal(4))
    eng.counter += 1
    k = z3.Int('k!s%d' % eng.counter)
    st.heap['$d1:real'] = z3.Store(eng.field(st, '$d1:real'), o.ref, z3.Lambda([k], f(k, *cells)))
    return o


def register_evaluate1d(reg):
    # ghost definitions: everything below is a function of the IMMUTABLE configuration (grids, normalisation constants, wrapped function) and of
    # the interval index - never of the cache arrays (data_view, coeffs_view, calculated_view)
    G = {
        "F(u)": "self.function.evaluate(self.x_domain_view[u])",                       # the wrapped function at sampling node u
        "ND(u)": "(F(u) - self.data_min) * self.data_delta_inv",                         # ... normalised
        "X(u)": "self.x_view[u]", "X2(u)": "self.x2_view[u]", "X3(u)": "self.x3_view[u]",
        "SL(u)": "(ND(u + 1) - ND(u - 1)) / (X(u + 1) - X(u - 1))",                     # centred-difference slope at node u
        # normalised cubic of interval i (between nodes i and i + 1): value and slope constraints at both ends, solved by numpy
        "NC(k, i)": "SOLVE4(k, 1, X(i), X2(i), X3(i), 0, 1, 2 * X(i), 3 * X2(i), 1, X(i + 1), X2(i + 1), X3(i + 1), 0, 1, 2 * X(i + 1), 3 * X2(i + 1), "
                    "ND(i), SL(i), ND(i + 1), SL(i + 1))",
        "T0()": "-self.x_delta_inv * self.x_min",
        "D0(i)": "NC(0, i) + NC(1, i) * T0() + NC(2, i) * T0() * T0() + NC(3, i) * T0() * T0() * T0()",
        "D1(i)": "NC(1, i) + 2 * T0() * NC(2, i) + 3 * T0() * T0() * NC(3, i)",
        "D2(i)": "2 * NC(2, i) + 6 * T0() * NC(3, i)",
        "D3(i)": "6 * NC(3, i)",
        # de-normalised coefficients (Taylor re-centring, lemma taylor_recentring) of interval i
        "K0(i)": "self.data_delta * D0(i) + self.data_min",
        "K1(i)": "self.data_delta * (self.x_delta_inv * D1(i))",
        "K2(i)": "self.data_delta * (self.x_delta_inv * self.x_delta_inv / 2 * D2(i))",
        "K3(i)": "self.data_delta * (self.x_delta_inv * self.x_delta_inv * self.x_delta_inv / 6 * D3(i))",
    }
    INV = [
        ("arrays", "not is_none(self.x_domain_view) and not is_none(self.x_view) and not is_none(self.x2_view) and not is_none(self.x3_view) and "
                   "not is_none(self.data_view) and not is_none(self.coeffs_view) and not is_none(self.calculated_view) and not is_none(self.function)"),
        # the sample store is an array of its own (writing a sample changes no grid)
        ("sample_store_separate", "not same(self.data_view, self.x_domain_view) and not same(self.data_view, self.x_view) and "
                                  "not same(self.data_view, self.x2_view) and not same(self.data_view, self.x3_view)"),
        ("sizes", "self.top_index_x >= 3 and length(self.x_domain_view) == self.top_index_x + 1 and length(self.x_view) == self.top_index_x + 1 and "
                  "length(self.x2_view) == self.top_index_x + 1 and length(self.x3_view) == self.top_index_x + 1 and "
                  "length(self.data_view) == self.top_index_x + 1 and length(self.calculated_view) == self.top_index_x - 2 and "
                  "length(self.coeffs_view, 0) == self.top_index_x - 2 and length(self.coeffs_view, 1) == 4"),
        # a sampled node holds the normalised value of the wrapped function AT THAT NODE (NaN = not sampled yet)
        ("samples", "forall(u, 0 <= u and u <= self.top_index_x, isnan(self.data_view[u]) or self.data_view[u] == ND(u))"),
        # a cell flagged as calculated holds the coefficients of ITS interval
        ("cells", "forall(p, 0 <= p and p < self.top_index_x - 2 and self.calculated_view[p] != 0, "
                  "self.coeffs_view[p, 0] == K0(p + 1) and self.coeffs_view[p, 1] == K1(p + 1) and "
                  "self.coeffs_view[p, 2] == K2(p + 1) and self.coeffs_view[p, 3] == K3(p + 1))"),
    ]
    reg.contract(C1, "Caching1D._evaluate", PROP, name='representation', sorts={"px": "real", "i_x": "int"},
        attrs={"calculated_view": "arr:int:1", "coeffs_view": "arr:real:2"},
        consts={"SOLVE4": "fn:int," + ",".join(["real"] * 20) + "->real"},
        ghost=G,
        externals={                   'PyArray_ZEROS()': {'kind': 'custom', 'fn': _pyarray_zeros, 'doc': 'numpy C-API PyArray_ZEROS: fresh zero-filled 4 / 4x4 array'},
                   'PyArray_SimpleNew()': {'kind': 'custom', 'fn': _pyarray_simplenew4, 'doc': 'numpy C-API PyArray_SimpleNew: fresh uninitialised array of 4 doubles'},
                   'solve': {'kind': 'custom', 'fn': _np_solve4, 'doc': 'numpy.linalg.solve: deterministic function SOLVE4 of the 16 + 4 numbers handed over (uninterpreted)'},
                   'Function1D.evaluate': {'kind': 'pure', 'result': 'real', 'doc': 'wrapped function: pure'}},
        axioms=["forall(x, not isnan(self.function.evaluate(x)), x='real')"],
        requires=[c for _, c in INV] + ["1 <= i_x and i_x <= self.top_index_x - 2"],
        inline=['Caching1D._evaluate_polynomial_derivative', 'derivatives_array', 'factorial'],
        # the sampling loop by invariant (it branches on the NaN sentinel); the two fixed-length assembly / de-normalisation loops are unrolled exactly
        loops={0: dict(invariant=["unchanged_except('$d1:real', self.data_view)",
                                  "forall(v, 0 <= v and v <= self.top_index_x, isnan(self.data_view[v]) or self.data_view[v] == ND(v))",
                                  "forall(v, i_x - 1 <= v and v < u, self.data_view[v] == ND(v))"])},
        flags={'unroll_symbolic_range': True, 'nan_predicate': True},
        ensures=[("inv." + n, c) for n, c in INV] + [
            # HISTORY INDEPENDENCE: the value is the cubic of interval i_x with coefficients that are a function of the configuration only
            ("value_is_function_of_configuration_and_point",
             "result == K0(i_x) + K1(i_x) * px + K2(i_x) * px * px + K3(i_x) * px * px * px"),
            ("dbg.data", "self.data_view[i_x] == ND(i_x) and self.data_view[i_x + 1] == ND(i_x + 1) and self.data_view[i_x - 1] == ND(i_x - 1) and self.data_view[i_x + 2] == ND(i_x + 2)"),
            ("dbg.k3", "self.coeffs_view[i_x - 1, 3] == K3(i_x)"),
            ("dbg.k2", "self.coeffs_view[i_x - 1, 2] == K2(i_x)"),
            ("dbg.k1", "self.coeffs_view[i_x - 1, 1] == K1(i_x)"),
            ("dbg.k0", "self.coeffs_view[i_x - 1, 0] == K0(i_x)"),
            ("configuration_kept", "unchanged('x_domain_view:ref') and unchanged('x_view:ref') and unchanged('x2_view:ref') and unchanged('x3_view:ref') and "
                                   "unchanged('function:ref') and unchanged('data_min:real') and unchanged('data_delta:real') and "
                                   "unchanged('data_delta_inv:real') and unchanged('x_delta_inv:real') and unchanged('x_min:real') and unchanged('top_index_x:int')")],
        modifies=None)


def _lemmas(ctx):
    R = z3.Real
    c0, c1, c2, c3, a, b, x = R('c0'), R('c1'), R('c2'), R('c3'), R('a'), R('b'), R('x')
    # polynomial in the normalised coordinate t = a x + b, re-expanded in x by its Taylor coefficients at t0 = b (x = 0)
    t = a * x + b
    p = c0 + c1 * t + c2 * t * t + c3 * t * t * t
    d0 = c0 + c1 * b + c2 * b * b + c3 * b * b * b
    d1 = c1 + 2 * c2 * b + 3 * c3 * b * b
    d2 = 2 * c2 + 6 * c3 * b
    d3 = 6 * c3
    return [lemma('taylor_recentring', PROP, [], p == d0 + a * d1 * x + a * a / 2 * d2 * x * x + a * a * a / 6 * d3 * x * x * x,
                  'de-normalisation: coefficients a^i / i! * P^(i)(b) reproduce the cubic in the original coordinate')]


LEMMAS = [_lemmas]

# ---------------------------------------------------------------------------------------------- node counts of the sampling grids
def _count_term(e, env):
    """z3 term of a node-count expression over the constructor's locals: + - * /, int() (truncation of a NON-NEGATIVE real = floor), max, min."""
    import ast
    if isinstance(e, ast.Constant) and isinstance(e.value, (int, float)):
        return z3.RealVal(e.value) if isinstance(e.value, float) else z3.IntVal(e.value)
    if isinstance(e, ast.Name):
        return env.setdefault(e.id, z3.Real(e.id))
    if isinstance(e, ast.BinOp) and isinstance(e.op, (ast.Add, ast.Sub, ast.Mult, ast.Div)):
        a, b = _count_term(e.left, env), _count_term(e.right, env)
        if isinstance(e.op, ast.Div):
            a = z3.ToReal(a) if a.sort().kind() == z3.Z3_INT_SORT else a
            b = z3.ToReal(b) if b.sort().kind() == z3.Z3_INT_SORT else b
            env.setdefault('#nonzero', []).append(b)
            return a / b
        if a.sort() != b.sort():
            a = z3.ToReal(a) if a.sort().kind() == z3.Z3_INT_SORT else a
            b = z3.ToReal(b) if b.sort().kind() == z3.Z3_INT_SORT else b
        return {ast.Add: a + b, ast.Sub: a - b, ast.Mult: a * b}[type(e.op)]
    if isinstance(e, ast.Call) and isinstance(e.func, ast.Name) and e.func.id == 'int' and len(e.args) == 1:
        a = _count_term(e.args[0], env)
        env.setdefault('#nonneg', []).append(a)      # int() truncates towards zero: equal to floor only for non-negative arguments
        return z3.ToInt(a) if a.sort().kind() == z3.Z3_REAL_SORT else a
    if isinstance(e, ast.Call) and isinstance(e.func, ast.Name) and e.func.id in ('max', 'min') and len(e.args) == 2:
        a, b = _count_term(e.args[0], env), _count_term(e.args[1], env)
        if a.sort() != b.sort():
            a = z3.ToReal(a) if a.sort().kind() == z3.Z3_INT_SORT else a
            b = z3.ToReal(b) if b.sort().kind() == z3.Z3_INT_SORT else b
        return z3.If(a >= b, a, b) if e.func.id == 'max' else z3.If(a <= b, a, b)
    from pyvc.values import Unsupported
    u = Unsupported('node-count expression outside subset: %s' % ast.unparse(e))
    u.label = 'node-count'
    raise u


def _node_counts(ctx):
    """Every sampling axis of Caching1D/2D/3D gets AT LEAST TWO nodes (one interpolation cell) whatever the area and the resolution - also
    when the area is thinner than the resolution: the third argument of each linspace() call of the constructors, read from the parse tree, is
    >= 2 for all min < max and resolution > EPSILON (the two ValueError guards in front of it)."""
    import ast
    tree = ctx['tree']
    out = []
    for file, cls, axes in ((C1, 'Caching1D', 'x'), (C1.replace('1d', '2d'), 'Caching2D', 'xy'), (C1.replace('1d', '3d'), 'Caching3D', 'xyz')):
        fn = tree.find_func(file, cls + '.__init__')
        calls = {}
        for n in ast.walk(fn):
            if isinstance(n, ast.Assign) and isinstance(n.targets[0], ast.Attribute) and n.targets[0].attr.endswith('_np'):
                for c in ast.walk(n.value):
                    if isinstance(c, ast.Call) and isinstance(c.func, ast.Name) and c.func.id == 'linspace' and len(c.args) >= 3:
                        calls.setdefault(n.targets[0].attr[0], c.args[2])
        for ax in axes:
            name = 'construction.%s.%s.at-least-two-nodes' % (cls, ax)
            if ax not in calls:
                out.append(lemma(name, PROP, [], z3.BoolVal(False), 'no linspace(..., n) found for axis %s' % ax))
                continue
            env = {}
            n_ = _count_term(calls[ax], env)
            lo, hi, d = env.get('min' + ax, z3.Real('min' + ax)), env.get('max' + ax, z3.Real('max' + ax)), env.get('delta' + ax, z3.Real('delta' + ax))
            eps = env.setdefault('EPSILON', z3.Real('EPSILON'))
            hyps = [lo < hi, d > eps, eps > 0]
            goal = z3.And(n_ >= 2, *([x != 0 for x in env.get('#nonzero', [])] + [x >= 0 for x in env.get('#nonneg', [])]))
            out.append(lemma(name, PROP, hyps, goal, 'n = %s >= 2 (and int() applied to a non-negative quotient)' % ast.unparse(calls[ax])))
    return out


LEMMAS = LEMMAS + [_node_counts]



def bounded_history(ctx):
    """Bounded stand-in (NOT a proof): random cubic functions and random access orders on the real Caching1D/2D/3D; the value at a
    point must not depend on what was evaluated before, must equal the function at the nodes of a linear function, and must reproduce
    functions that are linear in each coordinate."""
    import random
    from replaylib.native import run_native
    n = 15 if ctx['tier'] == 'quick' else 200
    code = '''
import random, numpy as np
from cherab.core.math.caching import Caching1D, Caching2D, Caching3D
rnd = random.Random(%d)
bad = []; n = 0
for trial in range(%d):
    a, b, c = rnd.uniform(-2, 2), rnd.uniform(-2, 2), rnd.uniform(-2, 2)
    lo, hi = rnd.uniform(-1, 0), rnd.uniform(1, 2)
    res = rnd.uniform(0.05, 0.3)
    f1 = lambda x: a + b * x + c * x * x
    pts = [rnd.uniform(lo, hi) for _ in range(6)]
    A = Caching1D(f1, (lo, hi), res)
    vals = [A(p) for p in pts]
    for p, v in zip(reversed(pts), reversed(vals)):
        n += 1
        if abs(Caching1D(f1, (lo, hi), res)(p) - v) > 1e-9 * (1 + abs(v)): bad.append(("1d-history", trial))
    g1 = lambda x: a + b * x
    G = Caching1D(g1, (lo, hi), res)
    for p in pts:
        n += 1
        if abs(G(p) - g1(p)) > 1e-7 * (1 + abs(g1(p))): bad.append(("1d-linear", trial))
    f2 = lambda x, y: a + b * x + c * y + 0.5 * x * y
    B = Caching2D(f2, (lo, hi, lo, hi), (res, res))
    p2 = [(rnd.uniform(lo, hi), rnd.uniform(lo, hi)) for _ in range(4)]
    v2 = [B(*p) for p in p2]
    for p, v in zip(reversed(p2), reversed(v2)):
        n += 1
        if abs(Caching2D(f2, (lo, hi, lo, hi), (res, res))(*p) - v) > 1e-9 * (1 + abs(v)): bad.append(("2d-history", trial))
        if abs(v - f2(*p)) > 1e-6 * (1 + abs(v)): bad.append(("2d-bilinear", trial))
    if trial %% 5 == 0:
        f3 = lambda x, y, z: a + b * x + c * y - z + 0.25 * x * y * z
        C = Caching3D(f3, (lo, hi, lo, hi, lo, hi), (0.4, 0.4, 0.4))
        p3 = [(rnd.uniform(lo, hi), rnd.uniform(lo, hi), rnd.uniform(lo, hi)) for _ in range(3)]
        v3 = [C(*p) for p in p3]
        for p, v in zip(reversed(p3), reversed(v3)):
            n += 1
            if abs(Caching3D(f3, (lo, hi, lo, hi, lo, hi), (0.4, 0.4, 0.4))(*p) - v) > 1e-9 * (1 + abs(v)): bad.append(("3d-history", trial))
            if abs(v - f3(*p)) > 1e-6 * (1 + abs(v)): bad.append(("3d-trilinear", trial))
    # the function_boundaries option (estimate of the function's range used for normalisation): enclosing, too narrow, absent
    for fb in ((-50.0, 50.0), (0.1, 0.2), (-0.3, 0.4)):
        G0 = Caching1D(g1, (lo, hi), res)
        Gf = Caching1D(g1, (lo, hi), res, function_boundaries=fb)
        vals = [Gf(p) for p in pts]
        for p, v in zip(reversed(pts), reversed(vals)):
            n += 1
            w = Caching1D(g1, (lo, hi), res, function_boundaries=fb)(p)
            if abs(w - v) > 1e-7 * (1 + abs(v)): bad.append(("1d-history-function_boundaries", trial, fb))
            if abs(v - g1(p)) > 1e-6 * (1 + abs(v)): bad.append(("1d-linear-function_boundaries", trial, fb))
        g2 = lambda x, y: a + b * x + c * y
        Bf = Caching2D(g2, (lo, hi, lo, hi), (res, res), function_boundaries=fb)
        v2 = [Bf(*p) for p in p2]
        for p, v in zip(reversed(p2), reversed(v2)):
            n += 1
            w = Caching2D(g2, (lo, hi, lo, hi), (res, res), function_boundaries=fb)(*p)
            if abs(w - v) > 1e-7 * (1 + abs(v)): bad.append(("2d-history-function_boundaries", trial, fb))
            if abs(v - g2(*p)) > 1e-6 * (1 + abs(v)): bad.append(("2d-linear-function_boundaries", trial, fb))
        if trial %% 5 == 0:
            g3 = lambda x, y, z: a + b * x + c * y - z
            Cf = Caching3D(g3, (lo, hi, lo, hi, lo, hi), (0.4, 0.4, 0.4), function_boundaries=fb)
            v3 = [Cf(*p) for p in p3]
            for p, v in zip(reversed(p3), reversed(v3)):
                n += 1
                w = Caching3D(g3, (lo, hi, lo, hi, lo, hi), (0.4, 0.4, 0.4), function_boundaries=fb)(*p)
                if abs(w - v) > 1e-7 * (1 + abs(v)): bad.append(("3d-history-function_boundaries", trial, fb))
                if abs(v - g3(*p)) > 1e-6 * (1 + abs(v)): bad.append(("3d-linear-function_boundaries", trial, fb))
# areas THINNER than the resolution on some axis (still one interpolation cell per axis): points of the area never raise and functions linear
# in each coordinate are reproduced
def _thin(make, f, pts, tag):
    global n
    for p in pts:
        n += 1
        try:
            v = make()(*p)
        except Exception as e:
            bad.append((tag, list(p), "raised " + type(e).__name__ + ": " + str(e)[:80])); return
        if abs(v - f(*p)) > 1e-6 * (1 + abs(f(*p))): bad.append((tag, list(p), v, f(*p))); return
_l1 = lambda x: 3.0 * x + 5.0; _l2 = lambda x, y: 3.0 * x - 2.0 * y + 0.5 * x * y; _l3 = lambda x, y, z: 1.0 + x - 2.0 * y + 3.0 * z + x * y * z
_thin(lambda: Caching1D(_l1, (0.0, 0.5), 1.0), _l1, [(0.0,), (0.25,), (0.5,)], "1d-area-thinner-than-resolution")
_thin(lambda: Caching2D(_l2, (0.0, 10.0, 0.0, 0.5), (1.0, 1.0)), _l2, [(0.3, 0.1), (5.5, 0.25), (9.9, 0.5)], "2d-area-thinner-than-resolution")
_thin(lambda: Caching2D(_l2, (0.0, 0.3, -1.0, 4.0), (0.5, 0.5)), _l2, [(0.1, 0.1), (0.3, 3.9)], "2d-area-thinner-than-resolution")
_thin(lambda: Caching3D(_l3, (0.0, 2.0, 0.0, 2.0, 0.0, 0.2), (0.5, 0.5, 0.5)), _l3, [(0.3, 0.1, 0.1), (1.5, 1.25, 0.2)], "3d-area-thinner-than-resolution")
_thin(lambda: Caching3D(_l3, (0.0, 0.2, 0.0, 0.3, 0.0, 0.1), (0.5, 0.5, 0.5)), _l3, [(0.1, 0.1, 0.05)], "3d-area-thinner-than-resolution")
# exactly AT the sampling nodes (documented layout: linspace(min - 1e-7, max + 1e-7, max(int((max - min) / resolution) + 1, 2))), evaluated twice,
# with and without function_boundaries: both evaluations equal the wrapped (linear) function and a fresh object
for fb in (None, (4.0, 12.0), (-1.0, 1.0)):
    lin = lambda x: 3.0 * x + 5.0
    lo1, hi1, r1 = 0.0, 2.0, 0.25
    nodes = np.linspace(lo1 - 1e-7, hi1 + 1e-7, max(int((hi1 - lo1) / r1) + 1, 2))
    C1 = Caching1D(lin, (lo1, hi1), r1, function_boundaries=fb)
    for x0 in nodes[1:-1]:
        n += 1
        a1, a2 = C1(float(x0)), C1(float(x0)); fr = Caching1D(lin, (lo1, hi1), r1, function_boundaries=fb)(float(x0))
        if max(abs(a1 - lin(x0)), abs(a2 - lin(x0)), abs(fr - lin(x0))) > 1e-6 * (1 + abs(lin(x0))):
            bad.append(("1d-node-value", repr(fb), float(x0), a1, a2, fr, lin(x0)))
    lin2 = lambda x, y: 3.0 * x - 2.0 * y + 5.0
    C2 = Caching2D(lin2, (lo1, hi1, lo1, hi1), (r1, r1), function_boundaries=fb)
    for x0 in nodes[1:-1:2]:
        for y0 in nodes[1:-1:3]:
            n += 1
            a1, a2 = C2(float(x0), float(y0)), C2(float(x0), float(y0))
            if max(abs(a1 - lin2(x0, y0)), abs(a2 - lin2(x0, y0))) > 1e-6 * (1 + abs(lin2(x0, y0))):
                bad.append(("2d-node-value", repr(fb), float(x0), float(y0), a1, a2, lin2(x0, y0)))
# outside the caching area - including non-finite coordinates: ValueError, or the wrapped function itself when no_boundary_error is set
nan, inf = float("nan"), float("inf")
calls = []
def w1(x): calls.append((x,)); return 1234.5
def w2(x, y): calls.append((x, y)); return 1234.5
def w3(x, y, z): calls.append((x, y, z)); return 1234.5
for dim, cls, fn, area, res0 in ((1, Caching1D, w1, (-1.0, 2.0), 0.25), (2, Caching2D, w2, (-1.0, 2.0, -1.0, 2.0), (0.25, 0.25)),
                                 (3, Caching3D, w3, (-1.0, 2.0, -1.0, 2.0, -1.0, 2.0), (0.5, 0.5, 0.5))):
    for bad_value in (nan, inf, -inf, 2.5, -1.5):
        for axis in range(dim):
            pt = [0.3] * dim; pt[axis] = bad_value
            n += 1
            try:
                cls(fn, area, res0)(*pt)
                bad.append(("%%dd-outside-area-did-not-raise" %% dim, repr(pt)))
            except ValueError:
                pass
            del calls[:]
            v = cls(fn, area, res0, no_boundary_error=True)(*pt)
            if v != 1234.5 or not calls or repr(calls[-1]) != repr(tuple(pt)):
                bad.append(("%%dd-no_boundary_error-wrapped-function-not-used" %% dim, repr(pt), repr(v)))
print(json.dumps({"cases": n, "bad": bad[:10]}))
''' % (ctx['seed'], n)
    out = run_native(ctx, code, timeout=600)
    return {'name': 'history independence / linear exactness of Caching1D/2D/3D (BOUNDED stand-in, not counted as proved)', 'ok': bool(out) and out.get('bad') == [],
            'detail': out, 'bound': '%d random functions, 6/4/3 access points each, with and without function_boundaries (enclosing / too narrow), seed %d' % (n, ctx['seed'])}


BOUNDED = [bounded_history]
