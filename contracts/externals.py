"""Assumed contracts of code outside the verified functions (raysect, numpy, libc, abstract provider interfaces).
Every entry used by a run is listed under `assumptions` in the evidence file.

kinds:  pure    uninterpreted function of (receiver, arguments): functional consistency only
        logged  recorded in the call log (observable of call-argument obligations); result fresh
        fresh   unconstrained fresh result, no log
        custom  python function (engine, state, frame, receiver, args, kwargs) -> value
`override`: use this entry even though the tree has a (base-class / abstract) body for the method."""
import z3
from pyvc.values import Obj, to_real, to_ref, Ref


def _virtual(result, doc, facts=()):
    return {'kind': 'pure', 'result': result, 'override': True, 'doc': doc, 'facts': list(facts)}


def _nonneg(term, args):
    return term >= 0


def integrator_evaluate(eng, st, fr, recv, args, kwargs):
    """Integrator1D.evaluate(a, b): a function of the integrand object currently attached and the limits."""
    fn = eng.read_attr(st, recv, 'function', 'ref:Function1D')
    f = z3.Function('integral', Ref, z3.RealSort(), z3.RealSort(), z3.RealSort())
    return f(fn.ref, to_real(args[0]), to_real(args[1]))


PROVIDER = 'provider/distribution interface: pure function of its arguments (behavioural subtyping of user subclasses assumed)'

EXTERNALS = {
    # abstract cherab interfaces
    'DistributionFunction.evaluate': _virtual('real', PROVIDER),
    'DistributionFunction.density': _virtual('real', PROVIDER),
    'DistributionFunction.effective_temperature': _virtual('real', PROVIDER),
    'DistributionFunction.bulk_velocity': _virtual('ref:Vector3D', PROVIDER),
    'Integrator1D.evaluate': {'kind': 'custom', 'fn': integrator_evaluate, 'override': True,
                              'doc': 'integral of the attached integrand over [a, b] as an uninterpreted function '
                                     '(quadrature accuracy is not an obligation)'},
    'LineShapeModel.add_line': {'kind': 'logged', 'result': 'arg3', 'override': True, 'label': 'add_line',
                                'doc': 'line-shape interface: returns the spectrum it was given (object identity)'},
    'BeamLineShapeModel.add_line': {'kind': 'logged', 'result': 'arg5', 'override': True, 'label': 'beam_add_line',
                                    'doc': 'beam line-shape interface: returns the spectrum it was given'},
    # raysect vectors / functions
    'Vector3D.normalise': {'kind': 'pure', 'result': 'ref:Vector3D', 'override': True, 'doc': 'raysect Vector3D.normalise pure'},
    '_Vec3.dot': {'kind': 'pure', 'result': 'real', 'override': True, 'doc': 'raysect dot product pure'},
    '_Vec3.get_length': {'kind': 'pure', 'result': 'real', 'override': True, 'doc': 'raysect vector length pure, >= 0',
                         'facts': [_nonneg]},
    'Vector3D.cross': {'kind': 'pure', 'result': 'ref:Vector3D', 'override': True, 'doc': 'raysect cross product pure'},
    'Vector3D.mul': {'kind': 'pure', 'result': 'ref:Vector3D', 'override': True, 'doc': 'raysect scalar multiple pure'},
    'Vector3D.transform': {'kind': 'pure', 'result': 'ref:Vector3D', 'override': True, 'doc': 'raysect transform pure'},
    'Point3D.transform': {'kind': 'pure', 'result': 'ref:Point3D', 'override': True, 'doc': 'raysect transform pure'},
    'Point3D.vector_to': {'kind': 'pure', 'result': 'ref:Vector3D', 'override': True, 'doc': 'raysect vector_to pure'},
    'Function1D.evaluate': _virtual('real', 'raysect Function1D: pure function of its argument'),
    'Function2D.evaluate': _virtual('real', 'raysect Function2D: pure function of its arguments'),
    'Function3D.evaluate': _virtual('real', 'raysect Function3D: pure function of its arguments'),
    'VectorFunction3D.evaluate': _virtual('ref:Vector3D', 'raysect VectorFunction3D: pure function of its arguments'),
    'VectorFunction1D.evaluate': _virtual('ref:Vector3D', 'raysect vector Function1D: pure function of its argument'),
    'VectorFunction2D.evaluate': _virtual('ref:Vector3D', 'raysect VectorFunction2D: pure function of its arguments'),
}

RATE = 'atomic-data rate object: evaluate() is a pure function of its arguments'
for _cls in ('IonisationRate', 'RecombinationRate', 'ThermalCXRate', '_PECRate', 'ThermalCXPEC', 'BeamCXPEC', '_BeamRate',
             'TotalRadiatedPower', '_RadiatedPower', 'FractionalAbundance', 'FreeFreeGauntFactor'):
    EXTERNALS[_cls + '.evaluate'] = _virtual('real', RATE)
EXTERNALS['AtomicData.*'] = {'kind': 'pure', 'result': 'auto', 'override': True, 'nonnull': True,
                             'doc': 'atomic data provider: each accessor is a pure function of its arguments and returns an object (never None)'}
EXTERNALS['Composition.get'] = {'kind': 'pure', 'result': 'ref:Species', 'override': True, 'raises': ['ValueError'],
                                'doc': 'Composition.get(element, charge): the species registered for the key, ValueError if absent'}
EXTERNALS['.__call__'] = {'kind': 'logged', 'result': 'ref', 'alloc': True, 'label': 'construct',
                          'doc': 'calling a class object stored in an attribute constructs a fresh object (arguments logged)'}

GLOBAL_ATTRS = {}
