"""C16 — instruments: settings follow parameters, calibration conserves the spectrum."""
import ast
import z3
from .common import (lemma, structural as _structural, as_bool, rebuilt_after_writes, self_attrs_read, self_attrs_written, class_setters, logged_self,
                     method_reads, setter_contracts, call_cases)


def structural(name, prop, ok, detail=''):
    """pins on settings builders / 'ends-with' coherence of the array-building mutators are exercised by the bounded histories stand-in"""
    st = 'settings' if name.startswith(('settings/', 'coherence/')) else None
    return _structural(name, prop, ok, detail, standin=st)


PROP = 'C16'
LEVEL = 'proof'
EXPLANATION = ('Derived settings (spectral range / bin count, pipeline classes / kwargs, Czerny-Turner pixel arrays) are caches with an '
               '"is None" guard or an eager builder.  Per mutator (discovered from the parse tree; read sets computed from the builders): the '
               'mutator ends with the reset / builder after its last write to a dependency - proved with the engine for the scalar setters, '
               'by a parse-tree "ends-with" obligation for the array-building mutators; definite initialisation: every attribute read by '
               'any method of a class is assigned by its constructor chain; calibrate(): loop invariant value * width = spectrum.integrate; '
               'LRA lemma for the bin width bound.')
SP = "cherab/tools/spectroscopy/spectrometer.py"
IN = "cherab/tools/spectroscopy/instrument.py"
PO = "cherab/tools/spectroscopy/polychromator.py"
ASSUMPTIONS = ['Spectrum.integrate(a, b) is the integral of the piecewise-constant spectrum over [a, b] (raysect)',
               'numpy diff / min / ceil as documented; pixel edge arrays are strictly increasing (validated by the setter)']
NOT_APPLICABLE = []
RESET = {'SpectroscopicInstrument._clear_spectral_settings': logged_self('_clear_spectral_settings')}
CLASSES = [(SP, 'Spectrometer'), (SP, 'CzernyTurnerSpectrometer'), (PO, 'Polychromator')]


def register(reg, ctx):
    tree = ctx['tree']
    V = {"value": "real"}
    # scalar setters: engine-checked coherence
    setter_contracts(reg, PROP, tree, SP, 'Spectrometer', None, label='_clear_spectral_settings', extra_depends={'_min_bins_per_pixel'},
                     externals=dict(RESET), sorts=V, skip=('wavelength_to_pixel',))
    setter_contracts(reg, PROP, tree, PO, 'Polychromator', None, label='_clear_spectral_settings', extra_depends={'_min_bins_per_window'},
                     externals=dict(RESET), sorts=V, skip=('filters',))
    ct_ext = {'CzernyTurnerSpectrometer._update_wavelength_to_pixel': logged_self('_update_wavelength_to_pixel'),
              'deg2rad': {'kind': 'pure', 'result': 'real', 'doc': 'numpy.deg2rad'}}
    setter_contracts(reg, PROP, tree, SP, 'CzernyTurnerSpectrometer', '_update_wavelength_to_pixel', externals=ct_ext, sorts=V,
                     skip=('accommodated_spectra', 'wavelength_to_pixel', 'min_bins_per_pixel', 'name'))
    # name -> pipeline kwargs guard cleared
    reg.contract(IN, "SpectroscopicInstrument.name.setter", PROP, sorts={"value": "ref"},
        ensures=[("kwargs_guard_cleared", "is_none(self._pipeline_kwargs)")], modifies=["_name:str", "_name:ref", "_pipeline_kwargs:ref"])
    reg.contract(IN, "SpectroscopicInstrument._clear_spectral_settings", PROP,
        ensures=["is_none(self._min_wavelength)", "is_none(self._max_wavelength)", "is_none(self._spectral_bins)"],
        modifies=["_min_wavelength:ref", "_max_wavelength:ref", "_spectral_bins:ref"])
    # calibrate: one arbitrary pixel row (outer loop body) with the inner loop invariant
    def np_zeros(eng, st, fr, recv, args, kwargs):
        from pyvc.values import to_int
        o = eng.new_obj(st, 'ndarray', 'arr', 'real', 1, name='zeros')
        st.heap['$len'] = z3.Store(eng.field(st, '$len'), o.ref, to_int(args[0]))
        st.heap['$d1:real'] = z3.Store(eng.field(st, '$d1:real'), o.ref, z3.K(z3.IntSort(), z3.RealVal(0)))
        return o
    reg.contract(SP, "Spectrometer.calibrate", PROP, name='pixel-row', flags={'loop_body': 0},
        sorts={"wl2pix": "arr:real:1!", "spectrum": "ref:Spectrum!", "calibrated_spectra": "ref:OutList!"},
        externals={'zeros': {'kind': 'custom', 'fn': np_zeros, 'doc': 'numpy.zeros(n)'},
                   'Spectrum.integrate': {'kind': 'pure', 'result': 'real', 'override': True, 'doc': 'raysect Spectrum.integrate(a, b)'},
                   'OutList.append': {'kind': 'logged', 'result': 'none', 'label': 'append', 'doc': 'list.append of the result row'}},
        requires=["length(wl2pix) >= 2", "forall(k, 0 <= k and k < length(wl2pix) - 1, wl2pix[k] < wl2pix[k + 1])"],
        loops={1: dict(invariant=["0 <= i", "length(calibrated_spectrum) == length(wl2pix) - 1",
                                  "forall(k, 0 <= k and k < i, calibrated_spectrum[k] * (wl2pix[k + 1] - wl2pix[k]) == spectrum.integrate(wl2pix[k], wl2pix[k + 1]))"])},
        ensures=[("integral_preserved_per_pixel", calibrate_post)])


def calibrate_post(P):
    evs = P.calls('append')
    if len(evs) != 1:
        return [("calibrate.one_row_appended", z3.BoolVal(False))]
    row = evs[0].args[0]
    return [("calibrate.row_length", P.term("length(row) == length(wl2pix) - 1", row=row)),
            ("calibrate.value_times_width_is_integral", P.term(
                "forall(k, 0 <= k and k < length(wl2pix) - 1, row[k] * (wl2pix[k + 1] - wl2pix[k]) == spectrum.integrate(wl2pix[k], wl2pix[k + 1]))", row=row))]


# ---------------------------------------------------------------------------------------------- parse-tree obligations
def _methods(tree, cls):
    out = {}
    for nm in reversed(tree.mro(cls)):
        ci = tree.class_info(nm)
        if ci is None or not ci.file.startswith('cherab/tools/spectroscopy'):
            continue
        for k, fn in ci.methods.items():
            out[k] = (ci, fn)
        for k, pr in ci.properties.items():
            if 'set' in pr:
                out[k + '.setter'] = (ci, pr['set'])
            if 'get' in pr:
                out[k + '.getter'] = (ci, pr['get'])
    return out


def _ends_with(fn, resets, methods, depth=3):
    """Every attribute reset / method call in `resets` happens in the trailing straight-line statements of fn (after the last loop /
    branch), directly or through a trailing call to a method of self that itself ends with it."""
    tail = []
    for st_ in reversed(fn.body):
        if isinstance(st_, (ast.Expr, ast.Assign)):
            tail.append(st_)
        else:
            break
    found = set()
    for st_ in tail:
        u = ast.unparse(st_)
        for r in resets:
            if u == r:
                found.add(r)
        if isinstance(st_, ast.Expr) and isinstance(st_.value, ast.Call) and isinstance(st_.value.func, ast.Attribute) \
                and isinstance(st_.value.func.value, ast.Name) and st_.value.func.value.id == 'self' and depth > 0:
            callee = methods.get(st_.value.func.attr)
            if callee is not None:
                sub = _ends_with(callee[1], resets, methods, depth - 1)
                found |= sub
    return found


def _coherence(ctx, eng):
    tree = ctx['tree']
    out = []
    for file, cls in CLASSES:
        tree.prefer_stem = tree.abspath(file).rsplit('.', 1)[0]
        methods = _methods(tree, cls)
        builders = {
            '_update_spectral_settings': ['self._clear_spectral_settings()'],
            '_update_pipeline_kwargs': ['self._pipeline_kwargs = None'],
            '_update_pipeline_classes': ['self._pipeline_classes = None'],
        }
        if cls == 'CzernyTurnerSpectrometer':
            builders['_update_wavelength_to_pixel'] = ['self._update_wavelength_to_pixel()']
        for b, resets in builders.items():
            if b not in methods:
                continue
            reads = method_reads(tree, file, cls, b)
            for mname, (ci, fn) in sorted(methods.items()):
                if mname in (b, '__init__') or mname.endswith('.getter') or mname.startswith('_update_pipeline') or mname == '_update_spectral_settings':
                    continue
                if mname == '_clear_spectral_settings':
                    continue
                w = self_attrs_written(fn) & reads
                if not w:
                    continue
                got = _ends_with(fn, resets, methods)
                out.append(structural('coherence/%s.%s.after-writing-%s.ends-with.%s' % (cls, mname, '+'.join(sorted(w)), b), PROP,
                                      set(resets) <= got, '%s writes %s (read by %s); trailing statements must contain %s' % (mname, sorted(w), b, resets)))
        # definite initialisation: every attribute read by any method is assigned by the constructor chain
        ci, init = methods.get('__init__', (None, None))
        assigned = set()

        def closure(fn, seen):
            for n in ast.walk(fn):
                if isinstance(n, ast.Attribute) and isinstance(n.value, ast.Name) and n.value.id == 'self' and isinstance(n.ctx, ast.Store):
                    assigned.add(n.attr)
                    if (n.attr + '.setter') in methods and (n.attr + '.setter') not in seen:
                        seen.add(n.attr + '.setter')
                        closure(methods[n.attr + '.setter'][1], seen)
                if isinstance(n, ast.Call) and isinstance(n.func, ast.Attribute):
                    base = ast.unparse(n.func.value)
                    if base == 'self' and n.func.attr in methods and n.func.attr not in seen:
                        seen.add(n.func.attr)
                        closure(methods[n.func.attr][1], seen)
                    if base == 'super()' and n.func.attr == '__init__':
                        # parent constructor (next class in the MRO that defines __init__)
                        mro = tree.mro(cls)
                        for nm in mro[mro.index(ci.name) + 1:] if ci.name in mro else []:
                            pci = tree.class_info(nm)
                            if pci is not None and '__init__' in pci.methods and ('super:' + nm) not in seen:
                                seen.add('super:' + nm)
                                closure(pci.methods['__init__'], seen)
                                break
        if init is not None:
            closure(init, {'__init__'})
        read = set()
        for mname, (ci2, fn) in methods.items():
            read |= {a for a in self_attrs_read(fn) if a.startswith('_') and not a.startswith('__')}
        read = {a for a in read if (a not in methods)}
        missing = sorted(read - assigned)
        out.append(structural('initialisation/%s.every-read-attribute-is-assigned-by-constructor' % cls, PROP, not missing,
                              'attributes read by methods but never assigned by the constructor chain: %s' % missing))
    return out


def _settings(ctx, eng):
    """_update_spectral_settings / CT recurrence: statements (parse tree)."""
    tree = ctx['tree']
    out = []
    fn = tree.find_func(SP, 'Spectrometer._update_spectral_settings')
    want = ["self._min_wavelength = min((wl2pix[0] for wl2pix in self._wavelength_to_pixel))",
            "self._max_wavelength = max((wl2pix[-1] for wl2pix in self._wavelength_to_pixel))",
            "step = min((np.diff(wl2pix).min() for wl2pix in self._wavelength_to_pixel)) / self._min_bins_per_pixel",
            "self._spectral_bins = int(np.ceil((self._max_wavelength - self._min_wavelength) / step))"]
    got = [ast.unparse(s) for s in fn.body if not (isinstance(s, ast.Expr) and isinstance(s.value, ast.Constant))]
    out.append(structural('settings/Spectrometer._update_spectral_settings', PROP, got == want, 'range = [min first edge, max last edge], '
                          'step = narrowest pixel / min_bins_per_pixel, bins = ceil(range / step): %s' % got))
    fn = tree.find_func(PO, 'Polychromator._update_spectral_settings')
    src = ast.unparse(fn)
    ok = all(x in src for x in ("step = min(step, poly_filter.window / self._min_bins_per_window)",
                                "min_wavelength = min(min_wavelength, poly_filter.min_wavelength)",
                                "max_wavelength = max(max_wavelength, poly_filter.max_wavelength)",
                                "self._spectral_bins = int(np.ceil((max_wavelength - min_wavelength) / step))",
                                "min_wavelength = np.inf", "max_wavelength = 0", "step = np.inf"))
    out.append(structural('settings/Polychromator._update_spectral_settings', PROP, ok, 'range covers every filter, step = narrowest window / min_bins_per_window'))
    fn = tree.find_func(SP, 'CzernyTurnerSpectrometer._update_wavelength_to_pixel')
    src = ast.unparse(fn)
    ok = all(x in src for x in ("wl2pix[0] = min_wavelength", "for i in range(1, pixels + 1):\n            wl2pix[i] = wl2pix[i - 1] + self.resolution(wl2pix[i - 1])",
                                "wl_center = 0.5 * (wl2pix[1:] + wl2pix[:-1])"))
    out.append(structural('settings/CzernyTurner.pixel-recurrence', PROP, ok, 'w_0 = min_wavelength, w_i = w_{i-1} + resolution(w_{i-1}), centres = mid-points'))
    fn = tree.find_func(SP, 'Spectrometer.wavelength_to_pixel.setter')
    src = ast.unparse(fn)
    ok = all(x in src for x in ("if wl2pix.ndim != 1:", "if wl2pix.size < 2:", "if np.any(np.diff(wl2pix) <= 0):", "wl_center = 0.5 * (wl2pix[1:] + wl2pix[:-1])"))
    out.append(structural('settings/Spectrometer.wavelength_to_pixel.validation', PROP, ok, '1-D, at least 2 edges, strictly increasing; centres = mid-points'))
    return out


GENERATORS = [_coherence, _settings]


def _lemmas(ctx):
    R = z3.Real
    rng, step = R('range'), R('step')
    bins = z3.Int('bins')
    # bins = ceil(range / step) = -floor(-range/step)
    hyp = [rng > 0, step > 0, z3.ToReal(bins) >= rng / step, z3.ToReal(bins) < rng / step + 1]
    return [lemma('bin_width_bound', PROP, hyp, rng / z3.ToReal(bins) <= step, 'bins = ceil(range/step) => bin width range/bins <= step'),
            lemma('bins_positive', PROP, hyp, bins >= 1, 'at least one bin')]


LEMMAS = [_lemmas]


def native_replay(ctx, o):
    if 'initialisation/CzernyTurnerSpectrometer' not in o.name:
        return None
    from replaylib.native import run_native
    code = '''
from cherab.tools.spectroscopy import CzernyTurnerSpectrometer
s = CzernyTurnerSpectrometer(1, 2.e-3, 1.e9, 2.e4, 10., ((600., 512),))
try:
    p = s.create_pipelines(); err = None
except AttributeError as e:
    err = repr(e)[:200]
print(json.dumps({"create_pipelines_error": err}))
'''
    out = run_native(ctx, code)
    return {'confirmed': bool(out and out.get('create_pipelines_error')), 'input': 'CzernyTurnerSpectrometer(1, 2e-3, 1e9, 2e4, 10, ((600, 512),)).create_pipelines()',
            'observed': out, 'expected': 'a list with one pipeline'}


def bounded_instrument_histories(ctx):
    """Bounded stand-in (NOT a proof): random histories of parameter changes interleaved with reads on Spectrometer, CzernyTurnerSpectrometer
    and Polychromator; after every step the settings (range, bins, pipeline classes / keywords, pixel arrays) are compared with a freshly
    constructed instrument with the same final parameters; for the plain and the Czerny-Turner spectrometer also with an independent numpy formula over their own pixel edges (accommodated spectra in ascending, descending and mixed order)."""
    from replaylib.native import run_native
    n = 25 if ctx['tier'] == 'quick' else 300
    code = '''
import random, numpy as np
from cherab.tools.spectroscopy import Spectrometer, CzernyTurnerSpectrometer, Polychromator, TrapezoidalFilter
rnd = random.Random(%d)
bad = []; cases = 0
def kw_view(inst):
    out = []
    for d in inst.pipeline_kwargs:
        out.append(tuple(sorted((k, (getattr(v, "name", None), getattr(v, "central_wavelength", None)) if hasattr(v, "window") else (v if isinstance(v, (str, int, float)) else type(v).__name__)) for k, v in d.items())))
    return out
READERS = {"min": lambda i: i.min_wavelength, "max": lambda i: i.max_wavelength, "bins": lambda i: i.spectral_bins,
           "classes": lambda i: [c.__name__ for c in i.pipeline_classes], "kwargs": kw_view}
def view(inst, order=None):
    # the order in which the lazily built settings are read matters for stale-cache defects: a random order per comparison
    order = order or rnd.sample(sorted(READERS), len(READERS))
    v = {k: READERS[k](inst) for k in order}
    if hasattr(inst, "wavelength_to_pixel"):
        v["w2p"] = [np.asarray(a).tolist() for a in inst.wavelength_to_pixel]
    return v
def same(a, b):
    if a.keys() != b.keys(): return False
    for k in a:
        if k in ("min", "max"):
            if not abs(a[k] - b[k]) <= 1e-12 * max(1.0, abs(b[k])): return False
        elif k == "w2p":
            if len(a[k]) != len(b[k]) or any(len(x) != len(y) or not np.allclose(x, y, rtol=1e-12, atol=0) for x, y in zip(a[k], b[k])): return False
        elif a[k] != b[k]: return False
    return True
def edges():
    m = rnd.randint(1, 3); out = []
    for _ in range(m):
        start = rnd.uniform(300, 700); widths = [rnd.uniform(0.02, 0.5) for _ in range(rnd.randint(1, 12))]
        out.append(np.cumsum([start] + widths))
    return tuple(out)
def filt():
    return tuple(TrapezoidalFilter(rnd.uniform(400, 700), window=rnd.uniform(1.0, 6.0), name="f%%d" %% rnd.randint(0, 999)) for _ in range(rnd.randint(1, 3)))
for trial in range(%d):
    # plain spectrometer
    p = {"wavelength_to_pixel": edges(), "min_bins_per_pixel": rnd.randint(1, 4), "name": "s"}
    inst = Spectrometer(p["wavelength_to_pixel"], min_bins_per_pixel=p["min_bins_per_pixel"], name="s")
    for step in range(rnd.randint(1, 5)):
        if rnd.random() < 0.6: view(inst)
        key = rnd.choice(["wavelength_to_pixel", "min_bins_per_pixel", "name"])
        p[key] = edges() if key == "wavelength_to_pixel" else (rnd.randint(1, 4) if key == "min_bins_per_pixel" else "s%%d" %% step)
        setattr(inst, key, p[key]); cases += 1
        fresh = Spectrometer(p["wavelength_to_pixel"], min_bins_per_pixel=p["min_bins_per_pixel"], name=p["name"])
        w = p["wavelength_to_pixel"]
        lo, hi = min(a[0] for a in w), max(a[-1] for a in w); stp = min(np.diff(a).min() for a in w) / p["min_bins_per_pixel"]
        if not same(view(inst), view(fresh)) or inst.min_wavelength != lo or inst.max_wavelength != hi or inst.spectral_bins != int(np.ceil((hi - lo) / stp)):
            bad.append({"instrument": "Spectrometer", "trial": trial, "after_setting": key, "bins": inst.spectral_bins, "fresh_bins": fresh.spectral_bins, "formula_bins": int(np.ceil((hi - lo) / stp))}); break
    # Czerny-Turner
    q = {"diffraction_order": 1, "grating": 2.0e-3, "focal_length": 1.0e9, "pixel_spacing": 2.0e4, "diffraction_angle": 10.0, "accommodated_spectra": ((600.0, 64),), "min_bins_per_pixel": 2, "name": "ct"}
    mk = lambda q: CzernyTurnerSpectrometer(q["diffraction_order"], q["grating"], q["focal_length"], q["pixel_spacing"], q["diffraction_angle"], q["accommodated_spectra"],
                                            min_bins_per_pixel=q["min_bins_per_pixel"], name=q["name"])
    inst = mk(q)
    for step in range(rnd.randint(1, 5)):
        if rnd.random() < 0.7: view(inst)
        key = rnd.choice(["grating", "focal_length", "pixel_spacing", "diffraction_angle", "accommodated_spectra", "min_bins_per_pixel", "diffraction_order"])
        q[key] = {"grating": rnd.choice([1.2e-3, 2.4e-3, 1.8e-3]), "focal_length": rnd.choice([0.5e9, 1.0e9, 2.0e9]), "pixel_spacing": rnd.choice([1.0e4, 2.0e4, 4.0e4]),
                  "diffraction_angle": rnd.choice([5.0, 10.0, 20.0]), "accommodated_spectra": rnd.choice([((600.0, 64),), ((500.0, 32), (650.0, 48)), ((450.0, 16),), ((650.0, 48), (500.0, 32)), ((700.0, 24), (600.0, 96)),
                                                                                                   ((480.0, 16), (690.0, 40), (560.0, 64))]),
                  "min_bins_per_pixel": rnd.randint(1, 3), "diffraction_order": rnd.choice([1, 2])}[key]
        try:
            setattr(inst, key, q[key]); cases += 1
            w = inst.wavelength_to_pixel
            lo, hi = min(a[0] for a in w), max(a[-1] for a in w); stp = min(np.diff(a).min() for a in w) / q["min_bins_per_pixel"]
            if not same(view(inst), view(mk(q))) or inst.min_wavelength != lo or inst.max_wavelength != hi or inst.spectral_bins != int(np.ceil((hi - lo) / stp)):
                bad.append({"instrument": "CzernyTurnerSpectrometer", "trial": trial, "after_setting": key, "accommodated_spectra": list(q["accommodated_spectra"]), "bins": inst.spectral_bins,
                            "fresh_bins": mk(q).spectral_bins, "bins_from_its_own_pixel_edges": int(np.ceil((hi - lo) / stp)), "range": [inst.min_wavelength, inst.max_wavelength], "pixel_edge_range": [lo, hi]}); break
        except ValueError:
            break
    # polychromator
    r = {"filters": filt(), "min_bins_per_window": rnd.randint(2, 12), "name": "po"}
    inst = Polychromator(r["filters"], min_bins_per_window=r["min_bins_per_window"], name="po")
    for step in range(rnd.randint(1, 5)):
        for reader in rnd.sample(["pipeline_kwargs", "pipeline_classes", "spectral_bins", "min_wavelength"], rnd.randint(0, 2)): getattr(inst, reader)
        key = rnd.choice(["filters", "min_bins_per_window", "name"])
        r[key] = filt() if key == "filters" else (rnd.randint(2, 12) if key == "min_bins_per_window" else "po%%d" %% step)
        setattr(inst, key, r[key]); cases += 1
        first = "random order of reads"
        fresh = Polychromator(r["filters"], min_bins_per_window=r["min_bins_per_window"], name=r["name"])
        if not same(view(inst), view(fresh)):
            bad.append({"instrument": "Polychromator", "trial": trial, "after_setting": key, "read_first": first, "kwargs": str(kw_view(inst))[:120], "fresh_kwargs": str(kw_view(fresh))[:120]}); break
print(json.dumps({"cases": cases, "bad": bad[:6]}))
''' % (ctx['seed'] + 16, n)
    out = run_native(ctx, code, timeout=900)
    return {'name': 'instrument settings after random histories = freshly constructed instrument (BOUNDED stand-in, not counted as proved)',
            'ok': bool(out) and out.get('bad') == [], 'detail': out, 'covers': ['settings'],
            'bound': '%d random histories of 1..5 setter calls per instrument class, seed %d' % (n, ctx['seed'] + 16)}


BOUNDED = [bounded_instrument_histories]
