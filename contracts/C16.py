"""C16 — instruments: settings follow parameters, calibration conserves the spectrum."""
import ast
import z3
from .common import (lemma, structural, as_bool, rebuilt_after_writes, self_attrs_read, self_attrs_written, class_setters, logged_self,
                     method_reads, setter_contracts, call_cases)

PROP = 'C16'
LEVEL = 'proof'
EXPLANATION = ('Derived settings (spectral range / bin count, pipeline classes / kwargs, Czerny-Turner pixel arrays) are caches with an '
               '"is None" guard or an eager builder.  Per mutator (discovered from the parse tree; read sets computed from the builders): the '
               'mutator ends with the reset / builder after its last write to a dependency - proved with the engine for the scalar setters, '
               'by a parse-tree "ends-with" obligation for the array-building mutators; definite initialisation: every attribute read by '
               'any method of a class is assigned by its constructor chain; calibrate(): loop invariant value * width = spectrum.integrate; '
               'LRA lemma for the bin width bound.')
SP = "cherab/tools/spectroscopy/spectrometer.py"
IN = "cherab/tools/spectroscopy/instrument.py"
PO = "cherab/tools/spectroscopy/polychromator.py"
ASSUMPTIONS = ['Spectrum.integrate(a, b) is the integral of the piecewise-constant spectrum over [a, b] (raysect)',
               'numpy diff / min / ceil as documented; pixel edge arrays are strictly increasing (validated by the setter)']
NOT_APPLICABLE = []
RESET = {'SpectroscopicInstrument._clear_spectral_settings': logged_self('_clear_spectral_settings')}
CLASSES = [(SP, 'Spectrometer'), (SP, 'CzernyTurnerSpectrometer'), (PO, 'Polychromator')]


def register(reg, ctx):
    tree = ctx['tree']
    V = {"value": "real"}
    # scalar setters: engine-checked coherence
    setter_contracts(reg, PROP, tree, SP, 'Spectrometer', None, label='_clear_spectral_settings', extra_depends={'_min_bins_per_pixel'},
                     externals=dict(RESET), sorts=V, skip=('wavelength_to_pixel',))
    setter_contracts(reg, PROP, tree, PO, 'Polychromator', None, label='_clear_spectral_settings', extra_depends={'_min_bins_per_window'},
                     externals=dict(RESET), sorts=V, skip=('filters',))
    ct_ext = {'CzernyTurnerSpectrometer._update_wavelength_to_pixel': logged_self('_update_wavelength_to_pixel'),
              'deg2rad': {'kind': 'pure', 'result': 'real', 'doc': 'numpy.deg2rad'}}
    setter_contracts(reg, PROP, tree, SP, 'CzernyTurnerSpectrometer', '_update_wavelength_to_pixel', externals=ct_ext, sorts=V,
                     skip=('accommodated_spectra', 'wavelength_to_pixel', 'min_bins_per_pixel', 'name'))
    # name -> pipeline kwargs guard cleared
    reg.contract(IN, "SpectroscopicInstrument.name.setter", PROP, sorts={"value": "ref"},
        ensures=[("kwargs_guard_cleared", "is_none(self._pipeline_kwargs)")], modifies=["_name:str", "_name:ref", "_pipeline_kwargs:ref"])
    reg.contract(IN, "SpectroscopicInstrument._clear_spectral_settings", PROP,
        ensures=["is_none(self._min_wavelength)", "is_none(self._max_wavelength)", "is_none(self._spectral_bins)"],
        modifies=["_min_wavelength:ref", "_max_wavelength:ref", "_spectral_bins:ref"])
    # calibrate: one arbitrary pixel row (outer loop body) with the inner loop invariant
    def np_zeros(eng, st, fr, recv, args, kwargs):
        from pyvc.values import to_int
        o = eng.new_obj(st, 'ndarray', 'arr', 'real', 1, name='zeros')
        st.heap['$len'] = z3.Store(eng.field(st, '$len'), o.ref, to_int(args[0]))
        st.heap['$d1:real'] = z3.Store(eng.field(st, '$d1:real'), o.ref, z3.K(z3.IntSort(), z3.RealVal(0)))
        return o
    reg.contract(SP, "Spectrometer.calibrate", PROP, name='pixel-row', flags={'loop_body': 0},
        sorts={"wl2pix": "arr:real:1!", "spectrum": "ref:Spectrum!", "calibrated_spectra": "ref:OutList!"},
        externals={'zeros': {'kind': 'custom', 'fn': np_zeros, 'doc': 'numpy.zeros(n)'},
                   'Spectrum.integrate': {'kind': 'pure', 'result': 'real', 'override': True, 'doc': 'raysect Spectrum.integrate(a, b)'},
                   'OutList.append': {'kind': 'logged', 'result': 'none', 'label': 'append', 'doc': 'list.append of the result row'}},
        requires=["length(wl2pix) >= 2", "forall(k, 0 <= k and k < length(wl2pix) - 1, wl2pix[k] < wl2pix[k + 1])"],
        loops={1: dict(invariant=["0 <= i", "length(calibrated_spectrum) == length(wl2pix) - 1",
                                  "forall(k, 0 <= k and k < i, calibrated_spectrum[k] * (wl2pix[k + 1] - wl2pix[k]) == spectrum.integrate(wl2pix[k], wl2pix[k + 1]))"])},
        ensures=[("integral_preserved_per_pixel", calibrate_post)])


def calibrate_post(P):
    evs = P.calls('append')
    if len(evs) != 1:
        return [("calibrate.one_row_appended", z3.BoolVal(False))]
    row = evs[0].args[0]
    return [("calibrate.row_length", P.term("length(row) == length(wl2pix) - 1", row=row)),
            ("calibrate.value_times_width_is_integral", P.term(
                "forall(k, 0 <= k and k < length(wl2pix) - 1, row[k] * (wl2pix[k + 1] - wl2pix[k]) == spectrum.integrate(wl2pix[k], wl2pix[k + 1]))", row=row))]


# ---------------------------------------------------------------------------------------------- parse-tree obligations
def _methods(tree, cls):
    out = {}
    for nm in reversed(tree.mro(cls)):
        ci = tree.class_info(nm)
        if ci is None or not ci.file.startswith('cherab/tools/spectroscopy'):
            continue
        for k, fn in ci.methods.items():
            out[k] = (ci, fn)
        for k, pr in ci.properties.items():
            if 'set' in pr:
                out[k + '.setter'] = (ci, pr['set'])
            if 'get' in pr:
                out[k + '.getter'] = (ci, pr['get'])
    return out


def _ends_with(fn, resets, methods, depth=3):
    """Every attribute reset / method call in `resets` happens in the trailing straight-line statements of fn (after the last loop /
    branch), directly or through a trailing call to a method of self that itself ends with it."""
    tail = []
    for st_ in reversed(fn.body):
        if isinstance(st_, (ast.Expr, ast.Assign)):
            tail.append(st_)
        else:
            break
    found = set()
    for st_ in tail:
        u = ast.unparse(st_)
        for r in resets:
            if u == r:
                found.add(r)
        if isinstance(st_, ast.Expr) and isinstance(st_.value, ast.Call) and isinstance(st_.value.func, ast.Attribute) \
                and isinstance(st_.value.func.value, ast.Name) and st_.value.func.value.id == 'self' and depth > 0:
            callee = methods.get(st_.value.func.attr)
            if callee is not None:
                sub = _ends_with(callee[1], resets, methods, depth - 1)
                found |= sub
    return found


def _coherence(ctx, eng):
    tree = ctx['tree']
    out = []
    for file, cls in CLASSES:
        tree.prefer_stem = tree.abspath(file).rsplit('.', 1)[0]
        methods = _methods(tree, cls)
        builders = {
            '_update_spectral_settings': ['self._clear_spectral_settings()'],
            '_update_pipeline_kwargs': ['self._pipeline_kwargs = None'],
            '_update_pipeline_classes': ['self._pipeline_classes = None'],
        }
        if cls == 'CzernyTurnerSpectrometer':
            builders['_update_wavelength_to_pixel'] = ['self._update_wavelength_to_pixel()']
        for b, resets in builders.items():
            if b not in methods:
                continue
            reads = method_reads(tree, file, cls, b)
            for mname, (ci, fn) in sorted(methods.items()):
                if mname in (b, '__init__') or mname.endswith('.getter') or mname.startswith('_update_pipeline') or mname == '_update_spectral_settings':
                    continue
                if mname == '_clear_spectral_settings':
                    continue
                w = self_attrs_written(fn) & reads
                if not w:
                    continue
                got = _ends_with(fn, resets, methods)
                out.append(structural('coherence/%s.%s.after-writing-%s.ends-with.%s' % (cls, mname, '+'.join(sorted(w)), b), PROP,
                                      set(resets) <= got, '%s writes %s (read by %s); trailing statements must contain %s' % (mname, sorted(w), b, resets)))
        # definite initialisation: every attribute read by any method is assigned by the constructor chain
        ci, init = methods.get('__init__', (None, None))
        assigned = set()

        def closure(fn, seen):
            for n in ast.walk(fn):
                if isinstance(n, ast.Attribute) and isinstance(n.value, ast.Name) and n.value.id == 'self' and isinstance(n.ctx, ast.Store):
                    assigned.add(n.attr)
                    if (n.attr + '.setter') in methods and (n.attr + '.setter') not in seen:
                        seen.add(n.attr + '.setter')
                        closure(methods[n.attr + '.setter'][1], seen)
                if isinstance(n, ast.Call) and isinstance(n.func, ast.Attribute):
                    base = ast.unparse(n.func.value)
                    if base == 'self' and n.func.attr in methods and n.func.attr not in seen:
                        seen.add(n.func.attr)
                        closure(methods[n.func.attr][1], seen)
                    if base == 'super()' and n.func.attr == '__init__':
                        # parent constructor (next class in the MRO that defines __init__)
                        mro = tree.mro(cls)
                        for nm in mro[mro.index(ci.name) + 1:] if ci.name in mro else []:
                            pci = tree.class_info(nm)
                            if pci is not None and '__init__' in pci.methods and ('super:' + nm) not in seen:
                                seen.add('super:' + nm)
                                closure(pci.methods['__init__'], seen)
                                break
        if init is not None:
            closure(init, {'__init__'})
        read = set()
        for mname, (ci2, fn) in methods.items():
            read |= {a for a in self_attrs_read(fn) if a.startswith('_') and not a.startswith('__')}
        read = {a for a in read if (a not in methods)}
        missing = sorted(read - assigned)
        out.append(structural('initialisation/%s.every-read-attribute-is-assigned-by-constructor' % cls, PROP, not missing,
                              'attributes read by methods but never assigned by the constructor chain: %s' % missing))
    return out


def _settings(ctx, eng):
    """_update_spectral_settings / CT recurrence: statements (parse tree)."""
    tree = ctx['tree']
    out = []
    fn = tree.find_func(SP, 'Spectrometer._update_spectral_settings')
    want = ["self._min_wavelength = min((wl2pix[0] for wl2pix in self._wavelength_to_pixel))",
            "self._max_wavelength = max((wl2pix[-1] for wl2pix in self._wavelength_to_pixel))",
            "step = min((np.diff(wl2pix).min() for wl2pix in self._wavelength_to_pixel)) / self._min_bins_per_pixel",
            "self._spectral_bins = int(np.ceil((self._max_wavelength - self._min_wavelength) / step))"]
    got = [ast.unparse(s) for s in fn.body if not (isinstance(s, ast.Expr) and isinstance(s.value, ast.Constant))]
    out.append(structural('settings/Spectrometer._update_spectral_settings', PROP, got == want, 'range = [min first edge, max last edge], '
                          'step = narrowest pixel / min_bins_per_pixel, bins = ceil(range / step): %s' % got))
    fn = tree.find_func(PO, 'Polychromator._update_spectral_settings')
    src = ast.unparse(fn)
    ok = all(x in src for x in ("step = min(step, poly_filter.window / self._min_bins_per_window)",
                                "min_wavelength = min(min_wavelength, poly_filter.min_wavelength)",
                                "max_wavelength = max(max_wavelength, poly_filter.max_wavelength)",
                                "self._spectral_bins = int(np.ceil((max_wavelength - min_wavelength) / step))",
                                "min_wavelength = np.inf", "max_wavelength = 0", "step = np.inf"))
    out.append(structural('settings/Polychromator._update_spectral_settings', PROP, ok, 'range covers every filter, step = narrowest window / min_bins_per_window'))
    fn = tree.find_func(SP, 'CzernyTurnerSpectrometer._update_wavelength_to_pixel')
    src = ast.unparse(fn)
    ok = all(x in src for x in ("wl2pix[0] = min_wavelength", "for i in range(1, pixels + 1):\n            wl2pix[i] = wl2pix[i - 1] + self.resolution(wl2pix[i - 1])",
                                "wl_center = 0.5 * (wl2pix[1:] + wl2pix[:-1])"))
    out.append(structural('settings/CzernyTurner.pixel-recurrence', PROP, ok, 'w_0 = min_wavelength, w_i = w_{i-1} + resolution(w_{i-1}), centres = mid-points'))
    fn = tree.find_func(SP, 'Spectrometer.wavelength_to_pixel.setter')
    src = ast.unparse(fn)
    ok = all(x in src for x in ("if wl2pix.ndim != 1:", "if wl2pix.size < 2:", "if np.any(np.diff(wl2pix) <= 0):", "wl_center = 0.5 * (wl2pix[1:] + wl2pix[:-1])"))
    out.append(structural('settings/Spectrometer.wavelength_to_pixel.validation', PROP, ok, '1-D, at least 2 edges, strictly increasing; centres = mid-points'))
    return out


GENERATORS = [_coherence, _settings]


def _lemmas(ctx):
    R = z3.Real
    rng, step = R('range'), R('step')
    bins = z3.Int('bins')
    # bins = ceil(range / step) = -floor(-range/step)
    hyp = [rng > 0, step > 0, z3.ToReal(bins) >= rng / step, z3.ToReal(bins) < rng / step + 1]
    return [lemma('bin_width_bound', PROP, hyp, rng / z3.ToReal(bins) <= step, 'bins = ceil(range/step) => bin width range/bins <= step'),
            lemma('bins_positive', PROP, hyp, bins >= 1, 'at least one bin')]


LEMMAS = [_lemmas]


def native_replay(ctx, o):
    if 'initialisation/CzernyTurnerSpectrometer' not in o.name:
        return None
    from replaylib.native import run_native
    code = '''
from cherab.tools.spectroscopy import CzernyTurnerSpectrometer
s = CzernyTurnerSpectrometer(1, 2.e-3, 1.e9, 2.e4, 10., ((600., 512),))
try:
    p = s.create_pipelines(); err = None
except AttributeError as e:
    err = repr(e)[:200]
print(json.dumps({"create_pipelines_error": err}))
'''
    out = run_native(ctx, code)
    return {'confirmed': bool(out and out.get('create_pipelines_error')), 'input': 'CzernyTurnerSpectrometer(1, 2e-3, 1e9, 2e4, 10, ((600, 512),)).create_pipelines()',
            'observed': out, 'expected': 'a list with one pipeline'}
