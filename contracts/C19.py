"""C19 — element and isotope registry is unambiguous and self-consistent.

The quantifier is a finite enumeration: the module-level Element(...)/Isotope(...) constructor statements are extracted from
the parse tree of elements.pyx on every run and the registry contracts are instantiated on them (ground obligations, decided by
evaluation of closed terms); equality / hash contracts are symbolic (all inputs)."""
import ast
import json
import os
import z3
from .common import structural

PROP = 'C19'
LEVEL = 'proof'
EXPLANATION = ('Ground instances of the registry contracts over every Element/Isotope statement extracted from the parse tree '
               '(exhaustive: the quantifier is the finite registry), key expressions taken from the real index builders and lookup '
               'functions; symbolic contracts for __richcmp__ of Element, Isotope and Line; structural obligation hash-fields '
               'subset of eq-fields (equal objects hash equally by congruence of tuple hashing).')
EL = "cherab/core/atomic/elements.pyx"
LN = "cherab/core/atomic/line.pyx"
ASSUMPTIONS = ['hash and == on tuples of str/int/float are a congruence (equal tuples hash equally)',
               'str.lower / str() behave as in CPython (used to evaluate ground key expressions)',
               'dir(module) enumerates every module-level species object (index builders)']
NOT_APPLICABLE = []
HERE = os.path.dirname(os.path.abspath(__file__))


def register(reg):
    for cls, fields in (("Element", ["name", "symbol", "atomic_number", "atomic_weight"]),
                        ("Isotope", ["name", "symbol", "atomic_number", "atomic_weight", "element", "mass_number"])):
        eq = " and ".join("self.%s == other.%s" % (f, f) for f in fields)
        reg.contract(EL, cls + ".__richcmp__", PROP, sorts={"other": "ref:%s!" % cls, "op": "int"},
            requires=["op == 2 or op == 3"] + (["not is_none(self.element)", "not is_none(other.element)"] if cls == 'Isotope' else []),
            ensures=[("eq_fieldwise", "implies(op == 2, iff(result, %s))" % eq),
                     ("ne_is_not_eq", "implies(op == 3, iff(result, not (%s)))" % eq)],
            modifies=[])
    eq = "self.element == other.element and self.charge == other.charge and self.transition == other.transition"
    reg.contract(LN, "Line.__richcmp__", PROP, sorts={"other": "ref:Line!", "op": "int"},
        requires=["op == 2 or op == 3", "not is_none(self.element)", "not is_none(other.element)"],
        ensures=[("eq_fieldwise", "implies(op == 2, iff(result, %s))" % eq),
                 ("ne_is_not_eq", "implies(op == 3, iff(result, not (%s)))" % eq)],
        modifies=[])


# ---------------------------------------------------------------------------------------------- ground table
def _literal(e, env):
    if isinstance(e, ast.Constant):
        return e.value
    if isinstance(e, ast.Name):
        return env[e.id]
    if isinstance(e, ast.BinOp):
        a, b = _literal(e.left, env), _literal(e.right, env)
        return {ast.Add: a + b, ast.Sub: a - b, ast.Mult: a * b, ast.Div: a / b}[type(e.op)] if not isinstance(e.op, ast.Pow) else a ** b
    if isinstance(e, ast.UnaryOp) and isinstance(e.op, ast.USub):
        return -_literal(e.operand, env)
    raise ValueError('not a closed term: %s' % ast.dump(e)[:60])


def extract_table(tree):
    mod = tree.module(EL)
    env, elements, isotopes, problems = {}, [], [], []
    for n in mod.body:
        if isinstance(n, ast.Assign) and len(n.targets) == 1 and isinstance(n.targets[0], ast.Name) and isinstance(n.value, ast.Call) \
                and isinstance(n.value.func, ast.Name) and n.value.func.id in ('Element', 'Isotope'):
            var = n.targets[0].id
            try:
                args = [_literal(a, env) for a in n.value.args]
            except (ValueError, KeyError) as e:
                problems.append('%s: %s' % (var, e))
                continue
            if n.value.func.id == 'Element' and len(args) == 4:
                rec = {'kind': 'Element', 'var': var, 'name': args[0], 'symbol': args[1], 'atomic_number': args[2],
                       'atomic_weight': args[3]}
                elements.append(rec)
            elif n.value.func.id == 'Isotope' and len(args) == 5:
                el = args[2]
                rec = {'kind': 'Isotope', 'var': var, 'name': args[0], 'symbol': args[1], 'element': el,
                       'atomic_number': el['atomic_number'] if isinstance(el, dict) else None, 'mass_number': args[3],
                       'atomic_weight': args[4]}
                isotopes.append(rec)
            else:
                problems.append('%s: unexpected constructor arity' % var)
                continue
            env[var] = rec
    return elements, isotopes, problems


def key_exprs(tree, builder, index_name):
    """Key expressions `<index>[<key>] = obj` in an index builder."""
    fn = tree.find_func(EL, builder)
    out = []
    for n in ast.walk(fn):
        if isinstance(n, ast.Assign) and isinstance(n.targets[0], ast.Subscript) and ast.unparse(n.targets[0].value) == index_name \
                and ast.unparse(n.value) == 'obj':
            out.append(n.targets[0].slice)
    return out


def key_aliases(tree, builder):
    """Local aliases `name = <expr over obj>` of an index builder (each name assigned exactly once); other locals stay unresolved."""
    fn = tree.find_func(EL, builder)
    seen = {}
    for n in ast.walk(fn):
        if isinstance(n, ast.Assign) and len(n.targets) == 1 and isinstance(n.targets[0], ast.Name) and n.targets[0].id != 'obj':
            seen.setdefault(n.targets[0].id, []).append(n.value)
    return {k: v[0] for k, v in seen.items() if len(v) == 1}


def eval_key(e, obj, env=None):
    env = env or {}
    if isinstance(e, ast.Name) and e.id == 'obj':
        return obj
    if isinstance(e, ast.Name) and e.id in env:
        return eval_key(env[e.id], obj, {k: v for k, v in env.items() if k != e.id})
    if isinstance(e, ast.Attribute):
        return eval_key(e.value, obj, env)[e.attr]
    if isinstance(e, ast.Call) and isinstance(e.func, ast.Attribute) and e.func.attr == 'lower' and not e.args:
        return eval_key(e.func.value, obj, env).lower()
    if isinstance(e, ast.Call) and isinstance(e.func, ast.Name) and e.func.id == 'str':
        return str(eval_key(e.args[0], obj, env))
    if isinstance(e, ast.BinOp) and isinstance(e.op, ast.Add):
        return eval_key(e.left, obj, env) + eval_key(e.right, obj, env)
    from pyvc.values import Unsupported
    u = Unsupported('key expression outside subset: %s' % ast.unparse(e))
    u.label = 'index-builder'
    raise u


def _registry(ctx, eng):
    tree = ctx['tree']
    elements, isotopes, problems = extract_table(tree)
    out = [structural('registry/extraction', PROP, not problems and len(elements) > 50 and len(isotopes) > 100,
                      '%d elements, %d isotopes extracted; problems: %s' % (len(elements), len(isotopes), problems[:3]))]
    with open(os.path.join(HERE, 'data', 'periodic_table.json')) as f:
        table = json.load(f)

    def distinct(name, values, what):
        seen, dup = {}, []
        for v, who in values:
            if v in seen and seen[v] != who:
                dup.append((v, seen[v], who))
            seen[v] = who
        out.append(structural('registry/%s' % name, PROP, not dup, '%s: %d values, collisions: %s' % (what, len(values), dup[:3])))
    species = elements + isotopes
    distinct('names-distinct', [(o['name'], o['var']) for o in species], 'names over all species (ground instances)')
    distinct('element-symbols-distinct', [(o['symbol'].lower(), o['var']) for o in elements], 'lower-cased element symbols')
    distinct('isotope-symbols-distinct', [(o['symbol'].lower(), o['var']) for o in isotopes], 'lower-cased isotope symbols')
    # every key of the index builders is written by exactly one object (=> each identifier looks up its own object,
    # whatever the iteration order of dir())
    for builder, index, objs in (('_build_element_index', '_element_index', elements), ('_build_isotope_index', '_isotope_index', isotopes)):
        keys = key_exprs(tree, builder, index)
        al = key_aliases(tree, builder)
        out.append(structural('registry/%s.keys-found' % builder, PROP, len(keys) >= 3, 'key expressions: %s' % [ast.unparse(k) for k in keys]))
        vals = []
        lower_ok = True
        for o in objs:
            for k in keys:
                v = eval_key(k, o, al)
                vals.append((v, o['var']))
                lower_ok = lower_ok and v == v.lower()
        distinct('%s.single-writer' % builder, vals, 'index keys')
        out.append(structural('registry/%s.keys-lowercase' % builder, PROP, lower_ok, 'every stored key is lower case'))
    # identifiers of the property statement are among the stored keys
    ek = key_exprs(tree, '_build_element_index', '_element_index')
    ik = key_exprs(tree, '_build_isotope_index', '_isotope_index')
    miss = []
    for o in elements:
        have = {eval_key(k, o, key_aliases(tree, '_build_element_index')) for k in ek}
        for ident in (o['name'].lower(), o['symbol'].lower(), str(o['atomic_number'])):
            if ident not in have:
                miss.append((o['var'], ident))
    for o in isotopes:
        have = {eval_key(k, o, key_aliases(tree, '_build_isotope_index')) for k in ik}
        el = o['element']
        for ident in (o['name'].lower(), o['symbol'].lower(), (el['symbol'] + str(o['mass_number'])).lower(),
                      (el['name'] + str(o['mass_number'])).lower()):
            if ident not in have:
                miss.append((o['var'], ident))
    out.append(structural('registry/identifiers-indexed', PROP, not miss, 'identifiers without an index key: %s' % miss[:5]))
    # lookups lower-case their key and return Element/Isotope arguments unchanged; the (element, number) form builds symbol+number
    for fn_name, cls in (('lookup_element', 'Element'), ('lookup_isotope', 'Isotope')):
        fn = tree.find_func(EL, fn_name)
        src = ast.unparse(fn)
        out.append(structural('registry/%s.lowercases-key' % fn_name, PROP, 'key = str(v).lower()' in src, 'key = str(v).lower()'))
        out.append(structural('registry/%s.identity-on-objects' % fn_name, PROP,
                              ('if type(v) is %s:\n        return v' % cls) in src, 'objects are returned unchanged'))
        out.append(structural('registry/%s.missing-raises-ValueError' % fn_name, PROP,
                              'except KeyError' in src and 'raise ValueError' in src and 'return _%s_index[key]' % cls.lower() in src,
                              'lookup in the index, KeyError -> ValueError'))
    src = ast.unparse(tree.find_func(EL, 'lookup_isotope'))
    out.append(structural('registry/lookup_isotope.element-number-key', PROP,
                          'key = (element.symbol + str(number)).lower()' in src and 'element = lookup_element(v)' in src,
                          '(element, number) -> lower(symbol + number)'))
    # periodic table and isotope arithmetic
    bad = [(o['var'], o['symbol'], o['atomic_number'], table.get(o['symbol'])) for o in elements if table.get(o['symbol']) != o['atomic_number']]
    out.append(structural('registry/atomic-numbers-match-periodic-table', PROP, not bad, 'mismatches vs contracts/data/periodic_table.json: %s' % bad[:5]))
    bad = [o['var'] for o in isotopes if not isinstance(o['element'], dict) or o['element']['kind'] != 'Element']
    out.append(structural('registry/isotope-element-is-element', PROP, not bad, str(bad[:5])))
    bad = [(o['var'], o['mass_number'], o['atomic_number']) for o in isotopes if not (o['mass_number'] >= o['atomic_number'])]
    out.append(structural('registry/isotope-mass-number-ge-Z', PROP, not bad, str(bad[:5])))
    bad = [(o['var'], o['mass_number'], o['atomic_weight']) for o in isotopes if not abs(o['atomic_weight'] - o['mass_number']) < 0.1]
    out.append(structural('registry/isotope-weight-within-0.1u', PROP, not bad, str(bad[:5])))
    # Isotope.__init__ takes Z from its element
    init = ast.unparse(tree.find_func(EL, 'Isotope.__init__'))
    out.append(structural('registry/isotope-Z-from-element', PROP, 'super().__init__(name, symbol, element.atomic_number, atomic_weight)' in init,
                          'Isotope.__init__ passes element.atomic_number'))
    # hash fields subset of eq fields (per class), Line too
    for file, cls in ((EL, 'Element'), (EL, 'Isotope'), (LN, 'Line')):
        h = tree.find_func(file, cls + '.__hash__')
        r = tree.find_func(file, cls + '.__richcmp__')
        hf = set()
        shape_ok = False
        rets = [n for n in ast.walk(h) if isinstance(n, ast.Return)]
        if len(rets) == 1 and isinstance(rets[0].value, ast.Call) and ast.unparse(rets[0].value.func) == 'hash' \
                and len(rets[0].value.args) == 1 and isinstance(rets[0].value.args[0], ast.Tuple):
            elts = rets[0].value.args[0].elts
            shape_ok = all(isinstance(e, ast.Attribute) and isinstance(e.value, ast.Name) and e.value.id == 'self' for e in elts)
            hf = {e.attr for e in elts if isinstance(e, ast.Attribute)}
        out.append(structural('%s/hash-is-hash-of-field-tuple' % cls, PROP, shape_ok,
                              '__hash__ returns hash((self.f1, ..., self.fn)): %s' % ast.unparse(h)[-120:]))
        eqf = set()
        for n in ast.walk(r):
            if isinstance(n, ast.Compare) and isinstance(n.ops[0], ast.Eq) and isinstance(n.left, ast.Attribute) \
                    and isinstance(n.left.value, ast.Name) and n.left.value.id == 'self':
                eqf.add(n.left.attr)
        out.append(structural('%s/hash-fields-subset-of-eq-fields' % cls, PROP, bool(hf) and hf <= eqf, 'hash %s, eq %s' % (sorted(hf), sorted(eqf))))
    # no Element equals an Isotope: names differ (covered by names-distinct) and Isotope.__richcmp__ rejects non-isotopes
    return out


GENERATORS = [_registry]


def runtime_crosscheck(ctx):
    """Thorough tier: the same facts on the imported module (exhaustive over the registry, every identifier and letter case)."""
    from replaylib.native import run_native
    code = '''
import tempfile, shutil
from cherab.core.atomic import elements as E
from cherab.core.atomic.elements import Element, Isotope, lookup_element, lookup_isotope
bad = []; n = 0
def _look(f, *a):
    try:
        return f(*a)
    except Exception as ex:
        return "raised " + type(ex).__name__ + ": " + str(ex)
objs = [getattr(E, k) for k in dir(E)]
els = [o for o in objs if type(o) is Element]; iso = [o for o in objs if type(o) is Isotope]
# the registry must answer the same after the rate repository was used with isotopes and elements (its key helpers take both)
from cherab.openadas import repository as R
from cherab.openadas.repository.utility import valid_charge, encode_transition
d = tempfile.mkdtemp(prefix="verif_c19_")
try:
    for sp in (E.deuterium, E.tritium, E.helium3, E.hydrogen, E.carbon, E.protium):
        R.add_wavelength(sp, 0, (3, 2), 656.0, repository_path=d); valid_charge(sp, 1); n += 1
        if abs(R.get_wavelength(sp, 0, (3, 2), repository_path=d) - 656.0) > 0: bad.append(("wavelength", sp.name))
    if encode_transition((3, 2)) != "3 -> 2" or encode_transition(("3P4.0", "2S1.0")) != "3p4.0 -> 2s1.0": bad.append(("encode_transition",))
    for sp in els + iso:
        z = sp.atomic_number; n += 1
        if valid_charge(sp, z) is not True or valid_charge(sp, z + 1) is not False: bad.append(("valid_charge", sp.name))
finally:
    shutil.rmtree(d, ignore_errors=True)
for e in els:
    for ident in (e.name, e.symbol, str(e.atomic_number), e.name.upper(), e.symbol.upper(), e.symbol.lower(), e):
        n += 1
        if _look(lookup_element, ident) is not e: bad.append(("element", e.name, str(ident)))
for i in iso:
    for ident in (i.name, i.symbol, i.name.upper(), i.symbol.lower(), i.element.symbol + str(i.mass_number), i.element.name.upper() + str(i.mass_number), i):
        n += 1
        if _look(lookup_isotope, ident) is not i: bad.append(("isotope", i.name, str(ident)))
    n += 1
    if _look(lookup_isotope, i.element, i.mass_number) is not i: bad.append(("isotope2", i.name))
allsp = els + iso
import random
rnd = random.Random(19)
pairs = [(a, b) for a in allsp for b in allsp] if %r else [(a, a) for a in allsp] + [(rnd.choice(allsp), rnd.choice(allsp)) for _ in range(4000)] + \
    [(i, i.element) for i in iso] + [(i.element, i) for i in iso]
for a, b in pairs:
    if True:
        n += 1
        if (a == b) != (a is b): bad.append(("eq", a.name, b.name))
        if a == b and hash(a) != hash(b): bad.append(("hash", a.name, b.name))
print(json.dumps({"cases": n, "elements": len(els), "isotopes": len(iso), "bad": bad[:10]}))
''' % (ctx['tier'] == 'thorough')
    out = run_native(ctx, code)
    return {'name': 'runtime registry cross-check after repository use (bounded tier, not counted as proved)',
            'ok': bool(out) and out.get('bad') == [], 'detail': out, 'covers': ['registry'],
            'bound': 'all objects x all identifier spellings; equality/hash on %s' % ('all pairs' if ctx['tier'] == 'thorough' else 'the diagonal, isotope/element pairs and 4000 random pairs')}


BOUNDED = [runtime_crosscheck]


# ------------------------------------------------------------------------------------------------ repository key helpers (utility.py)
_register_registry = register


def register(reg):
    """plus the two key helpers of the rate repository that C19's lookups by (element, charge, transition) go through"""
    _register_registry(reg)
    U = "cherab/openadas/repository/utility.py"
    reg.contract(U, "encode_transition", PROP, sorts={"transition": ("tuple", ["str", "str"])},
        ensures=[("lowercased_levels", "result == concat(str_lower(transition[0]), ' -> ', str_lower(transition[1]))")], modifies=[])
    reg.contract(U, "valid_charge", PROP, sorts={"element": "ref:Element!", "charge": "int"},
        ensures=["iff(result, charge <= element.atomic_number)"], modifies=[])
