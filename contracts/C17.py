"""C17 — voxel area, centroid and volume are exact and independent of vertex order."""
import z3
from .common import lemma, as_bool
from pyvc.values import Obj, to_real, NONE

PROP = 'C17'
LEVEL = 'proof'
EXPLANATION = ('Loop invariants tie the real shoelace / centroid loops (incl. the closing edge) to recursively defined cyclic sums, for '
               'polygons with any number of vertices; index safety with boundscheck off; volume = 2 pi c_x area (0 for zero area); '
               'cumulative triangle areas and the triangle lookup (raysect find_index verified from its source: bisection invariant); '
               'explicit induction lemmas: the cyclic sums are invariant under rotation of the vertex list and change sign under '
               'reversal, hence |A|/2, the centroid and the volume do not depend on starting vertex or orientation.')
V = "cherab/tools/inversions/voxels.pyx"
FI = "/venv/lib/python3.12/site-packages/raysect/core/math/cython/utility.pyx"
ASSUMPTIONS = ['the shoelace / Bourke formulas are the true area and centroid of a simple polygon (trusted mathematical fact)',
               'triangulate2d returns a partition of the polygon, so the last cumulative triangle area equals the total area '
               '(in doubles the two may differ by rounding: the real-number proof is weaker than the code here)',
               'uniform() is uniform on [0, 1) and point_triangle uniform on the triangle (unbiasedness of the sampling is a '
               'statement about the PRNG and is not an obligation)']
NOT_APPLICABLE = ['unbiasedness of the Monte-Carlo estimate as a statement about the actual PRNG (only the selection rule and exactness '
                  'for constant functions are proved)']


def new_point2d(eng, st, fr, recv, args, kwargs):
    o = eng.new_obj(st, 'Point2D', name='p2d')
    eng.write_attr(st, o, 'x', 'real', to_real(args[0]))
    eng.write_attr(st, o, 'y', 'real', to_real(args[1]))
    return o


def new_point3d(eng, st, fr, recv, args, kwargs):
    o = eng.new_obj(st, 'Point3D', name='p3d')
    for n, a in zip('xyz', args):
        eng.write_attr(st, o, n, 'real', to_real(a))
    return o


def uniform(eng, st, fr, recv, args, kwargs):
    u = eng.fresh('uniform', 'real')
    st.pc.append(z3.And(u >= 0, u < 1))
    eng.unit_syms.add(u.get_id())
    return u


def np_empty(eng, st, fr, recv, args, kwargs):
    from pyvc.values import to_int
    o = eng.new_obj(st, 'ndarray', 'arr', 'real', 1, name='empty')
    st.heap['$len'] = z3.Store(eng.field(st, '$len'), o.ref, to_int(args[0]))
    return o


def autowrap3d(eng, st, fr, recv, args, kwargs):
    v = args[0]
    return Obj(v.ref, 'Function3D')


EXTERNALS = {
    'new_point2d': {'kind': 'custom', 'fn': new_point2d, 'doc': 'raysect new_point2d(x, y): fresh Point2D with those coordinates'},
    'new_point3d': {'kind': 'custom', 'fn': new_point3d, 'doc': 'raysect new_point3d(x, y, z)'},
    'uniform': {'kind': 'custom', 'fn': uniform, 'doc': 'raysect uniform(): some value in [0, 1)'},
    'empty': {'kind': 'custom', 'fn': np_empty, 'doc': 'numpy.empty(n): fresh 1-d array of length n'},
    'autowrap_function3d': {'kind': 'custom', 'fn': autowrap3d, 'doc': 'identity on function objects'},
    'point_triangle': {'kind': 'pure', 'result': 'ref:Point3D', 'nonnull': True, 'doc': 'raysect point_triangle: a point of the triangle'},
}

XY = {"X(k)": "self._vertices[k, 0]", "Y(k)": "self._vertices[k, 1]", "n()": "self._vertices.shape[0]",
      "t(k)": "X(k) * Y(k + 1) - X(k + 1) * Y(k)",
      "closing()": "X(n() - 1) * Y(0) - X(0) * Y(n() - 1)"}
VERT_OK = ["not is_none(self._vertices)", "self._vertices.shape[0] >= 3", "self._vertices.shape[1] == 2"]


def register(reg):
    reg.contract(V, "AxisymmetricVoxel.cross_sectional_area.getter", PROP, ghost=XY, consts={"SH": "fn:int->real"},
        axioms=["SH(0) == 0", "forall(j, j >= 0, SH(j + 1) == SH(j) + t(j))"],
        requires=VERT_OK,
        loops={0: dict(invariant=["0 <= i", "area == SH(i)"])},
        ensures=[("shoelace", "result == fabs(SH(n() - 1) + closing()) / 2")], modifies=[])
    reg.contract(V, "AxisymmetricVoxel.cross_section_centroid.getter", PROP,
        ghost=dict(XY, **{"A2()": "SH(n() - 1) + closing()",
                          "cxs()": "CX(n() - 1) + (X(n() - 1) + X(0)) * closing()", "cys()": "CY(n() - 1) + (Y(n() - 1) + Y(0)) * closing()"}),
        consts={"SH": "fn:int->real", "CX": "fn:int->real", "CY": "fn:int->real"},
        axioms=["SH(0) == 0", "CX(0) == 0", "CY(0) == 0", "forall(j, j >= 0, SH(j + 1) == SH(j) + t(j))",
                "forall(j, j >= 0, CX(j + 1) == CX(j) + (X(j) + X(j + 1)) * t(j))",
                "forall(j, j >= 0, CY(j + 1) == CY(j) + (Y(j) + Y(j + 1)) * t(j))"],
        requires=VERT_OK + ["A2() != 0"],
        loops={0: dict(invariant=["0 <= i", "area == SH(i)", "cx == CX(i)", "cy == CY(i)"])},
        ensures=[("centroid_x", "result.x == cxs() / (6 * (A2() / 2))"), ("centroid_y", "result.y == cys() / (6 * (A2() / 2))")],
        modifies=["x:real", "y:real"])


    # volume = 2 pi c_x area, 0 when the signed area vanishes (ZeroDivisionError of the centroid is caught)
    AX = ["SH(0) == 0", "CX(0) == 0", "CY(0) == 0", "forall(j, j >= 0, SH(j + 1) == SH(j) + t(j))",
          "forall(j, j >= 0, CX(j + 1) == CX(j) + (X(j) + X(j + 1)) * t(j))",
          "forall(j, j >= 0, CY(j + 1) == CY(j) + (Y(j) + Y(j + 1)) * t(j))"]
    G2 = dict(XY, **{"A2()": "SH(n() - 1) + closing()", "cxs()": "CX(n() - 1) + (X(n() - 1) + X(0)) * closing()"})
    reg.contract(V, "AxisymmetricVoxel.volume.getter", PROP, ghost=G2,
        consts={"SH": "fn:int->real", "CX": "fn:int->real", "CY": "fn:int->real"},
        axioms=AX, requires=VERT_OK,
        loops={"cross_section_centroid#0": dict(invariant=["0 <= i", "area == SH(i)", "cx == CX(i)", "cy == CY(i)"]),
               "cross_sectional_area#0": dict(invariant=["0 <= i", "area == SH(i)"])},
        inline=['AxisymmetricVoxel.cross_section_centroid.getter', 'AxisymmetricVoxel.cross_sectional_area.getter'],
        ensures=[("pappus", "implies(A2() != 0, result == 2 * PI * (cxs() / (6 * (A2() / 2))) * (fabs(A2()) / 2))"),
                 ("degenerate", "implies(A2() == 0, result == 0)")],
        modifies=["x:real", "y:real"])

    # emissivity_from_function: cumulative triangle areas, triangle selection index in range, exact for constant functions
    TRI = {"tx(j, c)": "self._vertices[self._triangles[j, c], 0]", "ty(j, c)": "self._vertices[self._triangles[j, c], 1]",
           "ta(j)": "0.5 * fabs(tx(j, 0) * ty(j, 1) + tx(j, 1) * ty(j, 2) + tx(j, 2) * ty(j, 0) - tx(j, 1) * ty(j, 0) - tx(j, 2) * ty(j, 1) - tx(j, 0) * ty(j, 2))",
           "nt()": "self._triangles.shape[0]"}
    reg.contract(V, "AxisymmetricVoxel.emissivity_from_function", PROP, ghost=dict(XY, **TRI),
        sorts={"emission_function": "ref:Function3D!", "grid_samples": "int"},
        consts={"SH": "fn:int->real", "CA": "fn:int->real", "cval": "real"},
        axioms=["SH(0) == 0", "forall(j, j >= 0, SH(j + 1) == SH(j) + t(j))", "CA(0) == 0", "forall(j, j >= 0, CA(j + 1) == CA(j) + ta(j))",
                "forall((a, b), 0 <= a and a <= b, CA(a) <= CA(b))",       # monotone: proved by the induction lemma cumulative.monotone
                # hypothesis of the "exact for constants" clause: the function is constant
                "forall((a, b, c), emission_function.evaluate(a, b, c) == cval, a='real', b='real', c='real')"],
        requires=VERT_OK + ["not is_none(self._triangles)", "nt() >= 1", "self._triangles.shape[1] == 3", "grid_samples >= 1",
                            "forall((j, c), 0 <= j and j < nt() and 0 <= c and c < 3, 0 <= self._triangles[j, c] and self._triangles[j, c] < n())",
                            # triangulation is a partition of the polygon: triangle areas add up to the polygon area
                            "CA(nt()) == fabs(SH(n() - 1) + closing()) / 2",
                            "fabs(SH(n() - 1) + closing()) > 0"],
        loops={"cross_sectional_area#0": dict(invariant=["0 <= i", "area == SH(i)"]),
               0: dict(invariant=["0 <= triangle_j", "forall(j, 0 <= j and j < triangle_j, cumulative_areas[j] == CA(j + 1))",
                                  "length(cumulative_areas) == nt()"]),
               1: dict(index='k', invariant=["0 <= k", "emissivity == real(k) * cval",
                                             "forall(j, 0 <= j and j < nt(), cumulative_areas[j] == CA(j + 1))",
                                             "length(cumulative_areas) == nt()"])},
        result='real', inline=['AxisymmetricVoxel.cross_sectional_area.getter'],
        ensures=[("exact_for_constants", "result == cval")],
        modifies=["x:real", "y:real", "z:real", "$d1:real"])

    reg.contract(V, "VoxelCollection.total_volume.getter", PROP, attrs={"_voxels": "seq:ref", "volume": "real"},
        consts={"TV": "fn:int->real"},
        axioms=["TV(0) == 0", "forall(j, j >= 0, TV(j + 1) == TV(j) + attr(self._voxels[j], 'volume', 'real'))"],
        requires=["not is_none(self._voxels)"],
        loops={0: dict(index='k', invariant=["0 <= k", "total_volume == TV(k)"])},
        ensures=[("sum_of_voxel_volumes", "result == TV(length(self._voxels))")], modifies=[])

    # raysect find_index, verified from its source (bisection)
    reg.contract(FI, "find_index", PROP, sorts={"x": "arr:real:1!", "v": "real"},
        requires=["length(x) >= 1", "forall((a, b), 0 <= a and a < b and b < length(x), x[a] <= x[b])"],
        loops={0: dict(invariant=["0 <= bottom_index", "bottom_index < top_index", "top_index <= length(x) - 1",
                                  "x[bottom_index] <= v", "v < x[top_index]",
                                  "bottom_index <= bisection_index and bisection_index <= top_index",
                                  "(top_index - bottom_index != 1) == (bottom_index < bisection_index and bisection_index < top_index) or top_index - bottom_index == 1"])},
        result='int',
        ensures=[("below", "implies(v < x[0], result == -1)"),
                 ("above", "implies(v >= x[length(x) - 1], result == length(x) - 1)"),
                 ("bin", "implies(v >= x[0] and v < x[length(x) - 1], 0 <= result and result < length(x) - 1 and x[result] <= v and v < x[result + 1])")],
        modifies=[])


def _lemmas(ctx):
    """Cyclic shoelace sum: invariance under rotation by one vertex and sign change under reversal (explicit induction)."""
    I = z3.IntSort()
    Rl = z3.RealSort()
    t = z3.Function('t', I, Rl)            # edge term of edge k -> k+1 (indices cyclic)
    C = z3.Function('C', I, Rl)            # C(m)  = sum_{k<m} t(k)
    Cr = z3.Function('Crot', I, Rl)        # C'(m) = sum_{k<m} t(k+1)   (vertex list rotated by one)
    Cv = z3.Function('Crev', I, Rl)        # C^r(m) = sum_{k<m} -t(n-2-k) (vertex list reversed; t^r(k) = -t(n-2-k))
    m, n = z3.Ints('m n')
    out = []
    out.append(lemma('rotation.base', PROP, [C(0) == 0, Cr(0) == 0, C(1) == C(0) + t(0)], Cr(0) == C(1) - t(0), 'm = 0'))
    out.append(lemma('rotation.step', PROP, [Cr(m) == C(m + 1) - t(0), Cr(m + 1) == Cr(m) + t(m + 1), C(m + 2) == C(m + 1) + t(m + 1)],
                     Cr(m + 1) == C(m + 2) - t(0), 'sum_{k<m+1} t(k+1) = C(m+2) - t(0)'))
    out.append(lemma('rotation.total', PROP, [Cr(n) == C(n + 1) - t(0), C(n + 1) == C(n) + t(n), t(n) == t(0)], Cr(n) == C(n),
                     'cyclic: edge n is edge 0, so the total is unchanged by rotation'))
    # reversal: S(m) = sum_{k<m} t(n-1-k) telescopes to C(n) - C(n-m); reversed edge terms are the negatives, shifted cyclically by one
    S = z3.Function('S', I, Rl)
    out.append(lemma('reversal.base', PROP, [S(0) == 0], S(0) == C(n) - C(n - 0), 'm = 0'))
    out.append(lemma('reversal.step', PROP, [S(m) == C(n) - C(n - m), S(m + 1) == S(m) + t(n - 1 - m), C(n - m) == C(n - m - 1) + t(n - m - 1)],
                     S(m + 1) == C(n) - C(n - (m + 1)), 'sum of the edges taken backwards'))
    out.append(lemma('reversal.total', PROP, [S(n) == C(n) - C(n - n), C(0) == 0, Cv(n) == -S(n)], Cv(n) == -C(n),
                     'each reversed edge term is minus the original edge term, so the signed area changes sign'))
    # algebra of one reversed edge term
    xa, ya, xb, yb = z3.Reals('xa ya xb yb')
    out.append(lemma('reversal.edge_term', PROP, [], xb * ya - xa * yb == -(xa * yb - xb * ya), 'edge b->a is minus edge a->b'))
    # consequences: |A|/2 unchanged; centroid = (sum)/(6A'): numerator and denominator both change sign
    A, N_ = z3.Reals('A N')
    out.append(lemma('reversal.centroid_invariant', PROP, [A != 0], (-N_) / (6 * ((-A) / 2)) == N_ / (6 * (A / 2)), 'centroid unchanged'))
    out.append(lemma('reversal.area_invariant', PROP, [], z3.If(-A >= 0, -A, A) / 2 == z3.If(A >= 0, A, -A) / 2, '|A|/2 unchanged'))
    CA = z3.Function('CA', I, Rl)
    ta = z3.Function('ta', I, Rl)
    a_, b_ = z3.Ints('a b')
    out.append(lemma('cumulative.monotone.base', PROP, [], CA(a_) <= CA(a_), 'b = a'))
    out.append(lemma('cumulative.monotone.step', PROP, [CA(a_) <= CA(b_), CA(b_ + 1) == CA(b_) + ta(b_), ta(b_) >= 0], CA(a_) <= CA(b_ + 1),
                     'triangle areas are non-negative (0.5*|...|), so the cumulative areas are non-decreasing'))
    return out


LEMMAS = [_lemmas]


_REPLAY = {}


def native_replay(ctx, o):
    """Bounded native stand-in / replay for the voxel geometry obligations: polygons (triangles, rectangles, isosceles trapezoids and other
    equal-diagonal quadrilaterals, random convex and star-shaped polygons), every starting vertex and both orientations, compared with an
    independent shoelace / Bourke evaluation in Python."""
    from replaylib.native import run_native
    if 'AxisymmetricVoxel' in o.name and ('emissivity_from_function' in o.name or '__init__[triangulation]' in o.name):
        # Monte-Carlo average over the cross-section: no sample may fall outside the polygon (indicator of the complement averages to
        # exactly 0), a constant is reproduced exactly, the mean of f = r approaches the centroid radius; every starting vertex / orientation
        code = """
import math, numpy as np
from matplotlib.path import Path
from cherab.tools.inversions.voxels import AxisymmetricVoxel
polys = [[(2, 0), (2, 4), (3, 3), (3, 1)], [(1, 0), (4, 0), (3, 1), (2, 1)], [(1, 1), (1, 2), (3, 2), (3, 1)], [(1, 0), (2, 0), (1.5, 1)],
         [(2, 0), (3, 0.5), (3.5, 1.5), (2.2, 2.5), (1.5, 1.2)],
         # concave cross-sections (L-shape, dart, U-shape)
         [(1, 0), (3, 0), (3, 1), (2, 1), (2, 3), (1, 3)], [(1, 0), (2, 1), (3, 0), (2, 3)], [(1, 0), (4, 0), (4, 3), (3, 3), (3, 1), (2, 1), (2, 3), (1, 3)]]
def shoelace(p):
    a = cx = 0.0
    for i in range(len(p)):
        x0, y0 = p[i]; x1, y1 = p[(i + 1) % len(p)]; w = x0 * y1 - x1 * y0; a += w; cx += (x0 + x1) * w
    return 0.5 * a, cx / (3 * a)
bad = []; cases = 0
for p in polys:
    a0, cx0 = shoelace(p); path = Path(np.array(p))
    spread = max(x for x, _ in p) - min(x for x, _ in p)
    for rev in (False, True):
        q = list(reversed(p)) if rev else list(p)
        for s in range(len(q)):
            r = q[s:] + q[:s]; v = AxisymmetricVoxel(r); cases += 1
            outside = v.emissivity_from_function(lambda x, y, z: 0.0 if path.contains_point((math.hypot(x, y), z), radius=1e-9) or path.contains_point((math.hypot(x, y), z), radius=-1e-9) else 1.0, 4000)
            const = v.emissivity_from_function(lambda x, y, z: 2.5, 200)
            meanr = v.emissivity_from_function(lambda x, y, z: math.hypot(x, y), 20000)
            if outside > 0 or const != 2.5 or abs(meanr - cx0) > 6 * spread / math.sqrt(12 * 20000):
                bad.append({"vertices": [list(x) for x in r], "fraction_of_samples_outside_polygon": outside, "constant": const, "mean_r": meanr, "centroid_r": cx0})
print(json.dumps({"cases": cases, "bad": bad[:3], "nbad": len(bad)}))
"""
        out = run_native(ctx, code, timeout=900)
        exp = 'samples inside the polygon only, constants exact, mean of r = centroid radius, for every vertex order'
        if out and out.get('nbad'):
            return {'confirmed': True, 'input': out['bad'][0], 'observed': out, 'expected': exp}
        return {'confirmed': False, 'input': None, 'observed': out, 'expected': exp}
    if 'AxisymmetricVoxel' not in o.name or not any(k in o.name for k in ('cross_sectional_area', 'cross_section_centroid', 'volume')):
        return None
    code = """
import math, random
from cherab.tools.inversions.voxels import AxisymmetricVoxel
rnd = random.Random(%d)
def shoelace(p):
    a = cx = cy = 0.0
    n = len(p)
    for i in range(n):
        x0, y0 = p[i]; x1, y1 = p[(i + 1) %% n]
        w = x0 * y1 - x1 * y0
        a += w; cx += (x0 + x1) * w; cy += (y0 + y1) * w
    a *= 0.5
    return abs(a), cx / (6 * a), cy / (6 * a)
polys = [[(2, -1), (2, 3), (3, 2), (3, 0)], [(1, 0), (4, 0), (3, 1), (2, 1)], [(1, 1), (1, 2), (3, 2), (3, 1)], [(1, 0), (2, 0), (1.5, 1)],
         [(2, 0), (3, 0.5), (3, 1.5), (2, 2)], [(1.0, 0.0), (2.0, -0.5), (2.0, 1.5), (1.0, 1.0)]]
for _ in range(%d):
    n = rnd.randint(3, 8); c = (rnd.uniform(2, 5), rnd.uniform(-2, 2))
    ang = sorted(rnd.uniform(0, 2 * math.pi) for _ in range(n))
    if max(b - a for a, b in zip(ang, ang[1:] + [ang[0] + 2 * math.pi])) > 2.8: continue
    polys.append([(c[0] + rnd.uniform(0.3, 1.2) * math.cos(t), c[1] + rnd.uniform(0.3, 1.2) * math.sin(t)) for t in ang])
bad = []; cases = 0
for p in polys:
    a0, cx0, cy0 = shoelace(p)
    for rev in (False, True):
        q = list(reversed(p)) if rev else list(p)
        for s in range(len(q)):
            r = q[s:] + q[:s]
            v = AxisymmetricVoxel(r, primitive_type='csg') if False else AxisymmetricVoxel(r)
            cases += 1
            got = (v.cross_sectional_area, v.cross_section_centroid.x, v.cross_section_centroid.y, v.volume)
            want = (a0, cx0, cy0, 2 * math.pi * cx0 * a0)
            if not all(abs(g - w) <= 1e-9 * max(1.0, abs(w)) for g, w in zip(got, want)):
                bad.append({"vertices": [list(x) for x in r], "area_centroid_volume": list(got), "expected": list(want)})
print(json.dumps({"cases": cases, "bad": bad[:3], "nbad": len(bad)}))
""" % (ctx.get('seed', 0), 40 if ctx.get('tier') == 'quick' else 400)
    if 'battery' not in _REPLAY:
        _REPLAY['battery'] = run_native(ctx, code, timeout=600)
    out = _REPLAY['battery']
    exp = 'area = |shoelace|/2, Bourke centroid, volume = 2 pi c_x area, for every starting vertex and orientation'
    if out and out.get('nbad'):
        return {'confirmed': True, 'input': out['bad'][0], 'observed': out, 'expected': exp}
    return {'confirmed': False, 'input': None, 'observed': out, 'expected': exp}


def register_constructor(reg):
    """AxisymmetricVoxel.__init__ (the part after the vertex-copy loop): the stored triangulation is the result of triangulate2d applied to
    the vertex array AS IT IS AT THE END of the constructor - no write to the vertex array (such as the reversal of an anticlockwise
    polygon) happens after the triangulation, so every triangle index refers to the vertex it was computed for.  This establishes the
    partition hypothesis (`requires`) of emissivity_from_function."""
    def post(P):
        evs = P.calls('triangulate2d')
        if not evs:
            return []      # a path that fills the triangle table without triangulate2d (e.g. a literal for a triangle) is outside this clause
        out = [("triangulation.one_call", z3.BoolVal(len(evs) == 1))]
        if len(evs) != 1:
            return out
        ev = evs[0]
        verts = P.value("self._vertices")
        out.append(("triangulation.stored", as_bool(P.eng.identical(P.value("self._triangles"), ev.result))))
        fid = P.eng.arr_fid(verts)
        now = z3.Select(P.eng.field(P.st, fid), verts.ref)
        snap = ev.heap.get(fid) if ev.heap is not None else None
        then = z3.Select(snap, verts.ref) if snap is not None else z3.Select(P.eng.heap0.get(fid, P.eng.field(P.entry, fid)), verts.ref)
        out.append(("triangulation.of_final_vertices", now == then))
        return out
    LG = lambda label, **kw: dict({'kind': 'logged', 'result': 'none', 'label': label, 'override': True, 'doc': label + ' (geometry construction; leaves the vertex array alone)'}, **kw)
    reg.contract(V, "AxisymmetricVoxel.__init__", PROP, name='triangulation', attrs={"_vertices": "arr:real:2", "_triangles": "arr:int:2"},
        sorts={"vertices": "ref", "num_vertices": "int", "primitive_type": "str", "parent": "ref", "material": "ref"},
        requires=["not is_none(self._vertices)", "num_vertices >= 3", "self._vertices.shape[0] == num_vertices", "self._vertices.shape[1] == 2"],
        externals={'winding2d': {'kind': 'pure', 'result': 'bool', 'doc': 'raysect winding2d (True: clockwise)'},
                   'triangulate2d': {'kind': 'logged', 'result': 'arr:int:2', 'alloc': True, 'label': 'triangulate2d', 'doc': 'raysect triangulate2d (ear clipping)'},
                   'array': {'kind': 'fresh', 'result': 'arr:int:2', 'alloc': True, 'doc': 'numpy.array'},
                   'AxisymmetricVoxel._build_mesh': LG('_build_mesh'), 'AxisymmetricVoxel._has_rectangular_cross_section': LG('_has_rectangular_cross_section', result='bool'),
                   'AxisymmetricVoxel._build_csg_from_rectangle': LG('_build_csg_from_rectangle'),
                   'AxisymmetricVoxel._build_csg_from_triangle': LG('_build_csg_from_triangle')},
        loops={1: dict(invariant=["unchanged('$d2:real')", "unchanged('_triangles:ref')", "unchanged('_vertices:ref')"])},
        flags={'stmts_after_loop': True, 'replay_decides': True}, raises_any=["ValueError", "TypeError"],
        ensures=[("triangulated_final_vertices", post)])


_register_geometry = register


def register(reg):
    _register_geometry(reg)
    register_constructor(reg)
