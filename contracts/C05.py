"""C05 — beam CX emission is a population-weighted mean, beam emission a charged sum."""
import z3
from .common import call_cases, lemma, as_bool

PROP = 'C05'
LEVEL = 'proof'
EXPLANATION = ('Contracts on the real BeamCXLine / BeamEmissionLine / Plasma bodies: emission guards and the radiance handed to '
               'the line shape, loop invariants tying the composite CX rate, the beam population and the beam-emission rate to '
               'recursively defined ghost sums (which are the documented expressions), call arguments of every rate; induction '
               'lemmas: the composite rate lies between the smallest and largest coefficient.')
EXPLANATION += '  BeamCXLine._populate_cache: an arbitrary iteration of the rate loop (each excited rate gets its own freshly allocated population list with exactly one pair per plasma species).'
CX = "cherab/core/model/beam/charge_exchange.pyx"
BE = "cherab/core/model/beam/beam_emission.pyx"
PL = "cherab/core/plasma/node.pyx"

SPECTRUM_OK = ["spectrum.bins >= 1", "not is_none(spectrum.samples_mv)"]
ARGS = {"beam_point": "ref:Point3D!", "plasma_point": "ref:Point3D!", "beam_direction": "ref:Vector3D!",
        "observation_direction": "ref:Vector3D!", "spectrum": "ref:Spectrum!"}

EXTERNALS = {
    'Beam.density': {'kind': 'pure', 'result': 'real', 'override': True, 'doc': 'Beam.density(x,y,z) (verified under C04)'},
    'Plasma.ion_density': {'kind': 'pure', 'result': 'real', 'override': True, 'doc': 'Plasma.ion_density verified separately in this check'},
    'Plasma.z_effective': {'kind': 'pure', 'result': 'real', 'override': True, 'doc': 'Plasma.z_effective verified separately in this check'},
    'Vector3D.sub': {'kind': 'pure', 'result': 'ref:Vector3D', 'override': True, 'doc': 'raysect vector subtraction pure'},
}
ASSUMPTIONS = ['neutrals (Z = 0) contribute 0 * c(E, x/0, T): the division is C division (cdivision) whose value is unconstrained; '
               'as in the property statement the coefficients of neutrals are the provider\'s null rates',
               'relative populations k_i >= 0 and rate coefficients >= 0 (hypotheses of the weighted-mean lemma)']
NOT_APPLICABLE = []

dens = lambda o: "%s.distribution.density(x, y, z)" % o
temp = lambda o: "%s.distribution.effective_temperature(x, y, z)" % o
vel = lambda o: "%s.distribution.bulk_velocity(x, y, z)" % o


def register(reg):
    XYZ = {"x0()": "plasma_point.x", "y0()": "plasma_point.y", "z0()": "plasma_point.z"}
    # ------------------------------------------------------------------ BeamCXLine.emission
    g = {"nb()": "self._beam.density(beam_point.x, beam_point.y, beam_point.z)",
         "nr()": "self._target_species.distribution.density(plasma_point.x, plasma_point.y, plasma_point.z)",
         "tr()": "self._target_species.distribution.effective_temperature(plasma_point.x, plasma_point.y, plasma_point.z)",
         "vr()": "self._target_species.distribution.bulk_velocity(plasma_point.x, plasma_point.y, plasma_point.z)",
         "vd()": "beam_direction.normalise().mul(evamu_to_ms(self._beam.get_energy()))",
         "eint()": "ms_to_evamu(vd().sub(vr()).get_length())"}
    reg.contract(CX, "BeamCXLine.emission", PROP, sorts=ARGS, ghost=g,
        requires=SPECTRUM_OK + ["not is_none(self._beam)", "not is_none(self._target_species)", "not is_none(self._lineshape)",
                                "not is_none(self._plasma)", "not is_none(self._ground_beam_rate)",
                                "not is_none(self._excited_beam_data)"],
        ensures=[
            ("calls", call_cases(['_composite_cx_rate', 'add_line'], [
                ("nb() == 0 or nr() == 0 or tr() == 0", []),
                ("nb() != 0 and nr() != 0 and tr() != 0", [
                    ('_composite_cx_rate', ["plasma_point.x", "plasma_point.y", "plasma_point.z", "eint()", "vd()", "tr()"]),
                    ('add_line', ["RECIP_4_PI * nb() * nr() * r0", "plasma_point", "observation_direction", "spectrum"])])])),
            ("dark", "implies(nb() == 0 or nr() == 0 or tr() == 0, same(result, spectrum))"),
            ("spectrum_untouched_here", "unchanged('$d1:real')")])

    # ------------------------------------------------------------------ composite CX rate
    cg = {"nion()": "self._plasma.ion_density(x, y, z)", "zeff()": "self._plasma.z_effective(x, y, z)",
          "bmag()": "self._plasma.get_b_field().evaluate(x, y, z).get_length()",
          "cr(j)": "typed(as_seq(self._excited_beam_data[j])[0], 'BeamCXPEC')",
          "pd(j)": "as_seq(as_seq(self._excited_beam_data[j])[1])",
          "q1()": "self._ground_beam_rate.evaluate(interaction_energy, receiver_temperature, nion(), zeff(), bmag())",
          "q(j)": "cr(j).evaluate(interaction_energy, receiver_temperature, nion(), zeff(), bmag())",
          "pop(j)": "G_pop(x, y, z, donor_velocity, pd(j))"}
    reg.contract(CX, "BeamCXLine._composite_cx_rate", PROP,
        sorts={"donor_velocity": "ref:Vector3D!"}, attrs={"_excited_beam_data": "seq:ref"}, ghost=cg,
        consts={"G_pop": "fn:real,real,real,ref,ref->real", "S1": "fn:int->real", "S2": "fn:int->real"},
        axioms=["S1(0) == 0", "S2(0) == 0", "forall(j, j >= 0, S1(j + 1) == S1(j) + pop(j) * q(j))",
                "forall(j, j >= 0, S2(j + 1) == S2(j) + pop(j))"],
        requires=["not is_none(self._plasma)", "not is_none(self._ground_beam_rate)", "not is_none(self._excited_beam_data)"],
        loops={0: dict(index='k', invariant=["0 <= k", "rate == q1() + S1(k)", "total_population == 1 + S2(k)"])},
        result='real',
        ensures=[("weighted_mean", "result == (q1() + S1(length(self._excited_beam_data))) / (1 + S2(length(self._excited_beam_data)))")],
        modifies=[])

    # _populate_cache: one arbitrary iteration of the loop over the CX rates (the shape of _excited_beam_data that _composite_cx_rate relies on):
    # a ground-state rate is stored as such; an excited rate is appended together with a list that holds, for EVERY plasma species in
    # composition order and for nothing else, the pair (species, population coefficient of THIS rate's metastable for that species)
    PC = {"comp()": "as_seq(self._plasma._composition)", "nsp()": "length(comp())", "sp(q)": "typed(comp()[q], 'Species')",
          "cf(q)": "self._atomic_data.beam_population_rate(donor_element, rate.donor_metastable, sp(q).element, sp(q).charge)",
          "E()": "self._excited_beam_data", "pd(q)": "as_seq(population_data[q])",
          "last()": "as_seq(E()[length(E()) - 1])", "lpd(q)": "as_seq(as_seq(last()[1])[q])"}
    reg.contract(CX, "BeamCXLine._populate_cache", PROP, name='rate-iteration', flags={'loop_body': 0}, ghost=PC,
        sorts={"rate": "ref:BeamCXPEC!", "population_data": "seq:ref", "donor_element": "ref:Element!", "rates": "seq:ref"},
        attrs={"_excited_beam_data": "seq:ref"},
        externals={'.beam_population_rate': {'kind': 'pure', 'result': 'ref:BeamPopulationRate', 'doc': 'atomic data provider: population coefficient'},
                   'Composition.__iter__': {'kind': 'pure', 'result': 'seq:ref', 'doc': 'iteration order of the composition'}},
        requires=["not is_none(self._plasma)", "not is_none(self._atomic_data)", "not is_none(self._excited_beam_data)",
                  "not same(population_data, self._excited_beam_data)",
                  # the list being built was allocated by the statement just before the loop: it is not the plasma's composition container
                  "not same(self._excited_beam_data, self._plasma._composition)"],
        loops={1: dict(index='m', invariant=["0 <= m", "not is_none(population_data)", "length(population_data) == m",
                                             "not same(population_data, self._excited_beam_data)",
                                             "forall(q, 0 <= q and q < m, older(population_data[q]) and not alloc0(population_data[q]))", "older(population_data)",
                                             "forall(q, 0 <= q and q < m, same(pd(q)[0], sp(q)) and same(pd(q)[1], cf(q)))",
                                             "unchanged('_excited_beam_data:ref') and length(E()) == old(length(E()))",
                                             "forall(q, 0 <= q and q < length(E()), same(E()[q], old(E()[q])))"])},
        ensures=[("ground_rate_stored", "implies(rate.donor_metastable == 1, same(self._ground_beam_rate, rate) and length(E()) == old(length(E())))"),
                 ("excited_rate_appended", "implies(rate.donor_metastable != 1, length(E()) == old(length(E())) + 1 and same(last()[0], rate))"),
                 ("own_population_list", "implies(rate.donor_metastable != 1, length(as_seq(last()[1])) == nsp() and "
                  "forall(q, 0 <= q and q < nsp(), same(lpd(q)[0], sp(q)) and same(lpd(q)[1], cf(q))))"),
                 ("earlier_entries_kept", "forall(q, 0 <= q and q < old(length(E())), same(E()[q], old(E()[q])))")])

    # modular view of _beam_population used above: a function of its arguments (purity proved by the frame of the variant below)
    reg.contract(CX, "BeamCXLine._beam_population", PROP,
        sorts={"beam_velocity": "ref:Vector3D!", "population_data": "seq:ref"},
        consts={"G_pop": "fn:real,real,real,ref,ref->real"},
        result='real', ensures=["result == G_pop(x, y, z, beam_velocity, population_data)"], modifies=[], trusted=True,
        note='abstraction: the value is a function of the arguments (and the unchanged plasma state); the formula is proved in variant [formula]')

    pg = {"sp(j)": "typed(as_seq(population_data[j])[0], 'Species')",
          "cf(j)": "typed(as_seq(population_data[j])[1], 'BeamPopulationRate')",
          "ei(j)": "ms_to_evamu(beam_velocity.sub(%s).get_length())" % vel("sp(j)"),
          "n()": "length(population_data)"}
    reg.contract(CX, "BeamCXLine._beam_population", PROP, name='formula',
        sorts={"beam_velocity": "ref:Vector3D!", "population_data": "seq:ref!"}, ghost=pg,
        consts={"DS": "fn:int->real", "PC": "fn:int->real", "TN": "fn:int->real"},
        axioms=["DS(0) == 0", "PC(0) == 0", "TN(0) == 0",
                "forall(j, j >= 0, DS(j + 1) == DS(j) + sp(j).charge * sp(j).charge * %s)" % dens("sp(j)"),
                "forall(j, j >= 0, TN(j + 1) == TN(j) + %s * sp(j).charge)" % dens("sp(j)"),
                "forall(j, j >= 0, PC(j + 1) == PC(j) + %s * sp(j).charge * cf(j).evaluate(ei(j), DS(n()) / sp(j).charge, %s))"
                % (dens("sp(j)"), temp("sp(j)"))],
        loops={0: dict(index='k', invariant=["0 <= k", "density_sum == DS(k)"]),
               1: dict(index='k', invariant=["0 <= k", "pop_coeff == PC(k)", "total_ne == TN(k)", "density_sum == DS(n())"])},
        result='real',
        ensures=[("population", "result == PC(n()) / TN(n())")], modifies=[])

    # ------------------------------------------------------------------ beam emission
    bg = {"nb()": "self._beam.density(beam_point.x, beam_point.y, beam_point.z)",
          "bv()": "beam_direction.normalise().mul(evamu_to_ms(self._beam.get_energy()))"}
    reg.contract(BE, "BeamEmissionLine.emission", PROP, sorts=ARGS, ghost=bg,
        requires=SPECTRUM_OK + ["not is_none(self._beam)", "not is_none(self._rates_list)", "not is_none(self._lineshape)"],
        ensures=[
            ("calls", call_cases(['_beam_emission_rate', 'beam_add_line'], [
                ("nb() == 0", []),
                ("nb() != 0", [
                    ('_beam_emission_rate', ["plasma_point.x", "plasma_point.y", "plasma_point.z", "bv()"]),
                    ('beam_add_line', ["RECIP_4_PI * nb() * r0", "beam_point", "plasma_point", "beam_direction",
                                       "observation_direction", "spectrum"])])])),
            ("dark", "implies(nb() == 0, same(result, spectrum))"),
            ("spectrum_untouched_here", "unchanged('$d1:real')")])

    eg = {"sp(j)": "typed(as_seq(self._rates_list[j])[0], 'Species')",
          "rf(j)": "typed(as_seq(self._rates_list[j])[1], 'BeamEmissionPEC')",
          "ei(j)": "ms_to_evamu(objsub(beam_velocity, %s).get_length())" % vel("sp(j)"),
          "n()": "length(self._rates_list)"}
    reg.contract(BE, "BeamEmissionLine._beam_emission_rate", PROP,
        sorts={"beam_velocity": "ref:Vector3D!"}, attrs={"_rates_list": "seq:ref"}, ghost=eg,
        consts={"DS": "fn:int->real", "ER": "fn:int->real"},
        axioms=["DS(0) == 0", "ER(0) == 0",
                "forall(j, j >= 0, DS(j + 1) == DS(j) + sp(j).charge * sp(j).charge * %s)" % dens("sp(j)"),
                "forall(j, j >= 0, ER(j + 1) == ER(j) + %s * sp(j).charge * rf(j).evaluate(ei(j), DS(n()) / sp(j).charge, %s))"
                % (dens("sp(j)"), temp("sp(j)"))],
        requires=["not is_none(self._rates_list)"],
        loops={0: dict(index='k', invariant=["0 <= k", "density_sum == DS(k)"]),
               1: dict(index='k', invariant=["0 <= k", "rate == ER(k)", "density_sum == DS(n())"])},
        result='real',
        ensures=[("charged_sum", "result == ER(n())")], modifies=[])

    # ------------------------------------------------------------------ Plasma.z_effective / ion_density
    zg = {"sp(j)": "typed(as_seq(self._composition)[j], 'Species')", "n()": "length(as_seq(self._composition))",
          "d(j)": dens("sp(j)")}
    reg.contract(PL, "Plasma.z_effective", PROP, ghost=zg,
        consts={"NZ": "fn:int->real", "NZ2": "fn:int->real"},
        axioms=["NZ(0) == 0", "NZ2(0) == 0",
                "forall(j, j >= 0, NZ(j + 1) == NZ(j) + ite(sp(j).charge > 0, d(j) * sp(j).charge, 0))",
                "forall(j, j >= 0, NZ2(j + 1) == NZ2(j) + ite(sp(j).charge > 0, d(j) * sp(j).charge * sp(j).charge, 0))"],
        requires=["not is_none(self._composition)"],
        loops={0: dict(index='k', invariant=["0 <= k", "sum_nz == NZ(k)", "sum_nz2 == NZ2(k)"])},
        raises={"ValueError": "NZ2(n()) == 0"},
        result='real',
        ensures=[("zeff", "result == NZ2(n()) / NZ(n())")], modifies=[])
    reg.contract(PL, "Plasma.ion_density", PROP, ghost=zg,
        consts={"NI": "fn:int->real"},
        axioms=["NI(0) == 0", "forall(j, j >= 0, NI(j + 1) == NI(j) + d(j))"],
        requires=["not is_none(self._composition)"],
        loops={0: dict(index='k', invariant=["0 <= k", "ion_density == NI(k)"])},
        result='real', ensures=[("sum", "result == NI(n())")], modifies=[])


def _lemmas(ctx):
    R = z3.Real
    m, M, q, p, s1, s2, q1 = R('m'), R('M'), R('q'), R('p'), R('s1'), R('s2'), R('q1')
    num, den = q1 + s1, 1 + s2
    return [
        lemma('weighted_mean.base', PROP, [m <= q1, q1 <= M], z3.And(m * 1 <= q1, q1 <= M * 1), 'k = 0: numerator q1, denominator 1'),
        lemma('weighted_mean.step', PROP, [m * den <= num, num <= M * den, p >= 0, m <= q, q <= M, den > 0],
              z3.And(m * (den + p) <= num + p * q, num + p * q <= M * (den + p)),
              'adding a component with weight p >= 0 and coefficient in [m, M] keeps m*den <= num <= M*den'),
        lemma('weighted_mean.quotient', PROP, [m * den <= num, num <= M * den, den > 0], z3.And(m <= num / den, num / den <= M),
              'hence the composite rate num/den lies between the smallest and largest coefficient'),
    ]


LEMMAS = [_lemmas]


def _cache_structure(ctx, eng):
    """What the arbitrary-iteration contract of _populate_cache assumes about the statements around the loop: the list of excited-state data
    is a fresh empty list created immediately before the loop over the rates."""
    import ast
    from .common import structural
    fn = ctx['tree'].find_func(CX, "BeamCXLine._populate_cache")
    out = []
    loops = [i for i, s in enumerate(fn.body) if isinstance(s, ast.For)]
    ok = False
    if loops and ast.unparse(fn.body[loops[0]].iter) == "rates":
        before = [ast.unparse(s_) for s_ in fn.body[:loops[0]]]
        js = [j for j, t in enumerate(before) if t == "self._excited_beam_data = []"]
        ok = bool(js) and not any('_excited_beam_data' in t for t in before[js[-1] + 1:])
    out.append(structural('BeamCXLine._populate_cache/fresh-list-before-rate-loop', PROP, ok,
                          'self._excited_beam_data = [] is executed before `for rate in rates` and the list is not touched in between'))
    return out


GENERATORS = [_cache_structure]


_register_own = register


def register(reg, ctx=None):
    """plus: the container mutators and scene-graph hooks the derived beam state hangs on always notify (shared with C01)"""
    _register_own(reg)
    from .C01 import register_notifying_mutators
    register_notifying_mutators(reg, PROP)
