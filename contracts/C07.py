"""C07 — OpenADAS rates reproduce stored tables and honour range / missing-data policy."""
import ast
import z3
from .common import structural, as_bool, lemma
from pyvc.values import Obj, BoundMethod, to_real

PROP = 'C07'
LEVEL = 'proof'
EXPLANATION = ('Accessors of the OpenADAS provider (16, each for Element and Isotope arguments): the repository getter receives the element of an '
               'isotope, the wavelength lookup keeps the isotope, the rate object is constructed from the fetched data with the provider\'s '
               'extrapolation flag; on missing data RuntimeError escapes iff null rates were not requested, otherwise the family\'s Null rate is '
               'constructed with a signature-correct call (arity obligation against the extracted constructor).  Rate classes: evaluate() returns '
               '0 for any non-positive argument and 10**I(log10 ...) otherwise, Null*.evaluate = 0; constructors hand the documented converted '
               'tables and extrapolation kinds to the raysect interpolators (call-argument obligations).')
OA = "cherab/openadas/openadas.py"
RP = "cherab/openadas/rates/pec.pyx"
RA = "cherab/openadas/rates/atomic.pyx"
RR = "cherab/openadas/rates/radiated_power.pyx"
RB = "cherab/openadas/rates/beam.pyx"
RC = "cherab/openadas/rates/cx.pyx"
ASSUMPTIONS = ['raysect interpolators reproduce their knots, raise outside the range for extrapolation type "none" and return finite values '
               'otherwise (assumed external contract; grid-point reproduction and range policy follow from it and the constructor obligations)',
               'repository getters either return the stored data or raise RuntimeError (C06)',
               'numpy log10 / min / max element-wise; 10**log10(t) = t for t > 0']
NOT_APPLICABLE = ['"finite beyond the range when extrapolation is permitted": a property of the raysect interpolators, not of cherab code']

# accessor table: name, parameters, repository getter, which arguments are reduced to their element, wavelength call (args) or None,
# rate class, its constructor arguments (after the fetched data), null class and the arguments it must be constructed with
ACC = [
    ("ionisation_rate", ["ion", "charge"], "get_ionisation_rate", ["ion"], None, "IonisationRate", ["data"], "NullIonisationRate", []),
    ("recombination_rate", ["ion", "charge"], "get_recombination_rate", ["ion"], None, "RecombinationRate", ["data"], "NullRecombinationRate", []),
    ("thermal_cx_rate", ["donor_element", "donor_charge", "receiver_element", "receiver_charge"], "get_thermal_cx_rate",
     ["donor_element", "receiver_element"], None, "ThermalCXRate", ["data"], "NullThermalCXRate", []),
    ("beam_stopping_rate", ["beam_ion", "plasma_ion", "charge"], "get_beam_stopping_rate", ["beam_ion", "plasma_ion"], None, "BeamStoppingRate", ["data"],
     "NullBeamStoppingRate", []),
    ("beam_population_rate", ["beam_ion", "metastable", "plasma_ion", "charge"], "get_beam_population_rate", ["beam_ion", "plasma_ion"], None,
     "BeamPopulationRate", ["data"], "NullBeamPopulationRate", []),
    ("beam_emission_pec", ["beam_ion", "plasma_ion", "charge", "transition"], "get_beam_emission_rate", ["beam_ion", "plasma_ion"],
     ["beam_ion", "0", "transition"], "BeamEmissionPEC", ["data", "wl"], "NullBeamEmissionPEC", []),
    ("impact_excitation_pec", ["ion", "charge", "transition"], "get_pec_excitation_rate", ["ion"], ["ion", "charge", "transition"], "ImpactExcitationPEC",
     ["wl", "data"], "NullImpactExcitationPEC", []),
    ("recombination_pec", ["ion", "charge", "transition"], "get_pec_recombination_rate", ["ion"], ["ion", "charge", "transition"], "RecombinationPEC",
     ["wl", "data"], "NullRecombinationPEC", []),
    ("line_radiated_power_rate", ["ion", "charge"], "get_line_radiated_power_rate", ["ion"], None, "LineRadiationPower", ["E:ion", "charge", "data"],
     "NullLineRadiationPower", ["E:ion", "charge"]),
    ("continuum_radiated_power_rate", ["ion", "charge"], "get_continuum_radiated_power_rate", ["ion"], None, "ContinuumPower", ["E:ion", "charge", "data"],
     "NullContinuumPower", ["E:ion", "charge"]),
    ("cx_radiated_power_rate", ["ion", "charge"], "get_cx_radiated_power_rate", ["ion"], None, "CXRadiationPower", ["E:ion", "charge", "data"],
     "NullCXRadiationPower", ["E:ion", "charge"]),
]
SPECIES = {"ion", "donor_element", "receiver_element", "beam_ion", "plasma_ion", "donor_ion", "receiver_ion"}


def accessor_post(name, params, getter, elementised, wl_args, cls, ctor, null, nullargs, isotope):
    def el(p):
        return ("%s.element" % p) if (isotope and p in elementised) else p

    def post(P):
        out = []
        g = P.calls(getter)
        out.append(("%s.getter_called_once" % name, z3.BoolVal(len(g) == 1)))
        if len(g) != 1:
            return out
        want = [el(p) for p in params]
        for i, w in enumerate(want):
            got = g[0].args[i] if i < len(g[0].args) else None
            out.append(("%s.getter_arg.%s" % (name, params[i]), as_bool(P.eng.equal(got, P.value(w), P.st, P.frame)) if not isinstance(got, Obj)
                        else as_bool(P.eng.identical(got, P.value(w)))))
        out.append(("%s.getter_repository_path" % name, as_bool(P.eng.identical(g[0].kwargs.get('repository_path'), P.value("self._data_path")))))
        res = P.result
        cons = [e for e in P.st.log if e.label == 'construct:' + cls]
        if cons:
            ev = cons[-1]
            out.append(("%s.returns_constructed_rate" % name, as_bool(P.eng.identical(res, ev.result))))
            wl = P.calls('self.wavelength')
            for i, a in enumerate(ctor):
                got = ev.args[i] if i < len(ev.args) else None
                if a == 'data':
                    out.append(("%s.ctor.data" % name, as_bool(P.eng.identical(got, g[0].result))))
                elif a == 'wl':
                    okw = len(wl) == 1
                    out.append(("%s.ctor.wavelength_looked_up" % name, z3.BoolVal(okw)))
                    if okw:
                        out.append(("%s.ctor.wavelength" % name, to_real(got) == to_real(wl[0].result)))
                        for j, wa in enumerate(wl_args):
                            gotw = wl[0].args[j]
                            wantw = P.value(wa)
                            out.append(("%s.wavelength_arg%d" % (name, j), as_bool(P.eng.identical(gotw, wantw)) if isinstance(gotw, Obj)
                                        else as_bool(P.eng.equal(gotw, wantw, P.st, P.frame))))
                elif a.startswith('E:'):
                    out.append(("%s.ctor.%s" % (name, a), as_bool(P.eng.identical(got, P.value(el(a[2:]))))))
                else:
                    out.append(("%s.ctor.%s" % (name, a), as_bool(P.eng.equal(got, P.value(a), P.st, P.frame))))
            out.append(("%s.ctor.extrapolate" % name, as_bool(P.eng.equal(ev.kwargs.get('extrapolate'), P.value("self._permit_extrapolation"), P.st, P.frame))))
        else:
            # no rate constructed: only legitimate when data were missing and null rates were requested
            isnull = isinstance(res, Obj) and res.cls == null
            out.append(("%s.null_rate_only_when_requested" % name, z3.And(z3.BoolVal(bool(isnull)), as_bool(P.term("self._missing_rates_return_null")))))
        return out
    return post


def register(reg, ctx):
    tree = ctx['tree']
    for (name, params, getter, elementised, wl_args, cls, ctor, null, nullargs) in ACC:
        for isotope in (False, True):
            sorts = {}
            for p in params:
                if p in SPECIES:
                    sorts[p] = ("ref:Isotope!" if (isotope and p in elementised) else "ref:Element!")
                elif p == 'transition':
                    sorts[p] = "ref!"
                else:
                    sorts[p] = "int"
            ext = {
                getter: {'kind': 'logged', 'result': 'ref', 'label': getter, 'raises': ['RuntimeError'], 'nonnull': True,
                         'doc': 'repository.%s: stored data or RuntimeError' % getter},
                'OpenADAS.wavelength': {'kind': 'logged', 'result': 'real', 'override': True, 'label': 'self.wavelength',
                                        'doc': 'OpenADAS.wavelength (verified by its own contract)'},
                cls + '()': {'kind': 'logged', 'result': 'ref:' + cls, 'alloc': True, 'label': 'construct:' + cls,
                             'doc': 'rate constructor (verified by its own contract)'},
            }
            exact = [] if isotope else ["not isinst(%s, 'Isotope')" % p for p in params if p in SPECIES]
            reg.contract(OA, "OpenADAS." + name, PROP, name='isotope' if isotope else 'element', sorts=sorts, externals=ext, requires=exact,
                raises_any=["RuntimeError", "TypeError"], flags={'raise_requires': {"RuntimeError": "not self._missing_rates_return_null",
                                                                                   "TypeError": "False"}},
                ensures=[("policy", accessor_post(name, params, getter, elementised, wl_args, cls, ctor, null, nullargs, isotope))])

    # beam CX: a list of rates, one per donor metastable; the null rate needs its donor_metastable argument
    for isotope in (False, True):
        ext = {'get_beam_cx_rates': {'kind': 'logged', 'result': 'seq:ref', 'label': 'get_beam_cx_rates', 'raises': ['RuntimeError'], 'nonnull': True,
                                     'doc': 'repository.get_beam_cx_rates'},
               'OpenADAS.wavelength': {'kind': 'logged', 'result': 'real', 'override': True, 'label': 'self.wavelength', 'doc': 'OpenADAS.wavelength'},
               'BeamCXPEC()': {'kind': 'logged', 'result': 'ref:BeamCXPEC', 'alloc': True, 'label': 'construct:BeamCXPEC', 'doc': 'rate constructor'}}
        sp = "ref:Isotope!" if isotope else "ref:Element!"
        reg.contract(OA, "OpenADAS.beam_cx_pec", PROP, name='isotope' if isotope else 'element',
            sorts={"donor_ion": sp, "receiver_ion": sp, "receiver_charge": "int", "transition": "ref!"}, externals=ext,
            requires=[] if isotope else ["not isinst(donor_ion, 'Isotope')", "not isinst(receiver_ion, 'Isotope')"],
            raises_any=["RuntimeError", "TypeError"], flags={'raise_requires': {"RuntimeError": "not self._missing_rates_return_null", "TypeError": "False"}},
            loops={0: dict(index='k', invariant=[])},
            ensures=[("policy", beam_cx_post(isotope))])

    # ------------------------------------------------------------------ evaluate(): guards and 10**interpolant
    def ev2(file, cls, a, b, interp="self._rate"):
        reg.contract(file, cls + ".evaluate", PROP, sorts={a: "real", b: "real"}, requires=["not is_none(%s)" % interp],
            ensures=[("zero_for_nonpositive", "implies(%s <= 0 or %s <= 0, result == 0)" % (a, b)),
                     ("table_value", "implies(%s > 0 and %s > 0, result == pow(10, %s.evaluate(log10(%s), log10(%s))))" % (a, b, interp, a, b))],
            modifies=[])
    for cls in ("IonisationRate", "RecombinationRate", "ThermalCXRate"):
        ev2(RA, cls, "density", "temperature")
    for cls in ("ImpactExcitationPEC", "RecombinationPEC"):
        ev2(RP, cls, "density", "temperature")
    for cls in ("LineRadiationPower", "ContinuumPower", "CXRadiationPower"):
        ev2(RR, cls, "electron_density", "electron_temperature")
    reg.contract(RP, "ThermalCXPEC.evaluate", PROP, sorts={"electron_density": "real", "electron_temperature": "real", "donor_temperature": "real"},
        requires=["not is_none(self._rate)"], attrs={"_rate": "ref:Function3D"},
        ensures=[("zero_for_nonpositive", "implies(electron_density <= 0 or electron_temperature <= 0 or donor_temperature <= 0, result == 0)"),
                 ("table_value", "implies(electron_density > 0 and electron_temperature > 0 and donor_temperature > 0, "
                  "result == pow(10, self._rate.evaluate(log10(electron_density), log10(electron_temperature), log10(donor_temperature))))")],
        modifies=[])
    for cls in ("BeamStoppingRate", "BeamPopulationRate", "BeamEmissionPEC"):
        reg.contract(RB, cls + ".evaluate", PROP, sorts={"energy": "real", "density": "real", "temperature": "real"},
            requires=["not is_none(self._npl_eb)", "not is_none(self._tp)"],
            ensures=[("zero_for_nonpositive", "implies(energy <= 0 or density <= 0 or temperature <= 0, result == 0)"),
                     ("table_value", "implies(energy > 0 and density > 0 and temperature > 0, result == "
                      "pow(10, self._npl_eb.evaluate(log10(energy), log10(density)) + self._tp.evaluate(log10(temperature))))")],
            modifies=[])
    reg.contract(RC, "BeamCXPEC.evaluate", PROP,
        sorts={"energy": "real", "temperature": "real", "density": "real", "z_effective": "real", "b_field": "real"},
        ghost={"r1()": "pow(10, self._eb.evaluate(log10(energy))) * self._ti.evaluate(temperature)", "r2()": "r1() * self._ni.evaluate(density)",
               "r3()": "r2() * self._zeff.evaluate(z_effective)", "r4()": "r3() * self._b.evaluate(b_field)"},
        requires=["not is_none(self._eb)", "not is_none(self._ti)", "not is_none(self._ni)", "not is_none(self._zeff)", "not is_none(self._b)"],
        ensures=[("zero_for_nonpositive_energy", "implies(energy <= 0, result == 0)"),
                 ("product", "implies(energy > 0 and r1() > 0 and r2() > 0 and r3() > 0 and r4() > 0, result == r4())"),
                 ("nonnegative", "result >= 0")], modifies=[])
    for file, classes in ((RA, ["NullIonisationRate", "NullRecombinationRate", "NullThermalCXRate"]),
                          (RP, ["NullImpactExcitationPEC", "NullRecombinationPEC", "NullThermalCXPEC"]),
                          (RR, ["NullLineRadiationPower", "NullContinuumPower", "NullCXRadiationPower"]),
                          (RB, ["NullBeamStoppingRate", "NullBeamPopulationRate", "NullBeamEmissionPEC"]), (RC, ["NullBeamCXPEC"])):
        for cls in classes:
            reg.contract(file, cls + ".evaluate", PROP, ensures=[("zero_everywhere", "result == 0")], modifies=[])
    # wavelength accessor: element fallback order
    W = {'get_wavelength': {'kind': 'logged', 'result': 'real', 'label': 'get_wavelength', 'raises': ['RuntimeError'], 'doc': 'repository.get_wavelength'}}
    for iso in (False, True):
        reg.contract(OA, "OpenADAS.wavelength", PROP, name='isotope' if iso else 'element',
            sorts={"ion": "ref:Isotope!" if iso else "ref:Element!", "charge": "int", "transition": "ref!"}, externals=W, raises_any=["RuntimeError"],
            requires=[] if iso else ["not isinst(ion, 'Isotope')"],
            ensures=[("lookup_order", wavelength_post(iso))])


def beam_cx_post(isotope):
    def post(P):
        out = []
        g = P.calls('get_beam_cx_rates')
        out.append(("beam_cx.getter_called_once", z3.BoolVal(len(g) == 1)))
        if len(g) != 1:
            return out
        el = (lambda p: p + ".element") if isotope else (lambda p: p)
        out.append(("beam_cx.getter_donor", as_bool(P.eng.identical(g[0].args[0], P.value(el("donor_ion"))))))
        out.append(("beam_cx.getter_receiver", as_bool(P.eng.identical(g[0].args[1], P.value(el("receiver_ion"))))))
        wl = P.calls('self.wavelength')
        cons = [e for e in P.st.log if e.label == 'construct:BeamCXPEC']
        if wl:
            out.append(("beam_cx.wavelength_species_is_receiver", as_bool(P.eng.identical(wl[0].args[0], P.value("receiver_ion")))))
            out.append(("beam_cx.wavelength_charge", as_bool(P.eng.equal(wl[0].args[1], P.value("receiver_charge - 1"), P.st, P.frame))))
            out.append(("beam_cx.one_rate_per_metastable", z3.BoolVal(len(cons) == 1 and bool(cons[0].loop))))
            if len(cons) == 1 and cons[0].loop:
                ev = cons[0]
                out.append(("beam_cx.ctor.wavelength", to_real(ev.args[1]) == to_real(wl[0].result)))
                out.append(("beam_cx.ctor.extrapolate", as_bool(P.eng.equal(ev.kwargs.get('extrapolate'), P.value("self._permit_extrapolation"), P.st, P.frame))))
        else:
            res = P.result
            isnull = isinstance(res, list) and len(res) == 1 and isinstance(res[0], Obj) and res[0].cls == 'NullBeamCXPEC'
            out.append(("beam_cx.null_rate_only_when_requested", z3.And(z3.BoolVal(bool(isnull)), as_bool(P.term("self._missing_rates_return_null")))))
        return out
    return post


def wavelength_post(iso):
    def post(P):
        evs = P.calls('get_wavelength')
        out = [("wavelength.first_lookup_uses_the_species", z3.BoolVal(len(evs) >= 1))]
        if not evs:
            return out
        out.append(("wavelength.first_lookup_species", as_bool(P.eng.identical(evs[0].args[0], P.value("ion")))))
        out.append(("wavelength.repository_path", as_bool(P.eng.identical(evs[-1].kwargs.get('repository_path'), P.value("self._data_path")))))
        if len(evs) == 2:
            ok = iso
            out.append(("wavelength.fallback_only_for_isotopes_when_enabled", z3.And(z3.BoolVal(ok), as_bool(P.term("self._wavelength_element_fallback")))))
            if iso:
                out.append(("wavelength.fallback_uses_element", as_bool(P.eng.identical(evs[1].args[0], P.value("ion.element")))))
        out.append(("wavelength.result", to_real(P.result) == to_real(evs[-1].result)))
        return out
    return post


def _constructors(ctx, eng):
    """Rate constructors: conversion and extrapolation kind handed to the interpolator (parse-tree obligations on the real statements)."""
    tree = ctx['tree']
    out = []
    photon = [(RP, "ImpactExcitationPEC"), (RP, "RecombinationPEC"), (RP, "ThermalCXPEC")]
    for file, cls in photon:
        src = ast.unparse(tree.find_func(file, cls + ".__init__"))
        out.append(structural('constructor/%s.photon_to_joule' % cls, PROP, "rate = np.log10(PhotonToJ.to(rate, wavelength))" in src and
                              "rate = data['rate']" in src, 'table converted with PhotonToJ.to(rate, wavelength) exactly once, then log10'))
        out.append(structural('constructor/%s.extrapolation_kind' % cls, PROP, "extrapolation_type = 'nearest' if extrapolate else 'none'" in src,
                              "'none' iff not extrapolate"))
        dims = "np.log10(ne), np.log10(te), np.log10(td), rate, 'cubic', extrapolation_type" if cls == 'ThermalCXPEC' else \
            "np.log10(ne), np.log10(te), rate, 'cubic', extrapolation_type"
        out.append(structural('constructor/%s.interpolator_arguments' % cls, PROP, dims in src, dims))
    for file, cls in ((RA, "IonisationRate"), (RA, "RecombinationRate"), (RA, "ThermalCXRate"), (RR, "LineRadiationPower"), (RR, "ContinuumPower"),
                      (RR, "CXRadiationPower")):
        src = ast.unparse(tree.find_func(file, cls + ".__init__"))
        out.append(structural('constructor/%s.no_photon_conversion' % cls, PROP, "rate = np.log10(data['rate'])" in src and 'PhotonToJ' not in src,
                              'log10 of the stored table, no unit conversion'))
        import re
        out.append(structural('constructor/%s.extrapolation_kind' % cls, PROP,
                              bool(re.search(r"extrapolation_type = '(nearest|linear|quadratic)' if extrapolate else 'none'", src)), "'none' iff not extrapolate"))
        out.append(structural('constructor/%s.interpolator_arguments' % cls, PROP,
                              "Interpolator2DArray(np.log10(ne), np.log10(te), rate, 'cubic', extrapolation_type, INFINITY, INFINITY)" in src, 'log-log cubic'))
    for cls in ("BeamStoppingRate", "BeamPopulationRate", "BeamEmissionPEC"):
        src = ast.unparse(tree.find_func(RB, cls + ".__init__"))
        conv = "sen = np.log10(PhotonToJ.to(data['sen'], wavelength))" if cls == "BeamEmissionPEC" else "sen = np.log10(data['sen'])"
        out.append(structural('constructor/%s.sen_table' % cls, PROP, conv in src, conv))
        out.append(structural('constructor/%s.st_over_sref' % cls, PROP, "st = np.log10(data['st'] / data['sref'])" in src, 'st / sref'))
        out.append(structural('constructor/%s.extrapolation_kinds' % cls, PROP, "extrapolation_type_2d = 'linear' if extrapolate else 'none'" in src and
                              "extrapolation_type_1d = 'quadratic' if extrapolate else 'none'" in src, "'none' iff not extrapolate"))
        src = ' '.join(src.split())
        out.append(structural('constructor/%s.single_point_axes' % cls, PROP,
                              "if len(e) == 1 and len(n) == 1: self._npl_eb = Constant2D(sen[0, 0])" in src and
                              "IsoMapper2D(Arg2D('y'), Interpolator1DArray(np.log10(n), sen[0], 'cubic', extrapolation_type_1d, INFINITY))" in src and
                              "IsoMapper2D(Arg2D('x'), Interpolator1DArray(np.log10(e), sen[:, 0], 'cubic', extrapolation_type_1d, INFINITY))" in src,
                              'single-point axes select the constant / 1-d interpolant on the right slice'))
    # BeamCXPEC: q_eff(E) converted to W m^3, the four secondary scans normalised by q_ref; an axis with a single point contributes the
    # CONSTANT stored value of that (normalised) scan, not 1
    src = ' '.join(ast.unparse(tree.find_func(RC, "BeamCXPEC.__init__")).split())
    out.append(structural('constructor/BeamCXPEC.energy_scan_photon_to_joule', PROP, "qeb = np.log10(PhotonToJ.to(data['qeb'], wavelength))" in src, 'qeb -> W m^3, log10'))
    for key, var, axis in (("qti", "qti", "ti"), ("qni", "qni", "ni"), ("qz", "qzeff", "zeff"), ("qb", "qbmag", "bmag")):
        out.append(structural('constructor/BeamCXPEC.%s_over_qref' % key, PROP, "%s = data['%s'] / qref" % (var, key) in src, '%s / qref' % key))
        out.append(structural('constructor/BeamCXPEC.%s_interpolant_or_stored_constant' % key, PROP,
                              "Interpolator1DArray(%s, %s, 'cubic', extrapolation_type, INFINITY) if len(%s) > 1 else Constant1D(%s[0])" % (axis, var, var, var) in src,
                              'single-point axis: the constant stored value %s[0]' % var))
    out.append(structural('constructor/BeamCXPEC.energy_interpolant', PROP,
                          "self._eb = Interpolator1DArray(np.log10(eb), qeb, 'cubic', extrapolation_type_log, INFINITY) if len(qeb) > 1 else Constant1D(qeb[0])" in src, 'log-log cubic in energy'))
    out.append(structural('constructor/BeamCXPEC.extrapolation_kinds', PROP, "extrapolation_type_log = 'quadratic' if extrapolate else 'none'" in src and
                          "extrapolation_type = 'nearest' if extrapolate else 'none'" in src, "'none' iff not extrapolate"))
    return out


GENERATORS = [_constructors]


def _lemmas(ctx):
    P = z3.Function('m_pow', z3.RealSort(), z3.RealSort(), z3.RealSort())
    L = z3.Function('m_log10', z3.RealSort(), z3.RealSort())
    t, hc, lam = z3.Reals('t hc lam')
    I = z3.Real('I')     # interpolant value at a grid point
    return [lemma('grid_point_reproduction', PROP, [t > 0, hc > 0, lam > 0, I == L(t * hc / lam), P(10, L(t * hc / lam)) == t * hc / lam],
                  P(10, I) == t * hc / lam, 'interpolant reproduces log10 of the converted table at a knot => evaluate returns table * hc/lambda'),
            lemma('nonnegative', PROP, [P(10, I) > 0], P(10, I) >= 0, '10**x > 0')]


LEMMAS = [_lemmas]


_REPLAY = {}


def native_replay(ctx, o):
    """Missing-data policy on the real provider with an empty repository and null rates requested."""
    from replaylib.native import run_native
    if 'OpenADAS.' in o.name and ('outside-subset' in o.name or 'frame.' in o.name):
        # bounded stand-in for accessors that left the subset / touch unknown state: one provider asked for the element and then for its
        # isotope (and the other way round) must answer each request like a fresh provider does (temporary repository with distinct
        # hydrogen / deuterium wavelengths)
        code = '''
import tempfile, shutil, numpy as np
from cherab.core.atomic import hydrogen, deuterium
from cherab.openadas import OpenADAS, repository
d = tempfile.mkdtemp(prefix="verif_c07_")
bad = []
try:
    for sp, w in ((hydrogen, 656.279), (deuterium, 656.101)):
        repository.add_wavelength(sp, 0, (3, 2), w, repository_path=d)
    ne, te = [1e18, 1e19, 1e20, 1e21], [1., 10., 100.]
    t1 = np.outer([1., 1.3, 1.7, 2.2], [2e-16, 5e-15, 9e-15]); t2 = np.outer([1., 1.1, 1.5, 2.9], [7e-19, 3e-19, 4e-20])
    repository.add_pec_excitation_rate(hydrogen, 0, (3, 2), {"ne": ne, "te": te, "rate": t1}, repository_path=d)
    repository.add_pec_recombination_rate(hydrogen, 0, (3, 2), {"ne": ne, "te": te, "rate": t2}, repository_path=d)
    for acc in ("impact_excitation_pec", "recombination_pec"):
        for order in ((hydrogen, deuterium), (deuterium, hydrogen)):
            p = OpenADAS(data_path=d)
            for sp in order:
                got = getattr(p, acc)(sp, 0, (3, 2))
                fresh = getattr(OpenADAS(data_path=d), acc)(sp, 0, (3, 2))
                a, b = got(3e19, 20.0), fresh(3e19, 20.0)
                if not abs(a - b) <= 1e-12 * abs(b):
                    bad.append({"accessor": acc, "request_order": [s.name for s in order], "species": sp.name, "value": a, "fresh_provider": b})
finally:
    shutil.rmtree(d, ignore_errors=True)
print(json.dumps({"bad": bad[:3], "nbad": len(bad)}))
'''
        if 'h' not in _REPLAY:
            _REPLAY['h'] = run_native(ctx, code, timeout=300)
        out = _REPLAY['h']
        exp = 'the answer to a request does not depend on earlier requests to the same provider'
        if out and out.get('nbad'):
            return {'confirmed': True, 'input': out['bad'][0], 'observed': out, 'expected': exp}
        return {'confirmed': False, 'input': None, 'observed': out, 'expected': exp}
    if 'constructor/BeamCXPEC' in o.name or 'BeamCXPEC.evaluate' in o.name:
        # tables with single-point secondary axes that store a value different from qref, checked at the grid points against
        # qeb qti qni qz qb / qref^4 * hc / lambda computed independently
        code = '''
import numpy as np, itertools
from scipy.constants import Planck, speed_of_light
from cherab.openadas.rates.cx import BeamCXPEC
bad = []
wl = 529.0
for single in itertools.product((False, True), repeat=4):
    eb = np.array([1e3, 1e4, 5e4, 1e5]); qeb = np.array([1e-15, 3e-15, 2e-15, 8e-16]); qref = 2.5e-15
    ax = {}
    for name, sgl, pts in (("ti", single[0], [10., 100., 1000.]), ("ni", single[1], [1e18, 1e19, 1e20]), ("z", single[2], [1., 2., 4.]), ("b", single[3], [1., 3., 5.])):
        x = np.array(pts[1:2] if sgl else pts)
        ax[name] = (x, qref * (0.6 + 0.3 * np.arange(1, len(x) + 1)))
    data = {"eb": eb, "qeb": qeb, "qref": qref, "ti": ax["ti"][0], "qti": ax["ti"][1], "ni": ax["ni"][0], "qni": ax["ni"][1],
            "z": ax["z"][0], "qz": ax["z"][1], "b": ax["b"][0], "qb": ax["b"][1]}
    for extrap in (False, True):
        r = BeamCXPEC(1, wl, data, extrapolate=extrap)
        for i, e in enumerate(eb):
            got = r(e, ax["ti"][0][0], ax["ni"][0][0], ax["z"][0][0], ax["b"][0][0])
            want = qeb[i] * ax["ti"][1][0] * ax["ni"][1][0] * ax["z"][1][0] * ax["b"][1][0] / qref ** 4 * Planck * speed_of_light / (wl * 1e-9)
            if not abs(got - want) <= 1e-9 * abs(want):
                bad.append({"single_point_axes(ti,ni,z,b)": list(single), "extrapolate": extrap, "energy": float(e), "rate": got, "expected": want}); break
print(json.dumps({"bad": bad[:3], "nbad": len(bad)}))
'''
        out = run_native(ctx, code, timeout=300)
        exp = 'rate at the grid points = qeb qti qni qz qb / qref^4 * hc / lambda'
        if out and out.get('nbad'):
            return {'confirmed': True, 'input': out['bad'][0], 'observed': out, 'expected': exp}
        return {'confirmed': False, 'input': None, 'observed': out, 'expected': exp}
    which = 'recombination_pec' if 'recombination_pec' in o.name else ('beam_cx_pec' if 'beam_cx_pec' in o.name else None)
    if which is None:
        return None
    call = {'recombination_pec': 'p.recombination_pec(deuterium, 0, (3, 2))', 'beam_cx_pec': 'p.beam_cx_pec(deuterium, carbon, 6, (8, 7))'}[which]
    code = '''
import tempfile, shutil
from cherab.core.atomic import deuterium, carbon
from cherab.openadas import OpenADAS
d = tempfile.mkdtemp(prefix="verif_c07_")
try:
    p = OpenADAS(data_path=d, missing_rates_return_null=True)
    try:
        r = %s
        rates = r if isinstance(r, list) else [r]
        vals = [x.evaluate(*([1.0] * (5 if "cx" in %r else 2))) for x in rates]
        out = {"error": None, "values": vals, "all_zero": all(v == 0 for v in vals)}
    except Exception as e:
        out = {"error": type(e).__name__ + ": " + str(e)[:120]}
finally:
    shutil.rmtree(d, ignore_errors=True)
print(json.dumps(out))
''' % (call, which)
    out = run_native(ctx, code)
    return {'confirmed': bool(out and out.get('error')), 'input': 'OpenADAS(empty repository, missing_rates_return_null=True).%s' % call[2:],
            'observed': out, 'expected': 'a rate that is zero everywhere'}


from .common import bounded_conversions
BOUNDED = [bounded_conversions]


def bounded_rates_battery(ctx):
    """Bounded stand-in (NOT a proof) for the tabulated rate classes (their interpolators are raysect code): for every class built from random
    positive tables - values at the grid points equal the stored table after the documented conversion (x hc/lambda for the photon
    coefficients; sen x st / sref for the beam rates); non-positive arguments give exactly 0; outside the tabulated range a rate built
    without extrapolation raises ValueError on EVERY call (also when the same out-of-range call is repeated, and after in-range calls);
    with extrapolation it returns a finite value."""
    from replaylib.native import run_native
    n = 6 if ctx['tier'] == 'quick' else 60
    code = '''
import random, numpy as np, math
from scipy.constants import Planck, speed_of_light
from cherab.core.atomic import carbon
from cherab.openadas.rates.atomic import IonisationRate, RecombinationRate, ThermalCXRate
from cherab.openadas.rates.pec import ImpactExcitationPEC, RecombinationPEC, ThermalCXPEC
from cherab.openadas.rates.radiated_power import LineRadiationPower, ContinuumPower, CXRadiationPower
from cherab.openadas.rates.beam import BeamStoppingRate, BeamPopulationRate, BeamEmissionPEC
rnd = random.Random(%d)
bad = []; cases = 0
def close(a, b): return abs(a - b) <= 1e-8 * abs(b)
def raises(f):
    try:
        v = f(); return False, v
    except ValueError:
        return True, None
for trial in range(%d):
    ne = np.array(sorted(10 ** rnd.uniform(17, 21) for _ in range(4))); te = np.array(sorted(10 ** rnd.uniform(0, 4) for _ in range(5)))
    tab = np.array([[10 ** rnd.uniform(-20, -12) for _ in te] for _ in ne]); wl = rnd.uniform(300, 900); k = Planck * speed_of_light / (wl * 1e-9)
    d2 = {"ne": ne, "te": te, "rate": tab}
    mk2 = [("IonisationRate", lambda ex: IonisationRate(dict(d2), extrapolate=ex), 1.0), ("RecombinationRate", lambda ex: RecombinationRate(dict(d2), extrapolate=ex), 1.0),
           ("ThermalCXRate", lambda ex: ThermalCXRate(dict(d2), extrapolate=ex), 1.0),
           ("ImpactExcitationPEC", lambda ex: ImpactExcitationPEC(wl, dict(d2), extrapolate=ex), k), ("RecombinationPEC", lambda ex: RecombinationPEC(wl, dict(d2), extrapolate=ex), k),
           ("LineRadiationPower", lambda ex: LineRadiationPower(carbon, 1, dict(d2), extrapolate=ex), 1.0), ("ContinuumPower", lambda ex: ContinuumPower(carbon, 1, dict(d2), extrapolate=ex), 1.0),
           ("CXRadiationPower", lambda ex: CXRadiationPower(carbon, 1, dict(d2), extrapolate=ex), 1.0)]
    for name, mk, fac in mk2:
        r = mk(False); cases += 1
        if not all(close(r(ne[i], te[j]), tab[i, j] * fac) for i in range(len(ne)) for j in range(len(te))):
            bad.append({"class": name, "what": "grid point differs from the stored table after conversion"}); continue
        if r(0.0, te[1]) != 0 or r(ne[1], -1.0) != 0: bad.append({"class": name, "what": "non-positive argument does not give 0"})
        for pt in ((ne[0] / 3, te[1]), (ne[1], te[-1] * 2), (ne[-1] * 5, te[0] / 2)):
            r(ne[1], te[1])
            for rep in range(3):
                ok, v = raises(lambda: r(*pt))
                if not ok: bad.append({"class": name, "what": "out of range without extrapolation did not raise", "call_number": rep + 1, "point": list(map(float, pt)), "returned": v}); break
            v = mk(True)(*pt)
            if not math.isfinite(v): bad.append({"class": name, "what": "extrapolation not finite", "point": list(map(float, pt))})
    td = np.array(sorted(10 ** rnd.uniform(-1, 3) for _ in range(3))); tab3 = np.array([[[10 ** rnd.uniform(-20, -12) for _ in td] for _ in te] for _ in ne])
    d3 = {"ne": ne, "te": te, "td": td, "rate": tab3}
    r = ThermalCXPEC(wl, dict(d3), extrapolate=False); cases += 1
    if not all(close(r(ne[i], te[j], td[m]), tab3[i, j, m] * k) for i in range(len(ne)) for j in range(len(te)) for m in range(len(td))):
        bad.append({"class": "ThermalCXPEC", "what": "grid point differs from the stored table after conversion"})
    for rep in range(3):
        ok, v = raises(lambda: r(ne[1], te[1], td[-1] * 3))
        if not ok: bad.append({"class": "ThermalCXPEC", "what": "out of range without extrapolation did not raise", "call_number": rep + 1}); break
    e = np.array(sorted(10 ** rnd.uniform(3, 5) for _ in range(4))); nn = np.array(sorted(10 ** rnd.uniform(18, 20) for _ in range(3))); tt = np.array(sorted(10 ** rnd.uniform(1, 3.7) for _ in range(4)))
    sen = np.array([[10 ** rnd.uniform(-14, -12) for _ in nn] for _ in e]); st = np.array([10 ** rnd.uniform(-14, -12) for _ in tt]); sref = 10 ** rnd.uniform(-14, -12)
    db = {"e": e, "n": nn, "t": tt, "sen": sen, "st": st, "sref": sref, "eref": e[1], "nref": nn[1], "tref": tt[1]}
    for name, mk, fac in (("BeamStoppingRate", lambda ex: BeamStoppingRate(dict(db), extrapolate=ex), 1.0), ("BeamPopulationRate", lambda ex: BeamPopulationRate(dict(db), extrapolate=ex), 1.0),
                          ("BeamEmissionPEC", lambda ex: BeamEmissionPEC(dict(db), wl, extrapolate=ex), k)):
        r = mk(False); cases += 1
        if not all(close(r(e[i], nn[j], tt[m]), sen[i, j] * st[m] / sref * fac) for i in range(len(e)) for j in range(len(nn)) for m in range(len(tt))):
            bad.append({"class": name, "what": "grid point differs from sen * st / sref"}); continue
        if r(0.0, nn[1], tt[1]) != 0 or r(e[1], 0.0, tt[1]) != 0 or r(e[1], nn[1], -2.0) != 0: bad.append({"class": name, "what": "non-positive argument does not give 0"})
        for pt in ((e[1], nn[1], tt[-1] * 2), (e[1], nn[1], tt[0] / 2), (e[-1] * 3, nn[1], tt[1]), (e[1], nn[0] / 4, tt[1])):
            r(e[1], nn[1], tt[1])
            for rep in range(3):
                for e2 in (pt[0], pt[0]):        # e.g. an energy scan at a fixed out-of-range temperature inside try/except
                    ok, v = raises(lambda: r(e2, pt[1], pt[2]))
                    if not ok: bad.append({"class": name, "what": "out of range without extrapolation did not raise", "call_number": rep + 1, "point": list(map(float, pt)), "returned": v}); break
            v = mk(True)(*pt)
            if not math.isfinite(v): bad.append({"class": name, "what": "extrapolation not finite", "point": list(map(float, pt))})
    if len(bad) > 6: break
print(json.dumps({"cases": cases, "bad": bad[:6]}))
''' % (ctx['seed'] + 7, n)
    out = run_native(ctx, code, timeout=900)
    return {'name': 'tabulated rate classes: grid reproduction, zero guards, range policy under repeated calls (BOUNDED stand-in, not counted as proved)',
            'ok': bool(out) and out.get('bad') == [], 'detail': out, 'covers': ['rates'],
            'bound': '%d random table sets for 12 rate classes, seed %d' % (n, ctx['seed'] + 7)}


BOUNDED = [bounded_conversions, bounded_rates_battery]
