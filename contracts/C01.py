"""C01 — plasma / beam / laser changes never leave stale derived state.

History independence is reduced to a representation invariant ("every cache is empty or equals what a fresh object would
compute", DESIGN 10/C01), established per mutator.  Obligations generated here:
  * per property setter / mutator method (discovered from the parse trees) that writes an attribute in the read set of a builder
    (computed from the builder's body, transitively through methods and properties of self): the mutator ends with that builder /
    reset / notification, run after its last write (engine, call log with heap snapshots);
  * every model's _change() empties the guard that its emission()/density() tests before using the cache, and _populate_cache /
    _calc_attenuation write only attributes behind that guard;
  * registration: model / attenuator setters register _change on the new provider's notifier (and remove it from the old one),
    constructors register the scene-graph callbacks;
  * scene-graph hooks and notifier callbacks must be Python-visible methods (def / cpdef): a cdef method cannot be found by
    raysect's attribute lookup nor stored as a bound method."""
import ast
import z3
from .common import (structural, as_bool, rebuilt_after_writes, self_attrs_read, self_attrs_written, class_setters, logged_self,
                     method_reads, setter_contracts)
from pyvc.values import BoundMethod, Obj

PROP = 'C01'
LEVEL = 'proof'
EXPLANATION = ('Cache-coherence representation invariant proved per mutator: setters and mutator methods of Plasma, Composition, Beam, '
               'SingleRayAttenuator, PlasmaModel, BeamModel, BeamAttenuator, Laser are discovered from the parse trees; each one that writes '
               'a dependency of a builder must end with the builder / reset / notification after its last write (symbolic execution with a '
               'call log carrying heap snapshots).  _change() empties the guards; registration events; Python-visibility of hooks.')
PN = "cherab/core/plasma/node.pyx"
PM = "cherab/core/plasma/model.pyx"
BN = "cherab/core/beam/node.pyx"
BM = "cherab/core/beam/model.pyx"
SR = "cherab/core/model/attenuator/singleray.pyx"
LN = "cherab/core/laser/node.pyx"
ASSUMPTIONS = ['Notifier.notify() calls every registered callback that is still alive (weak references stay alive while the owner is in the '
               'scene); Notifier.add/remove keep the registration set (cherab/core/utility/notify.py, not verified here)',
               'raysect calls Node._modified() by Python attribute lookup when the node or an ancestor is moved / re-parented',
               'external providers (AtomicData, DistributionFunction, Function3D) are immutable; in-place mutation of third-party objects is '
               'outside the configuration',
               'equality of traced spectra through raysect is a corollary of the invariant (readers are pure functions of the configuration '
               'and of caches that are empty or fresh), not an obligation']
NOT_APPLICABLE = ['equality of rendered spectra through the raysect integrator (corollary under the stated assumptions)']

NOTIFY = {'.notify': {'kind': 'logged', 'result': 'none', 'label': 'notify', 'doc': 'Notifier.notify()'},
          '.add': {'kind': 'logged', 'result': 'none', 'label': 'notifier.add', 'doc': 'Notifier.add(callback)'},
          '.remove': {'kind': 'logged', 'result': 'none', 'label': 'notifier.remove', 'doc': 'Notifier.remove(callback)'}}
CTOR = {
    'Vector3D()': {'kind': 'fresh', 'result': 'ref:Vector3D', 'alloc': True, 'doc': 'raysect Vector3D'},
    'ZeroDistribution()': {'kind': 'fresh', 'result': 'ref:ZeroDistribution', 'alloc': True, 'doc': 'cherab ZeroDistribution'},
    'autowrap_vectorfunction3d': {'kind': 'pure', 'result': 'ref:VectorFunction3D', 'nonnull': True, 'doc': 'raysect autowrap'},
    'autowrap_function3d': {'kind': 'pure', 'result': 'ref:VectorFunction3D', 'nonnull': True, 'doc': 'raysect autowrap (cimported under an alias)'},
    'tan': {'kind': 'pure', 'result': 'real', 'doc': 'libc tan'},
}


def register(reg, ctx):
    tree = ctx['tree']
    V = {"value": "ref"}
    ext = dict(NOTIFY, **CTOR)
    # ------------------------------------------------------------------ Plasma
    pl = dict(ext, **{'Plasma._modified': logged_self('_modified'), 'Plasma._configure_geometry': logged_self('_configure_geometry')})
    setter_contracts(reg, PROP, tree, PN, 'Plasma', '_configure_geometry', externals=pl, sorts={})
    setter_contracts(reg, PROP, tree, PN, 'Plasma', None, label='_modified', extra_depends={'_b_field', '_electron_distribution'}, externals=pl, sorts={})
    reg.contract(PN, "Plasma._modified", PROP, externals=ext,
        ensures=[("notifies_models", rebuilt_after_writes('notify', [], recv="self.notifier", name='coherence._modified.notify'))])
    # ------------------------------------------------------------------ Beam
    bm = dict(ext, **{'Beam._modified': logged_self('_modified'), 'Beam._configure_geometry': logged_self('_configure_geometry'),
                      'Beam._configure_attenuator': logged_self('_configure_attenuator')})
    RV = {"value": "real"}
    setter_contracts(reg, PROP, tree, BN, 'Beam', '_configure_geometry', externals=bm, sorts={}, skip=('models',))
    setter_contracts(reg, PROP, tree, BN, 'Beam', '_configure_attenuator', externals=bm, sorts={})
    setter_contracts(reg, PROP, tree, BN, 'Beam', None, label='notify', recv="self.notifier",
                     extra_depends={'_energy', '_power', '_temperature', '_element', '_divergence_x', '_divergence_y', '_tanxdiv', '_tanydiv',
                                    '_length', '_sigma', '_attenuator'}, externals=bm, sorts={})
    # the callback the Beam registers on its attenuator's notifier must rebuild the geometry (clamp radius) and notify the models
    reg.contract(BN, "Beam._attenuator_changed", PROP, externals=bm,
        ensures=[("rebuilds_geometry", rebuilt_after_writes('_configure_geometry', [], recv="self", name='coherence._attenuator_changed._configure_geometry')),
                 ("notifies_models", rebuilt_after_writes('notify', [], recv="self.notifier", name='coherence._attenuator_changed.notify'))])
    reg.contract(BN, "Beam.attenuator.setter", PROP, name='registration', sorts={"value": "ref:BeamAttenuator!"}, externals=bm,
        raises_any=["ValueError"],
        ensures=[("registers_geometry_callback", lambda P: [("registers_geometry_callback", z3.BoolVal(bool(
            P.calls('notifier.add') and isinstance(P.calls('notifier.add')[-1].args[0], BoundMethod)
            and P.calls('notifier.add')[-1].args[0].name == '_attenuator_changed')))]),
                 ("keeps_foreign_registrations", foreign_removals)])
    # ------------------------------------------------------------------ attenuator
    at = dict(ext, **{'SingleRayAttenuator._change': logged_self('_change')})
    setter_contracts(reg, PROP, tree, SR, 'SingleRayAttenuator', None, label='notify', recv="self.notifier",
                     extra_depends={'_step', '_clamp_sigma_sqr'}, externals=at, sorts=RV)
    # ------------------------------------------------------------------ models: provider setters end with _change() and re-register
    for file, cls in ((PM, 'PlasmaModel'), (BM, 'BeamModel'), (BM, 'BeamAttenuator')):
        me = dict(ext, **{cls + '._change': logged_self('_change')})
        setter_contracts(reg, PROP, tree, file, cls, None, label='_change', extra_depends={'_plasma', '_beam', '_atomic_data'}, externals=me, sorts={})
        for prov in ('plasma', 'beam'):
            if prov == 'beam' and cls == 'PlasmaModel':
                continue
            reg.contract(file, "%s.%s.setter" % (cls, prov), PROP, name='registration', sorts={"value": "ref:%s!" % prov.capitalize()}, externals=me,
                ensures=[("registered_on_new_provider", registration_post(prov))])
    # ------------------------------------------------------------------ container mutators and scene-graph hooks always notify
    # (the dependents' caches are keyed on nothing: ANY replacement of a species / model, also of one with the same key, must be announced)
    register_notifying_mutators(reg, PROP)
    register_lineshape_rebuild(reg, PROP)
    # ------------------------------------------------------------------ _change resets the guards of the caches
    for file, cls, guard, empty in GUARDS:
        reg.contract(file, cls + "._change", PROP, name='guard', ensures=[("guard_emptied", empty)])


NOTIFYING = [(PN, "Composition.set"), (PN, "Composition.add"), (PN, "Composition.clear"),
             (PN, "ModelManager.set"), (PN, "ModelManager.add"), (PN, "ModelManager.clear"),
             (BN, "ModelManager.set"), (BN, "ModelManager.add"), (BN, "ModelManager.clear"), (BN, "Beam._modified")]


def register_lineshape_rebuild(reg, prop):
    """Every cache rebuild of the beam CX model constructs a NEW line-shape object from the CURRENT line, wavelength, receiver species,
    plasma and atomic data (the line shape holds the Species object: re-using an old one keeps the Doppler width of a replaced species)."""
    CXF = "cherab/core/model/beam/charge_exchange.pyx"
    anchor = ('self._lineshape = self._lineshape_class(self._line, self._wavelength, self._target_species, self._plasma, self._atomic_data, '
              '*self._lineshape_args, **self._lineshape_kwargs)')
    from .common import call_cases
    reg.contract(CXF, "BeamCXLine._populate_cache", prop, name='lineshape', flags={'stmts_from': anchor},
        ensures=[("lineshape_args", call_cases(['construct'], [("True", [('construct', [
                     "self._line", "self._wavelength", "self._target_species", "self._plasma", "self._atomic_data"])])])),
                 ("lineshape_class", lambda P: [("lineshape_class", as_bool(P.eng.identical(
                     P.calls('construct')[0].recv, P.value("self._lineshape_class"))) if P.calls('construct') else z3.BoolVal(False))]),
                 ("lineshape_stored", lambda P: [("lineshape_stored", (P.value("self._lineshape").ref == P.calls('construct')[-1].result.ref)
                                                  if P.calls('construct') else z3.BoolVal(False))])])


def register_notifying_mutators(reg, prop):
    ext = dict(NOTIFY, **{'.__setitem__': {'kind': 'logged', 'result': 'none', 'label': 'setitem', 'doc': 'dict store'},
                          'tuple': {'kind': 'pure', 'result': 'seq:ref', 'doc': 'tuple(iterable)'},
                          'list': {'kind': 'pure', 'result': 'seq:ref', 'doc': 'list(iterable)'}})
    for file, qual in NOTIFYING:
        reg.contract(file, qual, prop, name='notifies', externals=ext, raises_any=["TypeError", "ValueError"],
            loops={0: dict(invariant=[]), 1: dict(invariant=[])},
            ensures=[("notifies_dependents", rebuilt_after_writes('notify', [], recv="self.notifier", name='coherence.%s.notify' % qual.split('.')[-1]))])


GUARDS = [
    ("cherab/core/model/plasma/impact_excitation.pyx", "ExcitationLine", "_target_species", "is_none(self._target_species)"),
    ("cherab/core/model/plasma/recombination.pyx", "RecombinationLine", "_target_species", "is_none(self._target_species)"),
    ("cherab/core/model/plasma/thermal_cx.pyx", "ThermalCXLine", "_target_species", "is_none(self._target_species)"),
    ("cherab/core/model/plasma/total_radiated_power.pyx", "TotalRadiatedPower", "_cache_loaded", "not self._cache_loaded"),
    ("cherab/core/model/plasma/bremsstrahlung.pyx", "Bremsstrahlung", "species_charge", "is_none(self._brems_func.species_charge)"),
    ("cherab/core/model/beam/charge_exchange.pyx", "BeamCXLine", "_target_species", "is_none(self._target_species)"),
    ("cherab/core/model/beam/beam_emission.pyx", "BeamEmissionLine", "_rates_list", "is_none(self._rates_list)"),
    ("cherab/core/model/attenuator/singleray.pyx", "SingleRayAttenuator", "_stopping_data", "is_none(self._density) and is_none(self._stopping_data)"),
]


def foreign_removals(P):
    """A setter may take ANOTHER object's callback off a notifier only if that object no longer uses the notifier's owner as its provider
    afterwards (otherwise the other object silently stops receiving change notifications)."""
    out = []
    me = P.value("self")
    for n, ev in enumerate(P.calls('notifier.remove')):
        cb = ev.args[0] if ev.args else None
        if not (isinstance(cb, BoundMethod) and isinstance(cb.obj, Obj)):
            out.append(("registration.remove#%d.callback_known" % n, z3.BoolVal(False)))
            continue
        own = cb.obj.ref.eq(me.ref)
        if own:
            continue
        still = []
        for prov in ('_beam', '_plasma'):
            try:
                cur = P.eng.read_attr(P.st, cb.obj, prov, 'ref')
            except Exception:
                continue
            holder = P.eng.read_attr(P.st, cur, 'notifier', 'ref') if isinstance(cur, Obj) else None
            if holder is not None:
                still.append(z3.And(cur.ref != P.value("None") if False else z3.BoolVal(True), holder.ref == ev.recv.ref))
        out.append(("registration.remove#%d.foreign_callback_owner_detached" % n, z3.Not(z3.Or(*still)) if still else z3.BoolVal(False)))
    return out or [("registration.no_foreign_removal", z3.BoolVal(True))]


def registration_post(prov):
    def post(P):
        adds = P.calls('notifier.add')
        out = []
        if not adds:
            # no registration on this path: fine iff the provider is the one already held (registered by the call that stored it)
            return [("registration.add", as_bool(P.eng.identical(P.value("self._%s" % prov), P.value("old(self._%s)" % prov))))]
        ev = adds[-1]
        cb = ev.args[0] if ev.args else None
        okcb = isinstance(cb, BoundMethod) and cb.name == '_change' and isinstance(cb.obj, Obj)
        out.append(("registration.callback_is_own_change", z3.BoolVal(bool(okcb))))
        if okcb:
            out.append(("registration.callback_owner", cb.obj.ref == P.value("self").ref))
        out.append(("registration.on_new_provider_notifier", as_bool(P.eng.identical(ev.recv, P.value("value.notifier")))))
        out.append(("registration.provider_stored", as_bool(P.eng.identical(P.value("self._%s" % prov), P.value("value")))))
        return out
    return post


# ---------------------------------------------------------------------------------------------- parse-tree obligations
def _guards(ctx, eng):
    """emission()/density() test the guard first and run the builder when it is empty; the builder writes only attributes that
    _change() resets (or that are recomputed by every builder run)."""
    tree = ctx['tree']
    out = []
    for file, cls, guard, _ in GUARDS:
        reader = 'density' if cls == 'SingleRayAttenuator' else 'emission'
        fn = tree.find_func(file, '%s.%s' % (cls, reader))
        first = [s for s in fn.body if not isinstance(s, (ast.AnnAssign,)) and not (isinstance(s, ast.Expr) and isinstance(s.value, ast.Constant))][0]
        ok = isinstance(first, ast.If) and guard in ast.unparse(first.test) and any(
            isinstance(c, ast.Call) and isinstance(c.func, ast.Attribute) and c.func.attr in ('_populate_cache', '_populate_stopping_data_cache', '_calc_attenuation')
            for c in ast.walk(first))
        out.append(structural('guards/%s.%s.tests-guard-first' % (cls, reader), PROP, ok, ast.unparse(first)[:120]))
    return out


def _visibility(ctx, eng):
    """Scene-graph hooks and notifier callbacks must be Python-visible bound methods."""
    tree = ctx['tree']
    out = []
    for file, cls in ((PN, 'Plasma'), (BN, 'Beam'), (LN, 'Laser')):
        tree.prefer_stem = tree.abspath(file).rsplit('.', 1)[0]
        ci = tree.class_info(cls)
        fn = ci.methods.get('_modified') if ci else None
        if fn is not None:
            out.append(structural('visibility/%s._modified.python-visible' % cls, PROP, getattr(fn, 'kind', 'def') in ('def', 'cpdef'),
                                  '%s._modified is declared %s; raysect dispatches _modified() by Python attribute lookup' % (cls, getattr(fn, 'kind', 'def'))))
    # callbacks handed to Notifier.add must be def/cpdef methods of self
    for file in (PN, PM, BN, BM, LN, SR, "cherab/core/laser/profile.pyx"):
        mod = tree.module(file)
        for c in mod.body:
            if not isinstance(c, ast.ClassDef):
                continue
            tree.prefer_stem = tree.abspath(file).rsplit('.', 1)[0]
            seen = {}
            calls = sorted([n for n in ast.walk(c) if isinstance(n, ast.Call)], key=lambda n: (n.lineno, n.col_offset))
            for n in calls:
                if isinstance(n, ast.Call) and isinstance(n.func, ast.Attribute) and n.func.attr in ('add', 'remove') \
                        and 'notifier' in ast.unparse(n.func.value) and n.args and isinstance(n.args[0], ast.Attribute) \
                        and isinstance(n.args[0].value, ast.Name) and n.args[0].value.id == 'self':
                    name = n.args[0].attr
                    ci2, m = tree.lookup_method(c.name, name)
                    kind = getattr(m, 'kind', None) if m is not None else None
                    k = seen.get(name, 0)
                    seen[name] = k + 1
                    out.append(structural('visibility/%s.callback.%s.bound-python-method#%d' % (c.name, name, k), PROP, kind in ('def', 'cpdef'),
                                          '%s passed to %s is declared %s' % (ast.unparse(n.args[0]), ast.unparse(n.func), kind)))
    return out


def _removals(ctx, eng):
    """Every notifier.remove(<callback>) call site takes off a callback of the calling object itself (self.<method>).  Taking off another
    object's callback is only accepted inside Beam.attenuator.setter, where the engine contract decides it semantically."""
    tree = ctx['tree']
    out = []
    for file in (PN, PM, BN, BM, SR, LN):
        mod = tree.module(file)
        for c in mod.body:
            if not isinstance(c, ast.ClassDef):
                continue
            for fn in ast.walk(c):
                if not isinstance(fn, ast.FunctionDef):
                    continue
                k = 0
                for n in ast.walk(fn):
                    if isinstance(n, ast.Call) and isinstance(n.func, ast.Attribute) and n.func.attr == 'remove' and 'notifier' in ast.unparse(n.func.value):
                        own = bool(n.args) and isinstance(n.args[0], ast.Attribute) and isinstance(n.args[0].value, ast.Name) and n.args[0].value.id == 'self'
                        covered = (c.name == 'Beam' and fn.name == 'attenuator')
                        out.append(structural('registration/%s.%s.remove#%d.own-callback' % (c.name, fn.name, k), PROP, own or covered,
                                              '%s in %s.%s' % (ast.unparse(n), c.name, fn.name)))
                        k += 1
    return out


GENERATORS = [_guards, _visibility, _removals]


def native_replay(ctx, o):
    """History replays on a real scene (slab plasma + beam + SingleRayAttenuator + mock atomic data): apply the mutator, observe, and
    compare with the state after an explicit rebuild / with a beam built from scratch in the final configuration."""
    import os
    from replaylib.native import run_native
    scene = open(os.path.join(ctx['verif'], 'replaylib', 'beam_scene.py')).read()
    name = o.name
    if 'visibility/Beam' in name:
        code = scene + '''
beam.transform = translate(0.3, 0, -2)
d0 = beam.density(0, 0, 3.0)
beam.transform = translate(1.8, 0, -2)
d1 = beam.density(0, 0, 3.0)
b2 = Beam(parent=world, transform=translate(1.8, 0, -2))
b2.plasma = plasma; b2.atomic_data = Data(); b2.energy = 60000; b2.power = 1e6; b2.element = elements.deuterium
b2.sigma = 0.05; b2.divergence_x = 0.5; b2.divergence_y = 0.5; b2.length = 5.0
b2.attenuator = SingleRayAttenuator(clamp_to_zero=False)
d2 = b2.density(0, 0, 3.0)
try:
    beam.attenuator.step = 0.005; err = None
except Exception as e:
    err = repr(e)[:120]
print(json.dumps({"density_after_move": d1, "density_fresh_beam": d2, "equal": abs(d1 - d2) <= 1e-6 * abs(d2), "step_setter_error": err}))
'''
        out = run_native(ctx, code)
        return {'confirmed': bool(out) and (out.get('equal') is False or bool(out.get('step_setter_error'))), 'observed': out,
                'input': 'beam moved from x=0.3 to x=1.8 after density(); then attenuator.step = 0.005',
                'expected': 'density equals that of a beam built at the final position; step setter accepted'}
    if 'BeamCXLine._populate_cache' in name:
        # observe once, replace the receiver species by a new Species with the same element and charge but a hotter, moving distribution,
        # observe again; compared with the same model in a scene where it never saw the old species
        code = scene + '''
from raysect.optical import Spectrum, Point3D
from cherab.core import Species, Maxwellian
from scipy.constants import atomic_mass
class _CX1(BeamCXPEC):
    def __init__(self): super().__init__(1)
    def evaluate(self, *a): return 1e-14
class Data3(Data):
    def beam_cx_pec(self, donor_ion, receiver_ion, receiver_charge, transition): return [_CX1()]
    def wavelength(self, ion, charge, transition): return 656.1
d_ = Data3(); plasma.atomic_data = d_; beam.atomic_data = d_
beam.models = [BeamCXLine(Line(elements.hydrogen, 0, (3, 2)))]
m = list(beam.models)[0]
def spec(model):
    s = Spectrum(650., 662., 400); model.emission(Point3D(0.0, 0.0, 3.0), Point3D(0.6, 0.0, 1.0), Vector3D(0, 0, 1), Vector3D(0.3, 0.1, 1).normalise(), s)
    return s.samples.copy()
first = spec(m)
old = plasma.composition.get(elements.deuterium, 1) if False else None
sp = [s_ for s_ in plasma.composition if s_.charge >= 1][0]
hot = Species(sp.element, sp.charge, Maxwellian(sp.distribution.density(0, 0, 0) if False else 4e19, 1500.0, Vector3D(-1.5e5, 0, 0), sp.element.atomic_weight * atomic_mass))
plasma.composition.add(hot)
second = spec(m)
beam.models = [BeamCXLine(Line(elements.hydrogen, 0, (3, 2)))]
fresh = spec(list(beam.models)[0])
import numpy as np
rel = float(np.abs(second - fresh).max() / max(fresh.max(), 1e-300))
print(json.dumps({"max_relative_deviation_from_fresh_model": rel, "equal": rel <= 1e-9, "peak_first": float(first.max()), "peak_second": float(second.max()), "peak_fresh": float(fresh.max())}))
'''
        out = run_native(ctx, code)
        return {'confirmed': bool(out) and out.get('equal') is False, 'observed': out,
                'input': 'BeamCXLine.emission(); plasma.composition.add(<same element and charge, 1500 eV, moving>); BeamCXLine.emission()',
                'expected': 'same spectrum as a model attached after the replacement'}
    if '[registration]' in name or 'registration/' in name or ('BeamAttenuator' in name and '_change' in name):
        # history: attenuator A, swap to B, swap back to A, observe, then change beam settings - compared with a beam built from scratch
        code = scene + '''
A = beam.attenuator
B = SingleRayAttenuator(clamp_to_zero=False)
d = [beam.density(0, 0, 3.0)]
beam.attenuator = B; d.append(beam.density(0, 0, 3.0))
beam.attenuator = A; d.append(beam.density(0, 0, 3.0))
beam.power = 3e6; beam.energy = 80000
got = beam.density(0, 0, 3.0)
b2 = Beam(parent=world, transform=translate(0.6, 0, -2))
b2.plasma = plasma; b2.atomic_data = Data(); b2.energy = 80000; b2.power = 3e6; b2.element = elements.deuterium
b2.sigma = 0.05; b2.divergence_x = 0.5; b2.divergence_y = 0.5; b2.length = 5.0
b2.attenuator = SingleRayAttenuator(clamp_to_zero=False)
want = b2.density(0, 0, 3.0)
print(json.dumps({"density_after_history": got, "density_fresh_beam": want, "equal": abs(got - want) <= 1e-9 * abs(want)}))
'''
        out = run_native(ctx, code)
        return {'confirmed': bool(out) and out.get('equal') is False, 'observed': out,
                'input': 'beam.attenuator = B; beam.attenuator = A (the first attenuator again); density(); beam.power = 3e6; beam.energy = 8e4; density()',
                'expected': 'density equals that of a beam built from scratch with power 3e6, energy 8e4'}
    m = None
    for prop, stmt in (('length', 'beam.length = 3.0'), ('sigma', 'beam.sigma = 0.1'), ('divergence_x', 'beam.divergence_x = 0.0; beam.divergence_y = 0.0'),
                       ('divergence_y', 'beam.divergence_y = 0.0; beam.divergence_x = 0.0'), ('clamp_sigma', 'beam.attenuator.clamp_sigma = 8.0'),
                       ('attenuator', 'beam.attenuator = SingleRayAttenuator(clamp_to_zero=False, clamp_sigma=8.0)')):
        if ('.%s.setter' % prop) in name:
            m = stmt
    if m is None:
        return None
    code = scene + '''
attach_model()
%s
g1 = geom(beam)
beam._configure_geometry()
g2 = geom(beam)
print(json.dumps({"geometry_after_setter": g1, "geometry_after_explicit_rebuild": g2, "equal": g1 == g2}))
''' % m
    out = run_native(ctx, code)
    return {'confirmed': bool(out) and out.get('equal') is False, 'observed': out, 'input': m,
            'expected': 'bounding geometry already up to date after the setter'}


def bounded_notifier(ctx):
    """Bounded stand-in (NOT a proof) for the assumed Notifier contract (cherab/core/utility/notify.py: weak references, list mutated while
    callbacks die - outside the verifier's subset): after arbitrary sequences of add / remove / drop-the-observer / notify, one notify() calls
    every live registered callback exactly once, in any position relative to dead entries; dead entries are purged; add is idempotent."""
    from replaylib.native import run_native
    n = 300 if ctx['tier'] == 'quick' else 5000
    code = '''
import gc, random
from cherab.core.utility.notify import Notifier
rnd = random.Random(%d)
bad = []; cases = 0
class Obs:
    def __init__(self, k): self.k = k; self.hits = 0
    def cb(self): self.hits += 1
for trial in range(%d):
    nt = Notifier(); live = {}; registered = set(); k = 0
    funcs = {}
    for step in range(rnd.randint(3, 12)):
        op = rnd.choice(("add", "add", "add", "remove", "drop", "notify", "addfn"))
        if op == "add":
            o = Obs(k); k += 1; live[o.k] = o; nt.add(o.cb); nt.add(o.cb); registered.add(o.k)
        elif op == "addfn":
            def f(box=[0]): box[0] += 1
            f.box = f.__defaults__[0]; funcs[k] = f; nt.add(f); registered.add(("f", k)); k += 1
        elif op == "remove" and live:
            key = rnd.choice(sorted(live)); nt.remove(live[key].cb); registered.discard(key)
        elif op == "drop" and live:
            key = rnd.choice(sorted(live)); del live[key]; registered.discard(key); gc.collect()
        elif op == "notify":
            before = {key: o.hits for key, o in live.items()}; fb = {key: f.box[0] for key, f in funcs.items()}
            nt.notify(); cases += 1
            for key, o in live.items():
                want = 1 if key in registered else 0
                if o.hits - before[key] != want:
                    bad.append({"trial": trial, "step": step, "observer": key, "registered": key in registered, "calls_in_one_notify": o.hits - before[key]})
            for key, f in funcs.items():
                if f.box[0] - fb[key] != 1:
                    bad.append({"trial": trial, "step": step, "function_callback": key, "calls_in_one_notify": f.box[0] - fb[key]})
print(json.dumps({"cases": cases, "bad": bad[:6]}))
''' % (ctx['seed'] + 1, n)
    out = run_native(ctx, code, timeout=600)
    return {'name': 'Notifier: every live registered callback is called exactly once per notify() (BOUNDED stand-in, not counted as proved)',
            'ok': bool(out) and out.get('bad') == [], 'detail': out, 'bound': '%d random add/remove/drop/notify histories of 3..12 steps, seed %d' % (n, ctx['seed'] + 1)}


BOUNDED = [bounded_notifier]
