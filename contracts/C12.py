"""C12 — equilibrium maps flux functions onto flux surfaces with an orthonormal basis."""
import ast
import z3
from .common import lemma, structural, as_bool
from pyvc.values import Obj, to_real, to_int

PROP = 'C12'
LEVEL = 'proof'
EXPLANATION = ('Contracts on the real evaluate() bodies of EFITLCFSMask, MagneticField, PoloidalFieldVector, FluxSurfaceNormal, '
               'FluxCoordToCartesian and on map2d/map3d (construction and argument order of the blend / iso-mapper / axisymmetric mapper); '
               'normalised-flux construction statement; NRA lemmas over the postconditions: orthonormal right-handed basis (normal = poloidal x '
               'toroidal), poloidal vector along the in-plane field, B.n = 0, mapped velocity components, psi_n >= 0 for either sign of '
               'psi_lcfs - psi_axis.')
EXPLANATION += "  map2d with a 2xN array profile: the 1D interpolant is built on rows 0 and 1 of the caller's array."
E = "cherab/tools/equilibrium/efit.pyx"
ASSUMPTIONS = ['raysect interpolators, np.gradient, PolygonMask2D (triangulation) and Blend2D/ScalarBlend2D (value = f where the mask is 1, '
               'the outside value where it is 0) behave as documented',
               'Vector3D.normalise() returns v/|v|; Vector3D.set_length(L) rescales the vector to length L keeping its direction',
               'C13 wrappers (IsoMapper2D, AxisymmetricMapper, VectorAxisymmetricMapper, ClampOutput2D) are verified under C13']
NOT_APPLICABLE = ['accuracy of the psi interpolation and of its finite-difference derivatives on the grid (raysect / numpy numerics)']


def new_vector3d(eng, st, fr, recv, args, kwargs):
    o = eng.new_obj(st, 'Vector3D', name='v3d')
    for n, a in zip('xyz', args):
        eng.write_attr(st, o, n, 'real', to_real(a))
    return o


def set_length(eng, st, fr, recv, args, kwargs):
    """Vector3D.set_length(L): components scaled by L / |v| (assumed raysect contract), in place."""
    L = to_real(args[0])
    x = eng.read_attr(st, recv, 'x', 'real')
    y = eng.read_attr(st, recv, 'y', 'real')
    z = eng.read_attr(st, recv, 'z', 'real')
    n = eng.math_fn('sqrt', [x * x + y * y + z * z], st, fr)
    for nm, v in (('x', x), ('y', y), ('z', z)):
        eng.write_attr(st, recv, nm, 'real', v * (L / n))
    return None


EXTERNALS = {
    'new_vector3d': {'kind': 'custom', 'fn': new_vector3d, 'doc': 'raysect new_vector3d'},
    'Vector3D.set_length': {'kind': 'custom', 'fn': set_length, 'override': True, 'doc': 'raysect Vector3D.set_length: rescale to the given length'},
    'ScalarBlend2D()': {'kind': 'logged', 'result': 'ref:Function2D', 'alloc': True, 'label': 'construct:ScalarBlend2D', 'doc': 'raysect Blend2D'},
    'Blend2D()': {'kind': 'logged', 'result': 'ref:Function2D', 'alloc': True, 'label': 'construct:ScalarBlend2D', 'doc': 'raysect Blend2D (cimported as ScalarBlend2D)'},
    'IsoMapper2D()': {'kind': 'logged', 'result': 'ref:Function2D', 'alloc': True, 'label': 'construct:IsoMapper2D', 'doc': 'cherab IsoMapper2D (C13)'},
    'AxisymmetricMapper()': {'kind': 'logged', 'result': 'ref:Function3D', 'alloc': True, 'label': 'construct:AxisymmetricMapper', 'doc': 'C13'},
    'VectorAxisymmetricMapper()': {'kind': 'logged', 'result': 'ref:VectorFunction3D', 'alloc': True, 'label': 'construct:VectorAxisymmetricMapper', 'doc': 'C13'},
    'autowrap_function1d': {'kind': 'custom', 'fn': lambda eng, st, fr, recv, args, kwargs: args[0], 'doc': 'identity on function objects'},
}
RZ = {"r": "real", "z": "real"}


def vec_is(P, res, comps, normalised):
    """result is (normalise of) a fresh vector with the given component expressions."""
    if normalised:
        if not (isinstance(res, Obj) and z3.is_app(res.ref) and res.ref.decl().name().startswith('ext_Vector3D_normalise')):
            return z3.BoolVal(False)
        vec = Obj(res.ref.arg(0), 'Vector3D')
    else:
        vec = res
    got = [P.eng.read_attr(P.st, vec, c, 'real') for c in 'xyz']
    return z3.And(*[g == to_real(P.value(w)) for g, w in zip(got, comps)])


def register(reg):
    reg.contract(E, "EFITLCFSMask.evaluate", PROP, sorts=RZ, requires=["not is_none(self._lcfs_polygon)", "not is_none(self._psi_normalised)"],
        ensures=[("inside_iff_polygon_and_flux", "result == ite(self._lcfs_polygon.evaluate(r, z) > 0.0 and self._psi_normalised.evaluate(r, z) <= 1.0, 1, 0)")],
        modifies=[])
    reg.contract(E, "MagneticField.evaluate", PROP, sorts=RZ,
        ensures=[("radial", "result.x == -self._dpsi_dz.evaluate(r, z) / r"), ("vertical", "result.z == self._dpsi_dr.evaluate(r, z) / r"),
                 ("toroidal_inside", "implies(self._inside_lcfs.evaluate(r, z) != 0, result.y == self._f_profile.evaluate(self._psi_normalised.evaluate(r, z)) / r)"),
                 ("toroidal_vacuum", "implies(self._inside_lcfs.evaluate(r, z) == 0, result.y == self._b_vacuum_magnitude * self._b_vacuum_radius / r)")],
        modifies=["x:real", "y:real", "z:real"])
    B = {"bx()": "self._field.evaluate(r, z).x", "bz()": "self._field.evaluate(r, z).z"}
    reg.contract(E, "PoloidalFieldVector.evaluate", PROP, sorts=RZ, ghost=B,
        ensures=[("no_field", lambda P: [("no_field", z3.Implies(as_bool(P.term("bx() == 0 and bz() == 0")), as_bool(vec_is(P, P.result, ["0", "0", "0"], False))))]),
                 ("along_in_plane_field", lambda P: [("along_in_plane_field", z3.Implies(as_bool(P.term("not (bx() == 0 and bz() == 0)")),
                                                                                        as_bool(vec_is(P, P.result, ["bx()", "0", "bz()"], True))))])],
        modifies=["x:real", "y:real", "z:real"])
    reg.contract(E, "FluxSurfaceNormal.evaluate", PROP, sorts=RZ, ghost=B,
        ensures=[("no_field", lambda P: [("no_field", z3.Implies(as_bool(P.term("bx() == 0 and bz() == 0")), as_bool(vec_is(P, P.result, ["0", "0", "0"], False))))]),
                 ("normal_to_in_plane_field", lambda P: [("normal_to_in_plane_field", z3.Implies(as_bool(P.term("not (bx() == 0 and bz() == 0)")),
                                                                                                as_bool(vec_is(P, P.result, ["-bz()", "0", "bx()"], True))))])],
        modifies=["x:real", "y:real", "z:real"])
    F = {"fx()": "self._field.evaluate(r, z).x", "fz()": "self._field.evaluate(r, z).z", "ps()": "self._psin.evaluate(r, z)",
         "s()": "sqrt(fx() * fx() + 0 * 0 + fz() * fz())", "vp()": "self._poloidal.evaluate(ps())", "vn()": "self._normal.evaluate(ps())",
         "vt()": "self._toroidal.evaluate(ps())"}
    reg.contract(E, "FluxCoordToCartesian.evaluate", PROP, sorts=RZ, ghost=F,
        ensures=[("toroidal_component", "result.y == vt()"),
                 ("no_field", "implies(fx() == 0 and fz() == 0, result.x == 0 and result.z == 0)"),
                 ("in_plane_x", "implies(not (fx() == 0 and fz() == 0), result.x == fx() * (vp() / s()) + (-fz()) * (vn() / sqrt((-fz()) * (-fz()) + 0 * 0 + fx() * fx())))"),
                 ("in_plane_z", "implies(not (fx() == 0 and fz() == 0), result.z == fz() * (vp() / s()) + fx() * (vn() / sqrt((-fz()) * (-fz()) + 0 * 0 + fx() * fx())))")],
        modifies=["x:real", "y:real", "z:real"])
    # map2d / map3d: construction and argument order
    def map2d_post(P):
        b = P.calls('construct:ScalarBlend2D')
        i = P.calls('construct:IsoMapper2D')
        ok = len(b) == 1 and len(i) == 1
        out = [("map2d.constructs", z3.BoolVal(ok))]
        if not ok:
            return out
        out.append(("map2d.iso_mapper_psi_then_profile", z3.And(as_bool(P.eng.identical(i[0].args[0], P.value("self.psi_normalised"))),
                                                               as_bool(P.eng.identical(i[0].args[1], P.value("profile"))))))
        out.append(("map2d.blend_outside_value_first", to_real(b[0].args[0]) == to_real(P.value("value_outside_lcfs"))))
        out.append(("map2d.blend_mapped_profile_second", b[0].args[1].ref == i[0].result.ref))
        out.append(("map2d.blend_mask_is_inside_lcfs", as_bool(P.eng.identical(b[0].args[2], P.value("self.inside_lcfs")))))
        out.append(("map2d.returns_blend", P.result.ref == b[0].result.ref))
        return out
    reg.contract(E, "EFITEquilibrium.map2d", PROP, sorts={"profile": "ref:Function1D!", "value_outside_lcfs": "real"}, result='ref:Function2D',
        ensures=[("construction", map2d_post)])

    # array profile (2 x N: first row psi_n, second row values): the 1D interpolant is built on (profile[0, :], profile[1, :]), for every N
    def map2d_array_post(P):
        c = P.calls('construct:Interpolator1DArray')
        i = P.calls('construct:IsoMapper2D')
        ok = len(c) == 1 and len(i) == 1
        out = [("map2d.array.constructs", z3.BoolVal(ok))]
        if not ok:
            return out
        prof = P.value("profile")
        def row(v, k):
            # a row view of the caller's array: v is profile[k, :]
            return z3.BoolVal(bool(isinstance(v, Obj) and v.view is not None and v.view[0].ref.eq(prof.ref) and v.view[1] == 'row'
                                   and z3.is_int_value(z3.simplify(to_int(v.view[2]))) and z3.simplify(to_int(v.view[2])).as_long() == k))
        out.append(("map2d.array.abscissa_is_first_row", row(c[0].args[0], 0)))
        out.append(("map2d.array.values_are_second_row", row(c[0].args[1], 1)))
        out.append(("map2d.array.iso_mapper_uses_interpolant", as_bool(P.eng.identical(i[0].args[1], c[0].result))))
        return out
    reg.contract(E, "EFITEquilibrium.map2d", PROP, name='array', sorts={"profile": "arr:real:2", "value_outside_lcfs": "real"}, result='ref:Function2D',
        requires=["not is_none(profile)", "not isinst(profile, 'Function1D')"],
        externals={'array': {'kind': 'custom', 'fn': lambda eng, st, fr, recv, args, kwargs: args[0], 'doc': 'numpy.array(x, float64) of an array: same contents'},
                   'Interpolator1DArray()': {'kind': 'logged', 'result': 'ref:Function1D', 'alloc': True, 'label': 'construct:Interpolator1DArray',
                                             'doc': 'raysect 1D interpolator (x, f, kind, extrapolation, range)'},
                   '.transpose': {'kind': 'pure', 'result': 'arr:real:2', 'doc': 'numpy transpose (a different array)'},
                   'callable': {'kind': 'custom', 'fn': lambda eng, st, fr, recv, args, kwargs: False, 'doc': 'an ndarray is not callable'}},
        ensures=[("array_profile", map2d_array_post)])

    def map3d_post(P):
        a = P.calls('construct:AxisymmetricMapper')
        m = P.calls('map2d')
        ok = len(a) == 1 and len(m) == 1
        out = [("map3d.constructs", z3.BoolVal(ok))]
        if ok:
            out.append(("map3d.axisymmetric_of_map2d", z3.And(a[0].args[0].ref == m[0].result.ref, P.result.ref == a[0].result.ref)))
            out.append(("map3d.map2d_arguments", z3.And(as_bool(P.eng.identical(m[0].args[0], P.value("profile"))),
                                                        to_real(m[0].args[1]) == to_real(P.value("value_outside_lcfs")))))
        return out
    reg.contract(E, "EFITEquilibrium.map3d", PROP, sorts={"profile": "ref:Function1D!", "value_outside_lcfs": "real"},
        ensures=[("construction", map3d_post)])


def _construction(ctx, eng):
    tree = ctx['tree']
    src = ' '.join(ast.unparse(tree.find_func(E, 'EFITEquilibrium.__init__')).split())
    out = [structural('construction/psi_normalised', PROP,
                      "self.psi_normalised = ClampOutput2D(Interpolator2DArray(r, z, (psi - psi_axis) / (psi_lcfs - psi_axis), 'cubic', 'none', 0, 0), min=0)" in src,
                      'normalised flux = clamp((psi - psi_axis)/(psi_lcfs - psi_axis), min 0)'),
           structural('construction/b_field', PROP,
                      "self.b_field = MagneticField(self.psi_normalised, dpsi_dr, dpsi_dz, self.f_profile, b_vacuum_radius, b_vacuum_magnitude, self.inside_lcfs)" in src,
                      'field built from psi_n, the two derivative interpolants, f, vacuum field, mask'),
           structural('construction/basis_vectors', PROP, "self.toroidal_vector = ConstantVector2D(Vector3D(0, 1, 0))" in src and
                      "self.poloidal_vector = PoloidalFieldVector(self.b_field)" in src and "self.surface_normal = FluxSurfaceNormal(self.b_field)" in src,
                      'toroidal = e_phi, poloidal / normal from the field')]
    src = ' '.join(ast.unparse(tree.find_func(E, 'EFITEquilibrium.map_vector2d')).split())
    out.append(structural('construction/map_vector2d', PROP, "v = FluxCoordToCartesian(self.b_field, self.psi_normalised, toroidal, poloidal, normal)" in src and
                          "return VectorBlend2D(value_outside_lcfs, v, self.inside_lcfs)" in src, 'argument order toroidal, poloidal, normal; blend(outside, v, mask)'))
    src = ' '.join(ast.unparse(tree.find_func(E, 'EFITEquilibrium.map_vector3d')).split())
    out.append(structural('construction/map_vector3d', PROP, "return VectorAxisymmetricMapper(self.map_vector2d(toroidal, poloidal, normal, value_outside_lcfs))" in src, ''))
    src = ' '.join(ast.unparse(tree.find_func(E, 'EFITEquilibrium._process_polygons')).split())
    out.append(structural('construction/lcfs_mask', PROP, "self.inside_lcfs = EFITLCFSMask(lcfs_polygon, psi_normalised)" in src, 'mask from the LCFS polygon and psi_n'))
    return out


GENERATORS = [_construction]


def _lemmas(ctx):
    R = z3.Real
    bx, bz, bt, s = R('bx'), R('bz'), R('bt'), R('s')
    hyp = [s > 0, s * s == bx * bx + bz * bz]
    px, pz = bx / s, bz / s
    nx, nz = -bz / s, bx / s
    out = [lemma('basis.unit_poloidal', PROP, hyp, px * px + pz * pz == 1, '|p| = 1'),
           lemma('basis.unit_normal', PROP, hyp, nx * nx + nz * nz == 1, '|n| = 1'),
           lemma('basis.orthogonal', PROP, hyp, z3.And(px * nx + pz * nz == 0, px * 0 + 0 * 1 + pz * 0 == 0), 'p.n = 0, p.t = n.t = 0 (t = e_y)'),
           lemma('basis.right_handed', PROP, hyp, z3.And(0 * 0 - pz * 1 == nx, pz * 0 - px * 0 == 0, px * 1 - 0 * 0 == nz), 'n = p x t with t = (0, 1, 0)'),
           lemma('basis.poloidal_along_field', PROP, hyp, z3.And(px * s == bx, pz * s == bz), 'p is the in-plane field direction (positive factor 1/s)'),
           lemma('field.no_normal_component', PROP, hyp, bx * nx + bt * 0 + bz * nz == 0, 'B . n = 0')]
    vp, vn = R('vp'), R('vn')
    vx, vz = bx * (vp / s) + (-bz) * (vn / s), bz * (vp / s) + bx * (vn / s)
    out.append(lemma('velocity.components', PROP, hyp, z3.And(vx * px + vz * pz == vp, vx * nx + vz * nz == vn),
                     'mapped velocity has exactly the prescribed poloidal and normal components in the basis'))
    v, lo = R('v'), R('lo')
    out.append(lemma('psi_normalised.nonnegative', PROP, [lo == 0], z3.If(v < lo, lo, v) >= 0, 'clamp(min=0) output is never negative'))
    return out


LEMMAS = [_lemmas]


def native_replay(ctx, o):
    """map2d / map3d obligations: 2 x N array profiles (N = 2..6, linear and non-monotone values) mapped on the bundled example equilibrium
    are compared, inside the LCFS, with the same interpolator built directly on the two rows and evaluated at psi_normalised(r, z)."""
    if 'AxisymmetricMapper' in o.name:
        from .C13 import battery_replay
        return battery_replay(ctx, o)
    if '.map2d' not in o.name and '.map3d' not in o.name:
        return None
    from replaylib.native import run_native
    code = """
import numpy as np
from raysect.core.math.function.float import Interpolator1DArray
from cherab.tools.equilibrium import example_equilibrium
eq = example_equilibrium()
bad = []
rmin, rmax = eq.r_range; zmin, zmax = eq.z_range
pts = [(r, z) for r in np.linspace(rmin, rmax, 14)[1:-1] for z in np.linspace(zmin, zmax, 14)[1:-1]]
for n in range(2, 7):
    psin = np.linspace(0.0, 1.0, n)
    for values in (5.0 + 5.0 * psin, 3.0 - 2.0 * psin ** 2 + np.cos(7 * psin)):
        prof = np.array([psin, values])
        ref = Interpolator1DArray(psin, values, 'cubic', 'none', 0)
        try:
            f2, f3 = eq.map2d(prof, -7.5), eq.map3d(prof, -7.5)
        except Exception as e:
            bad.append({"N": n, "profile": prof.tolist(), "error": repr(e)[:100]}); continue
        for r, z in pts:
            want = ref(min(max(eq.psi_normalised(r, z), 0.0), 1.0)) if eq.inside_lcfs(r, z) > 0 else -7.5
            got2, got3 = f2(r, z), f3(r * np.cos(0.7), r * np.sin(0.7), z)
            if abs(got2 - want) > 1e-9 * max(1, abs(want)) or abs(got3 - want) > 1e-9 * max(1, abs(want)):
                bad.append({"N": n, "profile": prof.tolist(), "r": r, "z": z, "map2d": got2, "map3d": got3, "expected": want}); break
print(json.dumps({"bad": bad[:3], "nbad": len(bad)}))
"""
    out = run_native(ctx, code, timeout=600)
    exp = 'mapped value = interpolant of (row 0, row 1) at psi_normalised inside the LCFS, the outside value elsewhere'
    if out and out.get('nbad'):
        return {'confirmed': True, 'input': out['bad'][0], 'observed': out, 'expected': exp}
    return {'confirmed': False, 'input': None, 'observed': out, 'expected': exp}


# ------------------------------------------------------------------------------------------------ the mappers map3d / map_vector3d rest on
# (same contracts as in C13: the mapped 3D quantity is the 2D one at (sqrt(x^2+y^2), z), a vector additionally rotated by atan2(y, x))
MPF = "cherab/core/math/mappers.pyx"
_register_efit = register


def register(reg):
    _register_efit(reg)
    F3 = {"x": "real", "y": "real", "z": "real"}
    ext = {'Vector3D.__new__': {'kind': 'fresh', 'result': 'ref:Vector3D', 'alloc': True, 'doc': 'raysect new_vector3d: a freshly allocated vector'},
           'rotate_z': {'kind': 'pure', 'result': 'ref:AffineMatrix3D', 'doc': 'raysect rotate_z(angle in degrees) pure'}}
    # the clamp that keeps the normalised flux non-negative: ClampOutput2D stores the bounds it is given (0 included)
    CLF = "cherab/core/math/clamp.pyx"
    reg.contract(CLF, "ClampOutput2D.__init__", PROP, sorts={"min": "real", "max": "real", "f": "ref:Function2D!"},
        raises={"ValueError": "min >= max"},
        ensures=[("bounds_stored", "self._min == min and self._max == max"), ("function_stored", "same(self._f, f)")])
    reg.contract(CLF, "ClampOutput2D.evaluate", PROP, sorts={"x": "real", "y": "real"}, requires=["not is_none(self._f)"],
        ghost={"cl(v, a, b)": "ite(v < a, a, ite(v > b, b, v))"},
        ensures=[("composition", "result == cl(self._f.evaluate(x, y), self._min, self._max)")], modifies=[])
    reg.contract(MPF, "AxisymmetricMapper.evaluate", PROP, sorts=F3, requires=["not is_none(self.function2d)"], externals=ext,
        ensures=[("composition", "result == self.function2d.evaluate(sqrt(x*x + y*y), z)")], modifies=[])
    reg.contract(MPF, "VectorAxisymmetricMapper.evaluate", PROP, sorts=F3, requires=["not is_none(self.function2d)"], externals=ext,
        ensures=[("composition", "same(result, self.function2d.evaluate(sqrt(x*x + y*y), z).transform(rotate_z(atan2(y, x) / M_PI * 180)))")],
        modifies=[])
